"""F34 (C11, open): run with PYTHONPATH=/repo/src /venv/bin/python corpus/C11/equal_subtrees_repro.py
Inside a quantifier two structurally equal subtrees share one cache entry of the body constraint, so the
failing parts name the FIRST position twice."""
from fandango.language.parse.parse import parse

SPEC = '''<start> ::= <a> <a>
<a> ::= <b>
<b> ::= "y" | "q"
where all(all(str(<b>) == "y" for <b> in *<a>.<b>) for <a> in *<start>.<a>)
'''
g, cons = parse(SPEC, use_stdlib=False, use_cache=False)
t = g.parse("qq")
f = cons[0].fitness(t)


def path(n):
    p = []
    while n.parent is not None:
        p.append(next(i for i, c in enumerate(n.parent.children) if c is n))
        n = n.parent
    return ".".join(map(str, reversed(p)))


got = sorted(path(ft.tree) for ft in f.failing_trees)
print("failing parts at", got, "(expected ['0.0', '1.0'])")
raise SystemExit(0 if got == ["0.0", "1.0"] else 1)
