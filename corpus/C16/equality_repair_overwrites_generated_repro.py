"""C16: equality repair assigns a value behind a generator.

    PYTHONPATH=<repo>/src python repro.py

<g> is defined by a generator that only ever returns "abc".  With `where <g> == "xyz"` (or a constraint on an
enclosing symbol) Fandango emits trees whose <g> field reads "xyz"/"zzz": a text the generator never returned.
"""
import itertools
import sys

from fandango.language.parse.parse import parse
from fandango.evolution.algorithm import Fandango
from fandango.language.grammar.grammar import Grammar
from fandango.logger import LOGGER

LOGGER.setLevel(50)
returned = []
_orig = Grammar.generate_string


def generate_string(self, symbol="<start>", sources=None):
    out = _orig(self, symbol, sources)
    returned.append(out[1])
    return out


Grammar.generate_string = generate_string
bad = 0
for where in ('where <g> == "xyz"', 'where <start> == "zzz-1"'):
    spec = f'''
<start> ::= <g> "-" <x>
<g> ::= r"[a-z]+" := "abc"
<x> ::= r"[0-9]"
{where}
'''
    grammar, constraints = parse(spec, use_cache=False, use_stdlib=False)
    fan = Fandango(grammar, constraints, population_size=6, random_seed=1, max_nodes=30)
    for sol in itertools.islice(fan.generate(max_generations=4), 5):
        g = sol.children[0]
        ok = str(g) in returned
        bad += 0 if ok else 1
        print(f"{where!r}: emitted {str(sol)!r}; <g> = {str(g)!r}; returned by the generator: {ok}")
print("generator returned only:", sorted(set(returned)))
sys.exit(1 if bad else 0)
