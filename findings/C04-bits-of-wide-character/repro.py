"""C04: bit terminals read the low 8 bits of a str character above U+00FF.
Run: PYTHONPATH=/repo/src /venv/bin/python repro.py   (exit 1 = defect present)"""
import sys
from fandango.language.parse.parse import parse

grammar, _ = parse('<start> ::= <b>{8}\n<b> ::= 0 | 1\n', use_cache=False, use_stdlib=False)
word = "š"                      # 'š' = U+0161; its low byte is 0x61 = 'a'
trees = list(grammar.parse_forest(word))
print("trees yielded for", repr(word), ":", len(trees))
bad = 0
for t in trees:
    v = t.to_string()
    print("  serialises to", repr(v))
    bad += v != word
sys.exit(1 if bad else 0)
