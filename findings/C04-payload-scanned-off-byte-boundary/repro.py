"""C04: a bytes/text/regex terminal is matched in the middle of an input byte.
Run: PYTHONPATH=/repo/src /venv/bin/python repro.py   (exit 1 = defect present)"""
import sys
from fandango.language.parse.parse import parse

grammar, _ = parse('<start> ::= <b> <b> <b> <b> b"a" <b> <b> <b> <b>\n<b> ::= 0 | 1\n', use_cache=False, use_stdlib=False)
word = b"a\x1f"                      # bits 0110 0001 0001 1111: after four bits the input holds 0x11, not b"a"
trees = list(grammar.parse_forest(word))
print("trees yielded for", word, ":", len(trees))
bad = 0
for t in trees:
    try:
        v = t.to_bytes()
    except Exception as e:          # FandangoConversionError: trailing bits are not a multiple of 8
        v = f"<{type(e).__name__}: {e}>"
    print("  serialises to", v)
    bad += v != word
sys.exit(1 if bad else 0)
