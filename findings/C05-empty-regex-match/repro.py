#!/usr/bin/env python3
"""C05 / F10a: a regex terminal that matches the empty string is treated as "no match".
usage: PYTHONPATH=<repo>/src /venv/bin/python repro.py      exit 1 = defect present."""
import logging, sys
from fandango.logger import LOGGER
LOGGER.setLevel(logging.CRITICAL)
from fandango.language.parse.parse import parse
bad = 0
for spec, word in [('<start> ::= r"[0-9]*" "x"', "x"), ('<start> ::= r"a*" r"a*" "b"', "b"),
                   ('<start> ::= <x>* "b"\n<x> ::= r"a*"', "b"), ('<start> ::= r"[0-9]*" "x"', "12x")]:
    g, _ = parse(spec + "\n", use_stdlib=False, use_cache=False)
    t = g.parse(word)
    print(repr(spec), repr(word), "->", None if t is None else repr(str(t)))
    bad += t is None
sys.exit(1 if bad else 0)
