#!/usr/bin/env python3
"""C05 / a symbol completed with an EMPTY derivation in column k is not re-completed for a state that reaches
column k later: words of the language are rejected (no regex terminals involved).

run:  PYTHONPATH=/repo/src /venv/bin/python repro.py        (exit 1 = defect present, 0 = repaired)
"""
import logging
import os
import sys

os.environ.pop("FANDANGO_RAISE_ALL_EXCEPTIONS", None)
from fandango import Fandango
from fandango.language.parse.parse import parse

logging.getLogger("fandango").setLevel(logging.ERROR)

CASES = [
    # (spec, word, number of derivations the grammar has for the word)
    ('<start> ::= <s1> <s2>\n<s1> ::= "a" <s2>\n<s2> ::= "b"?\n', "a", 1),          # found by b-c19 (C19)
    ('<start> ::= <s1> <e>\n<s1> ::= "a" <e>\n<e> ::= ""\n', "a", 1),
    ('<start> ::= <s1> <s2>\n<s1> ::= "a" <s2>\n<s2> ::= "b"*\n', "abb", 3),        # only 2 of 3 trees today
    # helper symbol of ("c"){0,2}: completed empty at offset 2 inside the <m2> that started at 0 (= "ab"),
    # then predicted again at offset 2 by the <m2> of the second <m1>
    ('<start> ::= <m1> <m1> "ab"\n<m1> ::= <m2> "ab"\n<m2> ::= "ab"? ("c"){0,2}\n', "ababab", 1),
]
bad = 0
for spec, word, want in CASES:
    g, cs = parse(spec, None, use_cache=False, use_stdlib=False)
    fan = Fandango._with_parsed(g, cs, start_symbol="<start>")
    # the word is in the language: build it with the generator's own tree type? simpler: count parses
    n = sum(1 for _ in zip(range(50), fan.parse(word)))
    flag = "" if n >= want else "   <-- word of the language, %d derivation(s) expected" % want
    print(f"{spec.strip()!r}: parse({word!r}) -> {n} tree(s){flag}")
    bad += n < want
print("DEFECT PRESENT" if bad else "ok")
sys.exit(1 if bad else 0)
