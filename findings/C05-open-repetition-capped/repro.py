#!/usr/bin/env python3
"""C05 / open-ended `{n,}` repetitions are capped in the parser (and at a stale cap).

run:  PYTHONPATH=/repo/src /venv/bin/python repro.py        (exit 1 = defect present, 0 = repaired)

(1) the parser accepts any number of iterations for `*` and `+` but at most 20 (the repetition cap at the time
    the grammar's parser was built) for `{n,}`, although docs/Language.md says "Omitting M creates an infinite
    upper bound (i.e, any number of repetitions)" and "`*` stands for `{0,}`", "`+` stands for `{1,}`".
(2) the cap only belongs to the generator, and the generator's cap moves: the adaptive tuner raises it
    (20 -> 30 -> 45 ...) through Grammar.set_max_repetition, the parser keeps the rules it compiled for 20.
    So Fandango GENERATES solutions that the same Fandango object / `fandango fuzz --validate` cannot parse back.
"""
import os
import random
import sys

os.environ.pop("FANDANGO_RAISE_ALL_EXCEPTIONS", None)
import logging

from fandango import Fandango
from fandango.language.parse.parse import parse

logging.getLogger("fandango").setLevel(logging.ERROR)
bad = 0


def n_trees(spec: str, word: str) -> int:
    g, cs = parse(spec, None, use_cache=False, use_stdlib=False)
    fan = Fandango._with_parsed(g, cs, start_symbol="<start>")
    return sum(1 for _ in zip(range(2), fan.parse(word)))


print("(1) the same language written three ways, 21 iterations:")
for spec in ['<start> ::= "a"+ "b"\n', '<start> ::= ("a"){1,} "b"\n', '<start> ::= "a"* "b"\n', '<start> ::= ("a"){0,} "b"\n']:
    n = n_trees(spec, "a" * 21 + "b")
    print(f"    {spec.strip():32} parse('a'*21+'b') -> {n} tree(s)")
    bad += n == 0

print("(2) what Fandango generates, Fandango parses back:")
random.seed(1)
spec = '<start> ::= ("a"){2,} "b"\nwhere len(str(<start>)) >= 24\n'
g, cs = parse(spec, None, use_cache=False, use_stdlib=False)
fan = Fandango._with_parsed(g, cs, start_symbol="<start>")
sols = fan.fuzz(desired_solutions=3, max_generations=60, population_size=20)
print(f"    {len(sols)} solutions; the grammar's repetition cap is now {g.get_max_repetition()}")
for t in sols:
    w = t.to_string()
    n = sum(1 for _ in zip(range(2), fan.parse(w)))
    print(f"    generated {w!r} ({len(w) - 1} iterations): parsed back -> {n} tree(s)")
    bad += n == 0
if not sols:
    print("    (no solution generated within 60 generations: part (2) not exercised)")

print("DEFECT PRESENT" if bad else "ok: every word was parsed")
sys.exit(1 if bad else 0)
