#!/usr/bin/env python3
"""C06 / F9 (+ left recursion in prefix mode): parse requests that never return.

usage:  PYTHONPATH=<repo>/src /venv/bin/python repro.py
exit 1 = defect present (some request exceeded the step budget / overflowed the stack), 0 = all requests returned.

Steps are counted (Column.add calls), not seconds: an honest parse of these 1-3 character inputs needs < 200 of them.
"""
import logging
import sys

from fandango.logger import LOGGER
LOGGER.setLevel(logging.CRITICAL)
from fandango.language.grammar import ParsingMode
from fandango.language.grammar.parser.column import Column
from fandango.language.parse.parse import parse

BUDGET = 20_000


class Budget(BaseException):
    pass


class Meter:
    adds = 0


_add = Column.add


def add(self, state):
    Meter.adds += 1
    if Meter.adds > BUDGET:
        raise Budget()
    return _add(self, state)


Column.add = add

CASES = [
    # (spec, input, expected number of trees of a COMPLETE parse after the repair)
    ('<start> ::= ("a"?)* "b"', "ab", 1),                                   # F9, the design's witness
    ('<start> ::= ("a"?)+', "a", 2),
    ('<start> ::= (("a"?)*)*', "a", 1),
    ('<start> ::= <x>* "b"\n<x> ::= "a"?', "ab", 1),                         # nullable nonterminal under *
    ('<start> ::= <a> "b"\n<a> ::= <a> | "x"', "xb", 1),                    # unit cycle
    ('<start> ::= <a> "b"\n<a> ::= <c> | "x"\n<c> ::= <a>', "xb", 1),      # indirect unit cycle
    ('<start> ::= <x>\n<x> ::= <y> <x> | "a"?\n<y> ::= "b"?', "ba", 1),    # nullable right recursion
    ('<start> ::= <x>\n<x> ::= <x> "" | "a"', "a", 1),                      # cycle through an empty literal
    ('<start> ::= <r>\n<r> ::= <r> "+" "n" | "n"', "n+n", 1),              # left recursion: prefix mode diverges
    ('<start> ::= ("a"?){2,} "b"', "ab", None),                             # bounded: terminated before, unchanged
]

bad = 0
for spec, word, want in CASES:
    for mode in ("forest", "first", "prefix"):
        grammar, _ = parse(spec + "\n", use_stdlib=False, use_cache=False)
        Meter.adds = 0
        n = 0
        try:
            if mode == "first":
                n = 0 if grammar.parse(word) is None else 1
            else:
                pm = ParsingMode.INCOMPLETE if mode == "prefix" else ParsingMode.COMPLETE
                for _tree in grammar.parse_forest(word, mode=pm):
                    n += 1
            status = "returned"
        except Budget:
            status = f"DOES NOT RETURN (> {BUDGET} admissions)"
        except RecursionError:
            status = f"DOES NOT RETURN (stack overflow after {n} ever deeper trees)"
        ok = status == "returned" and (mode != "forest" or want is None or n == want)
        bad += not ok
        print(f"{'ok ' if ok else 'BAD'} {spec.splitlines()[0]!r:45} {word!r:6} {mode:7} {status}; trees={n} admissions={Meter.adds}")
print("defect present" if bad else "all requests returned")
sys.exit(1 if bad else 0)
