#!/usr/bin/env python3
"""C08 reproducer — run: PYTHONPATH=<repo>/src python repro.py   (exit 1 = defect present, 0 = repaired)"""
import ast, os, sys, warnings
warnings.simplefilter("ignore")
os.environ.pop("FANDANGO_RAISE_ALL_EXCEPTIONS", None)
import logging; logging.disable(logging.CRITICAL)
from fandango.language.parse.parse_spec import parse_content
from fandango.language.parse.spec import FandangoSpec


def code_text(text):
    """the Python source Fandango will exec for spec-level code `text` (not executed here)"""
    old = FandangoSpec.run_code
    FandangoSpec.run_code = lambda self, filename="<input_>": None
    try:
        return parse_content(text, filename="<repro>", use_cache=False, used_symbols=set()).code_text
    finally:
        FandangoSpec.run_code = old


def constraint(expr):
    """the constraint object(s) of `where <expr>`"""
    spec = parse_content("<start> ::= <a>\n<a> ::= 'x'\nwhere " + expr + "\n", filename="<repro>",
                         use_cache=False, used_symbols=set())
    return spec.constraints


bad = 0


def same(text):
    """1 if the code Fandango runs for `text` is not what CPython reads (rejecting is fine)"""
    try:
        got = code_text(text)
    except Exception as e:
        print(f"  rejected   {text!r}: {type(e).__name__}")
        return 0
    ok = ast.dump(ast.parse(got)) == ast.dump(ast.parse(text))
    print(f"  {'same      ' if ok else 'ALTERED   '} {text!r} -> {got!r}")
    return 0 if ok else 1


for e in ["a if c else d >= 3", "x < y if c else z"]:
    try:
        c = constraint(e)[0]
        txt = getattr(c, "_left", "?") + " " + str(getattr(c, "_operator", "?")) + " " + getattr(c, "_right", "?")
        names = {n.id for side in (c._left, c._right) for n in ast.walk(ast.parse(side)) if isinstance(n, ast.Name)}
        invented = names - {"a", "c", "d", "x", "y", "z"}
        print(f"  where {e}:  operands {c._left!r} / {c._right!r}", "INVENTED NAME " + str(invented) if invented else "")
        bad += bool(invented)
    except Exception as ex:
        print(f"  where {e}: rejected {type(ex).__name__}")
sys.exit(1 if bad else 0)
