#!/usr/bin/env python3
"""C08 reproducer — run: PYTHONPATH=<repo>/src python repro.py   (exit 1 = defect present, 0 = repaired)"""
import ast, os, sys, warnings
warnings.simplefilter("ignore")
os.environ.pop("FANDANGO_RAISE_ALL_EXCEPTIONS", None)
import logging; logging.disable(logging.CRITICAL)
from fandango.language.parse.parse_spec import parse_content
from fandango.language.parse.spec import FandangoSpec


def code_text(text):
    """the Python source Fandango will exec for spec-level code `text` (not executed here)"""
    old = FandangoSpec.run_code
    FandangoSpec.run_code = lambda self, filename="<input_>": None
    try:
        return parse_content(text, filename="<repro>", use_cache=False, used_symbols=set()).code_text
    finally:
        FandangoSpec.run_code = old


def constraint(expr):
    """the constraint object(s) of `where <expr>`"""
    spec = parse_content("<start> ::= <a>\n<a> ::= 'x'\nwhere " + expr + "\n", filename="<repro>",
                         use_cache=False, used_symbols=set())
    return spec.constraints


bad = 0


def same(text):
    """1 if the code Fandango runs for `text` is not what CPython reads (rejecting is fine)"""
    try:
        got = code_text(text)
    except Exception as e:
        print(f"  rejected   {text!r}: {type(e).__name__}")
        return 0
    ok = ast.dump(ast.parse(got)) == ast.dump(ast.parse(text))
    print(f"  {'same      ' if ok else 'ALTERED   '} {text!r} -> {got!r}")
    return 0 if ok else 1


for t in ["x = a,\n", "a, = b\n", "x = a[b,]\n", "for i, in y: pass\n", "def f(): return a,\n", "x = [i for i, in y]\n", "x = *a,\n",
          "x = a[b]\n", "x = a[b, c]\n", "x = a, b\n"]:
    bad += same(t)
env = {"a": 1}
try:
    exec(code_text("x = a,\n"), {}, env)
    print("  x = a,  with a = 1 gives x =", repr(env["x"]), "(CPython: (1,))")
except Exception as e:
    print("  ", type(e).__name__, e)
sys.exit(1 if bad else 0)
