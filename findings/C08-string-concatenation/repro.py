#!/usr/bin/env python3
"""C08 reproducer — run: PYTHONPATH=<repo>/src python repro.py   (exit 1 = defect present, 0 = repaired)"""
import ast, os, sys, warnings
warnings.simplefilter("ignore")
os.environ.pop("FANDANGO_RAISE_ALL_EXCEPTIONS", None)
import logging; logging.disable(logging.CRITICAL)
from fandango.language.parse.parse_spec import parse_content
from fandango.language.parse.spec import FandangoSpec


def code_text(text):
    """the Python source Fandango will exec for spec-level code `text` (not executed here)"""
    old = FandangoSpec.run_code
    FandangoSpec.run_code = lambda self, filename="<input_>": None
    try:
        return parse_content(text, filename="<repro>", use_cache=False, used_symbols=set()).code_text
    finally:
        FandangoSpec.run_code = old


def constraint(expr):
    """the constraint object(s) of `where <expr>`"""
    spec = parse_content("<start> ::= <a>\n<a> ::= 'x'\nwhere " + expr + "\n", filename="<repro>",
                         use_cache=False, used_symbols=set())
    return spec.constraints


bad = 0


def same(text):
    """1 if the code Fandango runs for `text` is not what CPython reads (rejecting is fine)"""
    try:
        got = code_text(text)
    except Exception as e:
        print(f"  rejected   {text!r}: {type(e).__name__}")
        return 0
    ok = ast.dump(ast.parse(got)) == ast.dump(ast.parse(text))
    print(f"  {'same      ' if ok else 'ALTERED   '} {text!r} -> {got!r}")
    return 0 if ok else 1


for t in ["def f():\n    \x27doc\x27 \x27string\x27\n    return 1\n", "x = \x27a\x27 \x27b\x27\n", "x = \x27a\x27 f\x27{b}\x27 \x27c\x27\n"]:
    bad += same(t)
env = {}
exec(code_text("def f():\n    \x27doc\x27 \x27string\x27\n    return 1\n"), env)
print("  f.__doc__ =", repr(env["f"].__doc__), "(CPython: \x27docstring\x27)")
bad += env["f"].__doc__ != "docstring"
try:
    t = code_text("x = b\x27a\x27 b\x27b\x27\n")
    print("  bytes:", repr(t))
    bad += ast.dump(ast.parse(t)) != ast.dump(ast.parse("x = b\x27ab\x27"))
except Exception as e:
    print("  bytes: b\x27a\x27 b\x27b\x27 ->", type(e).__name__, e)
    bad += 1
sys.exit(1 if bad else 0)
