"""Python embedded in a spec keeps its Python meaning: the code Fandango executes for spec-level
Python is what CPython's own parser reads (to be added to tests/ together with the C08-* patches)."""

import ast

import pytest

from fandango.language.parse.parse_spec import parse_content

SNIPPETS = [
    # a single element followed by a comma is a tuple (C08-one-element-tuple)
    "x = a,",
    "a, = b",
    "x = a[b,]",
    "x = a[b:c,]",
    "for i, in y: pass",
    "def f(): return a,",
    "x = [i for i, in y]",
    "x = f'{a,}'",
    "x = a[b]",
    "x = a, b",
    # parameters (C08-parameters)
    "def f(a, b=1): return a + b",
    "def f(a, b=1, *args, c, d=2): pass",
    "def f(a, /, b, *, c=1, **k): pass",
    "def f(a, b=1, /, c=2): pass",
    "def f(*, a): pass",
    "def f(a: int = 1) -> int: return a",
    # lambdas (C08-lambda)
    "x = lambda: 0",
    "x = lambda a, b=1: a",
    "x = sorted(y, key=lambda p: p[1])",
    "x = lambda *a, k=2, **kw: (a, k, kw)",
    # starred elements of displays (C08-starred-display-element)
    "x = [*a, b]",
    "x = (*a, b)",
    "x = {*a, b}",
    # adjacent string literals (C08-string-concatenation)
    "def f():\n    'doc' 'string'\n    return 1",
    "x = b'a' b'b'",
    "x = 'a' f'{b}' 'c'",
    # f-strings (C08-fstring-literal-text)
    "x = f'a {b} c'",
    "x = f'{a=}'",
    "x = f'{a = !s:>5}'",
    "x = f'{a:> 10}'",
    "x = f'{{a b}} {c}'",
    "x = f'total: {a}}}'",
    "x = f'\\n{a}\\t'",
    "x = rf'\\d{a}'",
    "x = f'{ {a}}'",
]


@pytest.mark.parametrize("text", SNIPPETS)
def test_code_is_what_python_reads(text, monkeypatch):
    from fandango.language.parse.spec import FandangoSpec

    monkeypatch.setattr(FandangoSpec, "run_code", lambda self, filename="<input_>": None)
    spec = parse_content(text + "\n", filename="<test>", use_cache=False)
    assert ast.dump(ast.parse(spec.code_text)) == ast.dump(ast.parse(text))


@pytest.mark.parametrize("text", ["x = f'{{}}'", "x = f'{{a}}'"])
def test_ambiguous_doubled_brace_is_rejected(text, monkeypatch):
    from fandango.errors import FandangoError
    from fandango.language.parse.spec import FandangoSpec

    monkeypatch.setattr(FandangoSpec, "run_code", lambda self, filename="<input_>": None)
    with pytest.raises(FandangoError):
        parse_content(text + "\n", filename="<test>", use_cache=False)


def test_conditional_operand_of_constraint_comparison():
    spec = parse_content(
        "<start> ::= <a>\n<a> ::= 'x'\nwhere (1 if len(str(<a>)) else 2) >= 1\n"
        "where 1 if len(str(<a>)) else 2 >= 1\n",
        filename="<test>",
        use_cache=False,
    )
    for constraint in spec.constraints:
        for side in (constraint._left, constraint._right):
            names = {n.id for n in ast.walk(ast.parse(side)) if isinstance(n, ast.Name)}
            assert all(n == "len" or n == "str" or n.startswith("___") for n in names)
