#!/usr/bin/env python3
"""C13 — the complete parses of an input depend on how it is cut into fragments (regex terminals).

usage:  PYTHONPATH=<repo>/src /venv/bin/python repro.py        exit 1 = defect present, 0 = absent

`IterativeParser.scan_regex` tries ONE length per scan: the one `re.match` prefers on the text that is
available.  When the whole input is there, that is the greedy match over the whole rest; when the input
arrives in pieces, every fragment boundary inside the match is one more scan (of the incomplete state) and so
one more length.  The set of complete parses therefore depends on where the cuts fall:

  <start> ::= <n> "3" ; <n> ::= r"[0-9]+"      "123"  at once: rejected      as "12","3": accepted
  <start> ::= <n> | <n> <n> ; <n> ::= r"[0-9]+" "1234" at once: 1 parse       as "1","2","3","4": 4 parses
"""
import itertools
import sys

from fandango.language.parse.parse import parse
from fandango.language.grammar.parser.iterative_parser import IterativeParser


def ser(t):
    if not t.children:
        return repr(t.symbol.value().to_string()) if t.symbol.is_terminal else str(t.symbol)
    return str(t.symbol) + "(" + ",".join(ser(c) for c in t.children) + ")"


def parses(grammar, pieces):
    p = IterativeParser(grammar.rules)
    p.new_parse()
    out = []
    for piece in pieces:
        out = sorted({ser(p.collapse(t)) for t, complete in p.consume(piece) if complete})
    return out


def compositions(word):
    for cuts in itertools.product([False, True], repeat=len(word) - 1):
        pieces, cur = [], word[0]
        for c, ch in zip(cuts, word[1:]):
            if c:
                pieces.append(cur)
                cur = ch
            else:
                cur += ch
        pieces.append(cur)
        yield pieces


bad = 0
for spec, word in [
    ('<start> ::= <n> "3"\n<n> ::= r"[0-9]+"\n', "123"),
    ('<start> ::= <n> | <n> <n>\n<n> ::= r"[0-9]+"\n', "1234"),
    ('<start> ::= <k> <v>\n<k> ::= r"[a-z]+"\n<v> ::= r"[a-z0-9]+"\n', "ab1"),
    ('<start> ::= <n> <k>\n<n> ::= rb"ab|a"\n<k> ::= rb"bc|c"\n', b"abc"),
]:
    grammar, _ = parse(spec, use_stdlib=False, use_cache=False)
    whole = parses(grammar, [word])
    outcomes = {}
    for pieces in compositions(word if isinstance(word, str) else [bytes([b]) for b in word]):
        outcomes.setdefault(tuple(parses(grammar, pieces)), pieces)
    print(spec.strip().replace("\n", " ; "), "on", repr(word))
    print(f"   at once: {len(whole)} complete parse(s); {len(outcomes)} different result(s) over all ways of cutting")
    for res, pieces in outcomes.items():
        if list(res) != whole:
            print(f"   e.g. as {pieces}: {len(res)} complete parse(s)")
            break
    if len(outcomes) > 1:
        bad += 1
print("DEFECT PRESENT" if bad else "no fragmentation dependence")
sys.exit(1 if bad else 0)
