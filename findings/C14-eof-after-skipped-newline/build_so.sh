#!/bin/bash
# Rebuild sa_fandango_cpp_parser.so OFFLINE from a tree's src/fandango/language/cpp_parser
# (vendored antlr4-cpp-runtime + Python.h of /venv's interpreter; plain g++, no cmake/pip/network).
#   usage: build_so.sh <repo-tree> <out.so> [jobs]
# e.g.   git -C /repo worktree add /var/tmp/x HEAD && git -C /var/tmp/x apply patch.diff
#        ./build_so.sh /var/tmp/x /var/tmp/x/src/fandango/language/parser/sa_fandango_cpp_parser.so
# 144 translation units, about 1-2 min with 6 jobs on an idle machine.
set -e
TREE=${1:?repo tree}; OUT=${2:?output .so}; JOBS=${3:-6}
SRC=$TREE/src/fandango/language/cpp_parser
INC=$(/venv/bin/python -c "import sysconfig;print(sysconfig.get_paths()['include'])")
OBJ=$(mktemp -d /var/tmp/c14-build-XXXX)
export SRC INC OBJ
compile() { f=$1; o=$OBJ/$(echo "$f" | md5sum | cut -c1-12).o; g++ -std=c++17 -O1 -fPIC -w -DVERSION_INFO=0 -I$SRC -I$SRC/antlr4-cpp-runtime -I$INC -c "$f" -o "$o"; }
export -f compile
find $SRC -name '*.cpp' | sort | xargs -P $JOBS -I{} bash -c 'compile {}'
g++ -shared -o "$OUT" $OBJ/*.o
rm -rf $OBJ
ls -la "$OUT"
