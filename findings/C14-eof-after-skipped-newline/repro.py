#!/usr/bin/env python3
"""C14: the C++ spec reader rejects a text the Python reader accepts.

    PYTHONPATH=/repo/src /venv/bin/python repro.py        (VERIF_REPO=<tree> selects another tree)

An indented block whose last line leaves a bracket "open" for the lexer (the lexer grammar has no
f-string mode: the `(` of f"(" is an OPEN_PAREN token and bumps `opened` in BOTH lexer bases), then
a final line break.  That NEWLINE is skipped silently (`opened > 0`), the raw lexer runs into the end
of the input, and
  * FandangoLexerBase.py  — lexes one token ahead (every nextToken() calls super().nextToken()), so the
    EOF is still queued when the end-of-input check at the top of nextToken() runs next time:
    ... '(' '"' NEWLINE DEDENT EOF
  * FandangoLexerBase.cpp — asks the raw lexer only when its deque is empty and returns the EOF at once;
    NEWLINE DEDENT would come AFTER it:   ... '(' '"' EOF     -> FandangoSyntaxError
exit 1 = the two readers disagree (defect present), 0 = they agree.
"""
import os
import sys

sys.path.insert(0, os.path.join(os.environ.get("VERIF_REPO", "/repo"), "src"))
os.environ.pop("FANDANGO_RAISE_ALL_EXCEPTIONS", None)
import logging  # noqa: E402

import fandango  # noqa: E402
from fandango.language.parse.parse_spec import parse_content  # noqa: E402

logging.disable(logging.CRITICAL)

TEXTS = [
    'def f():\n    return f"("\n',
    'def f():\n    return f"["\n',
    '<start> ::= "a"\ndef f():\n    x = f"{{"\n',
    'def f():\n    return f"(" ")"\n',
    'if 1:\n    x = f"("\n    ',
]
CONTROL = [          # same lines, but nothing is open at the end / no final line break: both agree
    'def f():\n    return f"("',
    'x = f"("\n',
    'def f():\n    return f"()"\n',
]


def read(text: str, parser: str) -> str:
    old = fandango.Fandango.parser
    fandango.Fandango.parser = parser
    try:
        spec = parse_content(text, filename="<repro>", use_cache=False, used_symbols=set())
        return "ok " + str(sorted(k.name() for k in spec.grammar.rules)) + " code=" + repr(spec.code_text)
    except Exception as e:  # noqa
        return "rejects: " + type(e).__name__
    finally:
        fandango.Fandango.parser = old


bad = 0
for t in TEXTS + CONTROL:
    a, b = read(t, "python"), read(t, "cpp")
    same = a == b
    bad += (not same)
    print(("agree   " if same else "DISAGREE"), repr(t), "\n    python:", a, "\n    cpp   :", b)
print("fandango from", fandango.__file__)
sys.exit(1 if bad else 0)
