"""C15: a regex terminal holding a line break / form feed does not survive repr(grammar) -> parse.

Run:  PYTHONPATH=/repo/src /venv/bin/python repro.py      (exit 1 = defect present, 0 = fixed)
"""
import sys
import warnings

warnings.simplefilter("ignore")
from fandango.language.parse.parse import parse  # noqa: E402

bad = []


def roundtrip(src: str, words: list) -> None:
    g1, _ = parse(src, use_cache=False, use_stdlib=False)
    printed = repr(g1) + "\n"
    try:
        g2, _ = parse(printed, use_cache=False, use_stdlib=False)
    except Exception as e:  # noqa
        bad.append(f"{src!r}: printed form {printed!r} is rejected: {type(e).__name__}: {str(e)[:90]}")
        return
    for w in words:
        v1, v2 = g1.parse(w) is not None, g2.parse(w) is not None
        if v1 != v2:
            bad.append(f"{src!r}: printed {printed!r}; {w!r} accepted={v1} before, {v2} after")


# (a) verbose pattern: the line break is insignificant whitespace / ends a comment; as \x0a it is matched
roundtrip("<start> ::= r'''(?x)a\n b'''\n", ["ab", "a\nb"])
roundtrip("<start> ::= r'''(?x)a  # first\n b'''\n", ["ab", "a"])
# (b) bytes: tab / vertical tab / form feed are spelled \x09 \x0b \x0c, too
roundtrip("<start> ::= rb'''(?x)a\tb'''\n", [b"ab", b"a\tb"])
# (c) str: an unescaped form feed is printed into a one-line literal, which the lexer does not accept
roundtrip("<start> ::= r'''a\x0cb'''\n", ["a\x0cb"])

for b in bad:
    print("FAILS:", b)
print("defect present" if bad else "no defect")
sys.exit(1 if bad else 0)
