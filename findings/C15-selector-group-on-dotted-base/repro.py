"""C15: a `{...}` / `[...]` selector group on a parenthesised dotted base is printed without the parentheses.

Run:  PYTHONPATH=/repo/src /venv/bin/python repro.py      (exit 1 = defect present, 0 = fixed)
"""
import sys
import warnings

warnings.simplefilter("ignore")
from fandango.language.parse.parse import parse  # noqa: E402

G = "<start> ::= <a> <a>\n<a> ::= <c>\n<c> ::= <x> <y>\n<x> ::= 'p' | 'q'\n<y> ::= 'r' | 's'\n"
bad = []

# (1) the order of what is found changes, and with it a verdict
src = "list(map(str, *(<start>.<a>.<c>){*<x>, *<y>}))[1] == 'q'"
g1, cs1 = parse(G + "where " + src + "\n", use_cache=False, use_stdlib=False, check=False)
printed = cs1[0].format_as_spec()
g2, cs2 = parse(G + "where " + printed + "\n", use_cache=False, use_stdlib=False, check=False)
v1, v2 = cs1[0].check(g1.parse("prqs")), cs2[0].check(g2.parse("prqs"))
print(f"where {src}\n  prints as: {printed}\n  on 'prqs': original {v1}, re-read {v2}")
if v1 != v2:
    bad.append("verdict changed")

# (2) a group on a group is printed as a selector followed by a Python subscript
src = "str((<start>[0])[0]) == 'pr'"
g1, cs1 = parse(G + "where " + src + "\n", use_cache=False, use_stdlib=False, check=False)
printed = cs1[0].format_as_spec()
g2, cs2 = parse(G + "where " + printed + "\n", use_cache=False, use_stdlib=False, check=False)
k1 = sorted(type(getattr(s, "_inner", s)).__name__ + ":" + s.format_as_spec() for s in cs1[0].searches.values())
k2 = sorted(type(getattr(s, "_inner", s)).__name__ + ":" + s.format_as_spec() for s in cs2[0].searches.values())
print(f"where {src}\n  prints as: {printed}\n  searches: original {k1}, re-read {k2}")
if k1 != k2:
    bad.append("search structure changed")

print("defect present:" if bad else "no defect", ", ".join(bad))
sys.exit(1 if bad else 0)
