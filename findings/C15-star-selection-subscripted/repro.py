"""C15: a parenthesised star selection that is subscripted loses its parentheses when the constraint is printed.

Run:  PYTHONPATH=/repo/src /venv/bin/python repro.py      (exit 1 = defect present, 0 = fixed)
"""
import sys
import warnings

warnings.simplefilter("ignore")
from fandango.language.parse.parse import parse  # noqa: E402

G = "<start> ::= <a> <a>\n<a> ::= <c>\n<c> ::= <x> <y>\n<x> ::= 'p' | 'q'\n<y> ::= 'r' | 's'\n"
bad = []
for src in ["str((*<a>)[0]) == 'pr'", "len((*<a>)[0:1]) == 1", "str((*<start>.<a>)[1]) == 'qs'"]:
    g1, cs1 = parse(G + "where " + src + "\n", use_cache=False, use_stdlib=False, check=False)
    printed = cs1[0].format_as_spec()
    g2, cs2 = parse(G + "where " + printed + "\n", use_cache=False, use_stdlib=False, check=False)

    def verdict(c, g):
        try:
            return c.check(g.parse("prqs"))
        except Exception as e:  # noqa
            return "raises " + type(e).__name__
    v1, v2 = verdict(cs1[0], g1), verdict(cs2[0], g2)
    print(f"where {src}\n  prints as: {printed}\n  on 'prqs': original {v1}, re-read {v2}")
    if v1 != v2:
        bad.append(src)
print("defect present" if bad else "no defect")
sys.exit(1 if bad else 0)
