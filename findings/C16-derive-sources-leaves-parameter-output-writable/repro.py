"""C16: `Grammar.derive_sources` (reached from `populate_sources` on a copy installed by `replace_multiple`, i.e. by
crossover / mutation / repair of a generator-defined node) re-creates the generator's *parameter* trees with
`Grammar.generate`, but — unlike `NonTerminalNode.fuzz` — does not mark the output of the parameter's own generator
read-only.  A later search step can then edit that output in place; the dependent generator is re-run on a value
its parameter's generator never returned.

    <m>    ::= r"[A-Za-z]+" := str(<body>).upper()
    <body> ::= <l>+         := "abc"            # the parameter is itself generator-defined (a constant here)

Run:  PYTHONPATH=/repo/src python repro.py     (exit 1 = defect present)
"""
import random
import sys

from fandango.language.parse.parse import parse
from fandango.language.symbols import NonTerminal

SPEC = '''<start> ::= <m> "." <x>
<m> ::= r"[A-Za-z]+" := str(<body>).upper()
<body> ::= <l>+ := "abc"
<l> ::= r"[a-z]"
<x> ::= r"[0-9]"
'''


def main() -> int:
    grammar, _ = parse(SPEC, use_stdlib=False, use_cache=False)
    random.seed(0)
    t = grammar.fuzz("<start>", 20)
    other = grammar.fuzz("<start>", 20)
    m, m2 = t.children[0], other.children[0]
    src = m.sources[0]
    print("fresh tree:", str(t), "| recorded <body> =", str(src), "| its output read-only:",
          all(c.read_only for c in src.children))
    # a repair aimed at the parameter's generated text is refused on the fresh tree
    l0 = src.children[0]
    t_ref = t.replace(grammar, l0, grammar.parse("x", "<l>"))
    print("  edit of <l> inside the recorded <body> on the fresh tree ->", str(t_ref))

    # crossover: <m> is replaced by the <m> of another individual (replace_multiple -> populate_sources ->
    # derive_sources re-creates <body> with its generator)
    t2 = t.replace(grammar, m, m2)
    src2 = t2.children[0].sources[0]
    print("after crossover:", str(t2), "| recorded <body> =", str(src2), "| its output read-only:",
          all(c.read_only for c in src2.children))
    # the same repair now goes through: the generator output "abc" of <body> is edited behind the generator
    l1 = src2.children[0]
    t3 = t2.replace(grammar, l1, grammar.parse("x", "<l>"))
    src3 = t3.children[0].sources[0]
    print("  edit of <l> inside the recorded <body> ->", str(t3), "| recorded <body> =", str(src3))
    bad = str(t_ref) == str(t) and str(src3) != "abc"
    if bad:
        print(f"DEFECT: <body> is defined by the generator \"abc\" but the tree records <body> = {str(src3)!r}, and "
              f"<m> = {str(t3.children[0])!r} was computed from it")
    return 1 if bad else 0


if __name__ == "__main__":
    sys.exit(main())
