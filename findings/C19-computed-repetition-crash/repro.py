"""C19 / predict() crashes for a repetition whose count is computed from an earlier message.

run: PYTHONPATH=<repo>/src /venv/bin/python repro.py     (exit 1 = defect present, 0 = repaired)
"""
import copy, os, sys, warnings
warnings.simplefilter("ignore")
os.environ.pop("FANDANGO_RAISE_ALL_EXCEPTIONS", None)
from fandango.logger import LOGGER
LOGGER.setLevel(100)
from fandango.language.parse.parse import parse
from fandango.io.navigation.packetforecaster import PacketForecaster
from fandango.language.symbols import NonTerminal, Terminal
from fandango.language.tree import DerivationTree

PARTY = """class %s(FandangoParty):
    def __init__(self):
        super().__init__(connection_mode=ConnectionMode.OPEN)
    def send(self, message, recipient):
        pass
    def start(self):
        pass
    def stop(self):
        pass
"""


def load(body, names):
    g, _ = parse(body + "\n\n" + "\n".join(PARTY % n for n in names), use_cache=False, use_stdlib=False)
    return g


def options(res):
    return sorted((pk.node.sender, pk.node.recipient, nt.name())
                  for fnt in res.parties_to_packets.values() for nt, pk in fnt.nt_to_packet.items())


def walk(g, history, contents):
    """drive the forecaster the way _generate_io does for received messages: predict, mount the message at a
    forecast mounting path (tree.append), predict again; returns [(history so far, options, complete)]"""
    fc = PacketForecaster(g)
    t = DerivationTree(NonTerminal("<start>"))
    out = []
    for m in list(history) + [None]:
        res = fc.predict(t)
        out.append(([(x.sender, x.recipient, x.msg.symbol.name()) for x in t.protocol_msgs()], options(res),
                    len(res.complete_trees) != 0))
        if m is None:
            break
        pk = res.parties_to_packets[m[0]].nt_to_packet[NonTerminal(m[2])]
        mp = next(iter(pk.paths))
        t = copy.deepcopy(mp.tree)
        t.append(mp.path[1:-1], DerivationTree(NonTerminal(m[2]), [DerivationTree(Terminal(contents[m[2]]))],
                                               sender=m[0], recipient=m[1]))
    return out

g = load("<start> ::= <A:B:n> <B:A:item>{int(<n>)} <A:B:c>\n<n> ::= '2'\n<item> ::= 'i'\n<c> ::= 'c'", ["A", "B"])
c = {"<n>": "2", "<item>": "i", "<c>": "c"}
hist = [("A", "B", "<n>"), ("B", "A", "<item>"), ("B", "A", "<item>"), ("A", "B", "<c>")]
want = [[("A", "B", "<n>")], [("B", "A", "<item>")], [("B", "A", "<item>")], [("A", "B", "<c>")], []]
try:
    steps = walk(g, hist, c)
except Exception as e:  # noqa
    import traceback
    traceback.print_exc(limit=3)
    print("DEFECT: predict raised", type(e).__name__)
    sys.exit(1)
ok = True
for s, w in zip(steps, want):
    print("after", s[0], "offers", s[1], "complete", s[2])
    ok = ok and s[1] == w
ok = ok and steps[-1][2] and not any(s[2] for s in steps[:-1])
print("ok" if ok else "DEFECT: wrong forecast")
sys.exit(0 if ok else 1)
