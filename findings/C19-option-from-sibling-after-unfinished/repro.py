"""C19: PacketForecaster.predict offers a message that cannot follow the history.

    <start> ::= (<A:B:m0>* (<s> <B:A:m1>))*
    <s>     ::= <B:A:m1> | <B:A:m0>                     history: [A->B m0, B->A m1]

The history is `m0* = [m0]`, `<s> = m1`; the iteration is open behind `<s>`: only <B:A:m1> can follow.
predict() also offers <A:B:m0> and <B:A:m0> (the start of a NEXT iteration).  Cause: predict() re-parses the history
as a word of message TYPES (`m0 m1`).  At type level there is a second parse - `m0* = []`, `<s> = m0` (the B->A one),
`m1` - which completes the iteration, so the parser predicts a next iteration in the last column.  That parse is
dropped by predict()'s party filter (its m0 travels B->A, the recorded one A->B), but the end-of-input pass of the
prefix parse (ParsingMode.INCOMPLETE) has already used its states: the state that was advanced over the UNFINISHED
group `(<s> .)` of the genuine parse is advanced a second time by the (empty) next iteration.  The yielded tree -
unfinished group followed by a sibling - passes the party filter, and the visitor walks its last child only.

Run:  PYTHONPATH=/repo/src python repro.py        exit 1 = the defect is there, 0 = it is gone
"""
import sys
import warnings

warnings.simplefilter("ignore")
from fandango.language.parse.parse import parse
from fandango.language.symbols import NonTerminal, Terminal
from fandango.language.tree import DerivationTree
from fandango.io.navigation.packetforecaster import PacketForecaster

SPEC = """
<start> ::= (<A:B:m0>* (<s> <B:A:m1>))*
<s> ::= <B:A:m1> | <B:A:m0>
<m0> ::= 'm0;'
<m1> ::= 'm1;'

class A(FandangoParty):
    def __init__(self):
        super().__init__(connection_mode=ConnectionMode.OPEN)
    def send(self, message, recipient):
        pass
    def start(self):
        pass
    def stop(self):
        pass

class B(FandangoParty):
    def __init__(self):
        super().__init__(connection_mode=ConnectionMode.EXTERNAL)
    def send(self, message, recipient):
        pass
    def start(self):
        pass
    def stop(self):
        pass
"""


def options(res):
    return sorted((pk.node.sender, pk.node.recipient, nt.name())
                  for fnt in res.parties_to_packets.values() for nt, pk in fnt.nt_to_packet.items())


def show(t):
    return str(t.symbol) + ("(" + ", ".join(show(c) for c in t.children) + ")" if t.children else "")


def mount(mp, sender, recipient, typ):
    t = copy.deepcopy(mp.tree)
    t.append(mp.path[1:-1], DerivationTree(NonTerminal(typ), [DerivationTree(Terminal(typ[1:-1] + ";"))],
                                           sender=sender, recipient=recipient))
    return t


import copy
from fandango.language.grammar import ParsingMode

grammar, _ = parse(SPEC, use_cache=False, use_stdlib=False)
fc = PacketForecaster(grammar)
tree = DerivationTree(NonTerminal("<start>"))
res = fc.predict(tree)
print("after []            :", options(res))
tree = mount(next(iter(res["A"][NonTerminal("<m0>")].paths)), "A", "B", "<m0>")
res = fc.predict(tree)
print("after [A>B m0]      :", options(res))
tree = mount(next(iter(res["B"][NonTerminal("<m1>")].paths)), "B", "A", "<m1>")
res = fc.predict(tree)
got = options(res)
print("after [A>B m0, B>A m1]:", got)
print("can follow            : [('B', 'A', '<m1>')]")
fc._parser.detailed_tree = tree
fc._parser.reference_tree = tree
fc._parser.new_parse(NonTerminal("<start>"), ParsingMode.INCOMPLETE)
for st, _c in fc._parser.consume("<m0><m1>"):
    print("   partial tree:", show(st))
sys.exit(0 if got == [("B", "A", "<m1>")] else 1)
