"""C19 / visitRepetitionType leaves a repetition whose last iteration is unfinished.

run: PYTHONPATH=<repo>/src /venv/bin/python repro.py     (exit 1 = defect present, 0 = repaired)
"""
import copy, os, sys, warnings
warnings.simplefilter("ignore")
os.environ.pop("FANDANGO_RAISE_ALL_EXCEPTIONS", None)
from fandango.logger import LOGGER
LOGGER.setLevel(100)
from fandango.language.parse.parse import parse
from fandango.io.navigation.packetforecaster import PacketForecaster
from fandango.language.symbols import NonTerminal, Terminal
from fandango.language.tree import DerivationTree

PARTY = """class %s(FandangoParty):
    def __init__(self):
        super().__init__(connection_mode=ConnectionMode.OPEN)
    def send(self, message, recipient):
        pass
    def start(self):
        pass
    def stop(self):
        pass
"""


def load(body, names):
    g, _ = parse(body + "\n\n" + "\n".join(PARTY % n for n in names), use_cache=False, use_stdlib=False)
    return g


def options(res):
    return sorted((pk.node.sender, pk.node.recipient, nt.name())
                  for fnt in res.parties_to_packets.values() for nt, pk in fnt.nt_to_packet.items())


def walk(g, history, contents):
    """drive the forecaster the way _generate_io does for received messages: predict, mount the message at a
    forecast mounting path (tree.append), predict again; returns [(history so far, options, complete)]"""
    fc = PacketForecaster(g)
    t = DerivationTree(NonTerminal("<start>"))
    out = []
    for m in list(history) + [None]:
        res = fc.predict(t)
        out.append(([(x.sender, x.recipient, x.msg.symbol.name()) for x in t.protocol_msgs()], options(res),
                    len(res.complete_trees) != 0))
        if m is None:
            break
        pk = res.parties_to_packets[m[0]].nt_to_packet[NonTerminal(m[2])]
        mp = next(iter(pk.paths))
        t = copy.deepcopy(mp.tree)
        t.append(mp.path[1:-1], DerivationTree(NonTerminal(m[2]), [DerivationTree(Terminal(contents[m[2]]))],
                                               sender=m[0], recipient=m[1]))
    return out

g = load("<start> ::= (<A:B:m0> <B:A:m1>)* <A:B:m2>\n<m0> ::= 'm0;'\n<m1> ::= 'm1;'\n<m2> ::= 'm2;'", ["A", "B"])
c = {"<m0>": "m0;", "<m1>": "m1;", "<m2>": "m2;"}
steps = walk(g, [("A", "B", "<m0>")], c)
for s in steps:
    print("after", s[0], "offers", s[1], "complete", s[2])
after_m0 = steps[-1][1]
bad = ("A", "B", "<m2>") in after_m0          # m0 m2 is not a prefix of any interaction
if bad:
    dead = walk(g, [("A", "B", "<m0>"), ("A", "B", "<m2>")], c)[-1]
    print("following the offer: after", dead[0], "offers", dead[1], "complete", dead[2],
          " -> _generate_io raises 'Could not forecast next packet'")
print("DEFECT: <m2> offered inside an unfinished iteration" if bad else "ok: only <m1> can follow <m0>")
sys.exit(1 if bad else 0)
