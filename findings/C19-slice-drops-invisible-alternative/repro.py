"""C19 / slice_parties deletes an alternative that consists of invisible messages instead of making it empty.

run: PYTHONPATH=<repo>/src /venv/bin/python repro.py     (exit 1 = defect present, 0 = repaired)
"""
import copy, os, sys, warnings
warnings.simplefilter("ignore")
os.environ.pop("FANDANGO_RAISE_ALL_EXCEPTIONS", None)
from fandango.logger import LOGGER
LOGGER.setLevel(100)
from fandango.language.parse.parse import parse
from fandango.io.navigation.packetforecaster import PacketForecaster
from fandango.language.symbols import NonTerminal, Terminal
from fandango.language.tree import DerivationTree

PARTY = """class %s(FandangoParty):
    def __init__(self):
        super().__init__(connection_mode=ConnectionMode.OPEN)
    def send(self, message, recipient):
        pass
    def start(self):
        pass
    def stop(self):
        pass
"""


def load(body, names):
    g, _ = parse(body + "\n\n" + "\n".join(PARTY % n for n in names), use_cache=False, use_stdlib=False)
    return g


def options(res):
    return sorted((pk.node.sender, pk.node.recipient, nt.name())
                  for fnt in res.parties_to_packets.values() for nt, pk in fnt.nt_to_packet.items())


def walk(g, history, contents):
    """drive the forecaster the way _generate_io does for received messages: predict, mount the message at a
    forecast mounting path (tree.append), predict again; returns [(history so far, options, complete)]"""
    fc = PacketForecaster(g)
    t = DerivationTree(NonTerminal("<start>"))
    out = []
    for m in list(history) + [None]:
        res = fc.predict(t)
        out.append(([(x.sender, x.recipient, x.msg.symbol.name()) for x in t.protocol_msgs()], options(res),
                    len(res.complete_trees) != 0))
        if m is None:
            break
        pk = res.parties_to_packets[m[0]].nt_to_packet[NonTerminal(m[2])]
        mp = next(iter(pk.paths))
        t = copy.deepcopy(mp.tree)
        t.append(mp.path[1:-1], DerivationTree(NonTerminal(m[2]), [DerivationTree(Terminal(contents[m[2]]))],
                                               sender=m[0], recipient=m[1]))
    return out


from fandango.language.parse.slice_parties import slice_parties

# the interaction m0 m1 is allowed; A sees only m0 of it, so for A the interaction may be over after m0
spec = "<start> ::= <A:B:m0> (<B:C:m1> | <A:B:m2>)\n<m0> ::= 'm0;'\n<m1> ::= 'm1;'\n<m2> ::= 'm2;'"
g = load(spec, ["A", "B", "C"])
slice_parties(g, {"A"}, ignore_receivers=False)
print("sliced to {A}:", g.rules[NonTerminal("<start>")].format_as_spec())
steps = walk(g, [("A", "B", "<m0>")], {"<m0>": "m0;"})
for s in steps:
    print("after", s[0], "offers", s[1], "complete", s[2])
bad = not steps[-1][2] or steps[-1][1] != [("A", "B", "<m2>")]
print("DEFECT: the visible part [m0] of the interaction m0 m1 is not an interaction of the sliced spec" if bad else "ok")
sys.exit(1 if bad else 0)
