"""C19 / slice_parties removes the first EQUAL child instead of the invisible one.

run: PYTHONPATH=<repo>/src /venv/bin/python repro.py     (exit 1 = defect present, 0 = repaired)
"""
import copy, os, sys, warnings
warnings.simplefilter("ignore")
os.environ.pop("FANDANGO_RAISE_ALL_EXCEPTIONS", None)
from fandango.logger import LOGGER
LOGGER.setLevel(100)
from fandango.language.parse.parse import parse
from fandango.io.navigation.packetforecaster import PacketForecaster
from fandango.language.symbols import NonTerminal, Terminal
from fandango.language.tree import DerivationTree

PARTY = """class %s(FandangoParty):
    def __init__(self):
        super().__init__(connection_mode=ConnectionMode.OPEN)
    def send(self, message, recipient):
        pass
    def start(self):
        pass
    def stop(self):
        pass
"""


def load(body, names):
    g, _ = parse(body + "\n\n" + "\n".join(PARTY % n for n in names), use_cache=False, use_stdlib=False)
    return g


def options(res):
    return sorted((pk.node.sender, pk.node.recipient, nt.name())
                  for fnt in res.parties_to_packets.values() for nt, pk in fnt.nt_to_packet.items())


def walk(g, history, contents):
    """drive the forecaster the way _generate_io does for received messages: predict, mount the message at a
    forecast mounting path (tree.append), predict again; returns [(history so far, options, complete)]"""
    fc = PacketForecaster(g)
    t = DerivationTree(NonTerminal("<start>"))
    out = []
    for m in list(history) + [None]:
        res = fc.predict(t)
        out.append(([(x.sender, x.recipient, x.msg.symbol.name()) for x in t.protocol_msgs()], options(res),
                    len(res.complete_trees) != 0))
        if m is None:
            break
        pk = res.parties_to_packets[m[0]].nt_to_packet[NonTerminal(m[2])]
        mp = next(iter(pk.paths))
        t = copy.deepcopy(mp.tree)
        t.append(mp.path[1:-1], DerivationTree(NonTerminal(m[2]), [DerivationTree(Terminal(contents[m[2]]))],
                                               sender=m[0], recipient=m[1]))
    return out

from fandango.language.parse.slice_parties import slice_parties
from fandango.language.grammar.node_visitors.symbol_finder import SymbolFinder


def atoms(g):
    sf = SymbolFinder()
    sf.visit(g.rules[NonTerminal("<start>")])
    return [(n.sender, n.recipient, n.symbol.name()) for n in sf.nonTerminalNodes if n.sender is not None]


bad = False
for body, want in [
    # C -> A is visible to A, B -> C is not
    ("<start> ::= (<C:A:m1> | <B:C:m1> | <A:B:m2>)", [("C", "A", "<m1>"), ("A", "B", "<m2>")]),
    ("<start> ::= <A:B:m1> <B:C:m1> <A:B:m2>", [("A", "B", "<m1>"), ("A", "B", "<m2>")]),
]:
    g = load(body + "\n<m1> ::= 'm1;'\n<m2> ::= 'm2;'", ["A", "B", "C"])
    slice_parties(g, {"A"}, ignore_receivers=False)
    got = atoms(g)
    print(body, " sliced to {A}:", got, "(expected %s)" % want)
    bad = bad or got != want
print("DEFECT: a visible message was removed and the invisible one kept" if bad else "ok")
sys.exit(1 if bad else 0)
