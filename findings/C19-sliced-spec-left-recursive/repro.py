"""C19: forecasting on a sliced spec raises RecursionError.

Run:  PYTHONPATH=/repo/src python repro.py          (exit 1 = defect present, 0 = repaired)

The spec is right-recursive (the FTP/SMTP style): the loop `<Ex:Th:m0> <s1>` is exchanged between Ex and Th only.
`truncate_invisible_packets` (fandango talk) slices the spec to the parties the fuzzer controls - here Fz - with
`slice_parties`; the loop's messages are invisible to Fz, so `<s1> ::= <Ex:Th:m0> <s1> | <Fz:Ex:m1>` becomes the
unit cycle `<s1> ::= <s1> | <Fz:Ex:m1>`.  The language of the sliced spec is right (m2 m1 m3), but
ContinuingNodeVisitor explores `<s1>` inside `<s1>` forever: PacketForecaster.predict raises RecursionError after
the first message.
"""
import os
import sys

os.environ.pop("FANDANGO_RAISE_ALL_EXCEPTIONS", None)
import fandango
from fandango.language.parse.parse import parse
from fandango.language.parse.slice_parties import slice_parties
from fandango.io.navigation.packetforecaster import PacketForecaster
from fandango.language.symbols import NonTerminal, Terminal
from fandango.language.tree import DerivationTree

fandango.logger.LOGGER.setLevel(100)

PARTY = """
class {p}(FandangoParty):
    def __init__(self):
        super().__init__(connection_mode=ConnectionMode.OPEN)
    def send(self, message, recipient):
        pass
    def start(self):
        pass
    def stop(self):
        pass
"""
SPEC = """
<start> ::= <Fz:Ex:m2> <s1> <Fz:Ex:m3>
<s1> ::= <Ex:Th:m0> <s1> | <Fz:Ex:m1>
<m0> ::= 'm0;'
<m1> ::= 'm1;'
<m2> ::= 'm2;'
<m3> ::= 'm3;'
""" + "".join(PARTY.format(p=p) for p in ("Fz", "Ex", "Th"))

grammar, _ = parse(SPEC, use_stdlib=False, use_cache=False)
slice_parties(grammar, {"Fz"}, ignore_receivers=False)
print("sliced:", "; ".join(f"{k.name()} ::= {v.format_as_spec()}" for k, v in grammar.rules.items()
                           if k.name() in ("<start>", "<s1>")))

fc = PacketForecaster(grammar)
tree = DerivationTree(NonTerminal("<start>"))
want = [{"<m2>"}, {"<m1>"}, {"<m3>"}, set()]
content = {"<m1>": "m1;", "<m2>": "m2;", "<m3>": "m3;"}
sys.setrecursionlimit(2000)
for step in range(4):
    try:
        res = fc.predict(tree)
    except RecursionError:
        print(f"DEFECT: predict raised RecursionError after {[m.msg.symbol.name() for m in tree.protocol_msgs()]}")
        sys.exit(1)
    offered = {nt.name(): pk for fnt in res.parties_to_packets.values() for nt, pk in fnt.nt_to_packet.items()}
    print([m.msg.symbol.name() for m in tree.protocol_msgs()], "->", sorted(offered), "complete:", bool(res.complete_trees))
    if set(offered) != want[step]:
        print(f"DEFECT: offered {sorted(offered)}, the continuations are {sorted(want[step])}")
        sys.exit(1)
    if not offered:
        break
    name, pk = next(iter(offered.items()))
    mp = next(iter(pk.paths))
    import copy
    tree = copy.deepcopy(mp.tree)
    tree.append(mp.path[1:-1], DerivationTree(NonTerminal(name), [DerivationTree(Terminal(content[name]))],
                                              sender=pk.node.sender, recipient=pk.node.recipient))
if not res.complete_trees:
    print("DEFECT: m2 m1 m3 not reported complete")
    sys.exit(1)
print("ok: the sliced spec is forecast as m2 m1 m3")
