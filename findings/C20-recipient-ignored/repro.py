"""C20 (proposed finding F60) — remote data is searched and cleared by SENDER only.

One external party `Ex`, two fuzzer-controlled parties `Fz` and `Fy` (two connections).  The spec expects
<Ex:Fz:a> and then <Ex:Fy:b>.  Ex's data for Fy arrives first (different sockets, no ordering between them).
parse_next_remote_packet takes every buffered fragment whose *sender* is Ex — whatever party it was delivered
to — so the byte that reached Fy is recorded as the message `Ex -> Fz : <a>`, and the byte that reached Fz as
`Ex -> Fy : <b>`.  The run "succeeds" with an interaction that did not happen.

usage:  PYTHONPATH=<repo>/src python repro.py        exit 1 = defect present, 0 = fixed
"""
import sys
import types

import fandango.evolution.algorithm as ALG
import fandango.io.packetparser as PP
from fandango.api import Fandango
from fandango.language.grammar import FuzzingMode

STATE = {"io": None, "now": 0.0, "pending": []}


def on_send(party, message, recipient):
    if str(message) == "q":
        # Ex answers on both connections; the reply on Fy's connection is delivered first
        STATE["pending"] += [("Ex", "Fy", "y"), ("Ex", "Fz", "x")]


class FakeTime:  # virtual clock: a sleep delivers the next pending datum
    def time(self):
        return STATE["now"]

    def sleep(self, dt):
        STATE["now"] += dt
        if STATE["pending"]:
            s, r, d = STATE["pending"].pop(0)
            STATE["io"].parties[r].receive(d, s)
        else:
            STATE["now"] += 100


PP.time = ALG.time = FakeTime()
sys.modules["reproworld"] = types.SimpleNamespace(on_send=on_send, state=STATE)

SPEC = """
<start> ::= <Fz:Ex:q> <Ex:Fz:a> <Ex:Fy:b>
<q> ::= 'q'
<a> ::= 'x' | 'y'
<b> ::= 'x' | 'y'
import reproworld
class Fz(FandangoParty):
    def __init__(self):
        super().__init__(connection_mode=ConnectionMode.OPEN)
        reproworld.state["io"] = self.io_instance
    def send(self, message, recipient):
        reproworld.on_send("Fz", message, recipient)
    def start(self): pass
    def stop(self): pass
class Fy(FandangoParty):
    def __init__(self):
        super().__init__(connection_mode=ConnectionMode.OPEN)
    def send(self, message, recipient): pass
    def start(self): pass
    def stop(self): pass
class Ex(FandangoParty):
    def __init__(self):
        super().__init__(connection_mode=ConnectionMode.EXTERNAL)
    def start(self): pass
    def stop(self): pass
"""

f = Fandango(SPEC, use_stdlib=False, use_cache=False)
f.init_population(population_size=1)
gen = f.generate_solutions(None, FuzzingMode.IO)
try:
    tree = next(gen)
except Exception as e:  # the fixed code may also reject the out-of-order arrival with an error: acceptable
    print("run ended with", type(e).__name__, e)
    sys.exit(0)
finally:
    gen.close()
msgs = [(m.sender, m.recipient, m.msg.symbol.name(), str(m.msg)) for m in tree.protocol_msgs()]
print("delivered : Ex->Fy 'y', then Ex->Fz 'x'")
print("recorded  :", msgs)
bad = [m for m in msgs if m[0] == "Ex" and ((m[1] == "Fz" and m[3] != "x") or (m[1] == "Fy" and m[3] != "y"))]
if bad:
    print("DEFECT: recorded with a recipient the data never reached:", bad)
    sys.exit(1)
print("ok")
