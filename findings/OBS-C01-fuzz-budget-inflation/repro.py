"""Repetition.fuzz hands an iteration MORE budget than the repetition has left.

    <start> ::= <a>
    <a>     ::= ("(" <a> ")")*

`reserved_max_nodes` starts at the repetition's own distance (`body * min + 1`) and the body's distance is
subtracted once per iteration; after `min` iterations it is negative, and `max_nodes - reserved_max_nodes`
is larger than `max_nodes`.  Two consequences:

(0) every day, badly: on a grammar that recurses through a star with some fan-out,
        <start> ::= <a> <d>? ;  <a> ::= r"[xyz][A-F0-9]" <b>? <a>* ; ...
    Grammar.fuzz("<start>", max_nodes=30) dies with RecursionError for 203 of 300 plain seeds (max_nodes=100: 286 of
    300) — the inflated budgets make the expansion supercritical (part C below);
(1) every day: trees overshoot `max_nodes` by a factor of ~3 (part A below, plain random seeds);
(2) in principle: the budget does not bound the recursion.  With the draws  randint -> 2, (1st iteration:
    inner randint -> 0), 2nd iteration: the same again, ...  the Star three levels further down is entered with
    the SAME budget 48 again and again, until RecursionError (part B, scripted draws; with K=5 iterations per
    level the budget even grows by 3 per level).  The start symbol is productive, max_nodes = 50.
    In the Lean model this is theorem C01_expand_no_budget_bound / C01_expand_terminates_false
    (/verif/lean/Props/C01.lean, witness Neg.exN / Neg.spine).

Run:  PYTHONPATH=<repo>/src python repro.py     (exit 1 = defect present, 0 = fixed)
"""
import collections
import random
import sys

from fandango.language.parse.parse import parse
import fandango.language.grammar.nodes.repetition as R

SPEC = '<start> ::= <a>\n<a> ::= ("(" <a> ")")*\n'
grammar, _ = parse(SPEC, use_cache=False, use_stdlib=False)
MAX_NODES = 50

# ---- A: plain seeds: how far above max_nodes do the trees end up?
sizes = []
for seed in range(200):
    random.seed(seed)
    sizes.append(grammar.fuzz("<start>", MAX_NODES).size())
sizes.sort()
over = sum(s > MAX_NODES for s in sizes)
print(f"A: max_nodes={MAX_NODES}: median size {sizes[len(sizes) // 2]}, max {sizes[-1]}, {over}/200 trees above the budget")

# ---- B: scripted draws: the budget of the Star along the spine never shrinks
K = 2
calls, budgets = [0], []
o_fuzz, o_randint = R.Repetition.fuzz, random.randint


def fuzz(self, parent, grammar, max_nodes=100, in_message=False, *a, **k):
    budgets.append(max_nodes)
    return o_fuzz(self, parent, grammar, max_nodes, in_message, *a, **k)


def randint(a, b):
    n = calls[0]
    calls[0] += 1
    return K if n % K == 0 else 0          # spine Star: K iterations; the Stars in its first K-1 iterations: 0


R.Repetition.fuzz, random.randint = fuzz, randint
sys.setrecursionlimit(3000)
try:
    t = grammar.fuzz("<start>", MAX_NODES)
    print(f"B: returned, size {t.size()}, deepest Star budget {max(budgets)}")
    diverged = False
except RecursionError:
    spine = budgets[0::K]
    print(f"B: RecursionError after {calls[0]} Star calls; budget of the Star along the spine: {spine[:8]} ... {spine[-1]}")
    diverged = True
finally:
    R.Repetition.fuzz, random.randint = o_fuzz, o_randint

# ---- C: plain seeds on a grammar with fan-out below the star: RecursionError instead of a tree
SPEC_C = ('<start> ::= <a> <d>?\n<a> ::= r"[xyz][A-F0-9]" <b>? <a>*\n<b> ::= "k:"? (<c>?)?\n'
          '<c> ::= r"[a-c][xyz]{2}"\n<d> ::= "e" r"[a-z]*[A-F0-9]"\n')
sys.setrecursionlimit(1000)
grammar_c, _ = parse(SPEC_C, use_cache=False, use_stdlib=False)
crashed = 0
for budget in (30, 100):
    res = collections.Counter()
    for seed in range(300):
        random.seed(seed)
        try:
            grammar_c.fuzz("<start>", budget)
            res["ok"] += 1
        except RecursionError:
            res["RecursionError"] += 1
    crashed += res["RecursionError"]
    print(f"C: max_nodes={budget}: {dict(res)} over 300 plain seeds")

sys.exit(1 if (diverged or over > 0 or crashed > 0) else 0)
