"""Grammar.prime() never returns when some grammar node cannot be completed.

prime() re-appends a node to its worklist while the nodes it depends on are still at distance inf.  A node that
can never be completed (an unproductive symbol) is re-appended for ever: the `while nodes:` loop spins, and
prime() is called while the spec is LOADED (parse -> Grammar.update(prime=True)).  This also happens when the
start symbol does not need the node:

    <start> ::= "a" <b>*          language {"a"}: <b> only occurs below a star
    <b>     ::= <b> "x"

    <start> ::= "a"               <b> is not used at all
    <b>     ::= <b> "x"

Lean: C01_prime_returns_iff_completable, C01_prime_hangs_on_unproductive_symbol (/verif/lean/Props/C01.lean).

Run:  PYTHONPATH=<repo>/src python repro.py     (exit 1 = hangs, 0 = fixed)
"""
import signal
import sys

from fandango.language.parse.parse import parse

SPECS = ['<start> ::= "a" <b>*\n<b> ::= <b> "x"\n',
         '<start> ::= "a" | <b>\n<b> ::= <b> "x"\n',
         '<start> ::= "a"\n<b> ::= <b> "x"\n']


class Hang(Exception):
    pass


def alarm(*_):
    raise Hang()


signal.signal(signal.SIGALRM, alarm)
bad = 0
for spec in SPECS:
    signal.alarm(5)
    try:
        grammar, _ = parse(spec, use_cache=False, use_stdlib=False)
        words = sorted({str(grammar.fuzz("<start>", n)) for n in (0, 5, 50) for _ in range(10)})
        print("loaded:", repr(spec), "->", words)
    except Hang:
        import traceback
        frames = traceback.extract_tb(sys.exc_info()[2])
        where = next((f for f in frames if f.name == "prime"), frames[-1])
        print("HANGS (5 s) in", where.name, "line", where.lineno, ":", repr(spec))
        bad += 1
    finally:
        signal.alarm(0)
sys.exit(1 if bad else 0)
