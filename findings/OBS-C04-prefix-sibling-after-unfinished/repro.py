"""Prefix (INCOMPLETE) parsing yields a tree that is not a prefix of any derivation.

Run:  PYTHONPATH=/repo/src /venv/bin/python repro.py      (exit 1 = defect present)

Grammar:   <start> ::= <b> <c> | "x" <c> "z"
           <b> ::= "x" "y"
           <c> ::= "" "q"
Input "x", mode=ParsingMode.INCOMPLETE.  One of the yielded trees is  <start>(<b>("x"), <c>(""))  — <b> is cut short
(its "y" is missing) and is nevertheless followed by <c>.  In every derivation through `<b> <c>`, <c> starts after "xy".
"""
import sys
from fandango.language.parse.parse import parse
from fandango.language.grammar import ParsingMode

SPEC = '<start> ::= <b> <c> | "x" <c> "z"\n<b> ::= "x" "y"\n<c> ::= "" "q"\n'
grammar, _ = parse(SPEC, use_stdlib=False, use_cache=False)


def shape(t):
    if not t.children:
        return repr(str(t.symbol.value())) if t.symbol.is_terminal else t.symbol.name()
    return t.symbol.name() + "(" + ", ".join(shape(c) for c in t.children) + ")"


trees = [shape(t) for t in grammar.parse_forest("x", mode=ParsingMode.INCOMPLETE)]
for s in trees:
    print(s)
bad = [s for s in trees if s.startswith("<start>(<b>(") and "<c>" in s]
print("spurious partial trees (an unfinished <b> followed by <c>):", bad)
sys.exit(1 if bad else 0)
