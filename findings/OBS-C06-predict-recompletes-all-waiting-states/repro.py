"""Not a violation of C06 as stated (the parse returns) — a work explosion of the loop that ends predict().

    PYTHONPATH=/repo/src python repro.py [max_adds]

Parses the EMPTY input with a 4-rule grammar whose forest has 25 trees and counts Column.add calls.
Unpatched (/repo at 58f3e8e8): 382,264,222 Column.add calls, 82,251 admitted states, 25 trees, ~89 minutes.
With patch.diff:                    137,203 Column.add calls, 82,251 admitted states, 25 trees.
The script stops after `max_adds` (default 3,000,000) calls and prints how far the parser got.
"""
import sys

SPEC = (
    '<start> ::= ((r"a+"*)? <b> ("")){2,2} | ("b"* (<c>+)? ((<a>?){0,2} | "ba" (<start>+)+))? '
    '| (<c> <c> | ("c" "ab")?)* | "a" "a"\n'
    '<a> ::= <start>{2,3} (r"b" | <b>) "c" | <a>* | "a"? r"[ab]"\n'
    '<b> ::= "ab"+ ("a" "ba")+ | ""?\n'
    '<c> ::= "ab" | "ba" "a"?\n'
)


class Stop(BaseException):
    pass


def main() -> int:
    limit = int(sys.argv[1]) if len(sys.argv) > 1 else 3_000_000
    from fandango.language.parse.parse import parse
    from fandango.language.grammar.parser.column import Column

    grammar, _ = parse(SPEC, use_cache=False, use_stdlib=False)
    meter = {"adds": 0, "admitted": 0}
    orig = Column.add

    def add(self, state):
        r = orig(self, state)
        meter["adds"] += 1
        meter["admitted"] += bool(r)
        if meter["adds"] >= limit:
            raise Stop()
        return r

    Column.add = add
    try:
        trees = list(grammar.parse_forest("", start="<start>"))
        print(f"returned {len(trees)} trees after {meter['adds']} Column.add calls, {meter['admitted']} admitted")
        return 0
    except Stop:
        print(f"still running after {meter['adds']} Column.add calls; {meter['admitted']} states admitted "
              f"({meter['adds'] // max(1, meter['admitted'])} calls per admitted state)")
        return 1


if __name__ == "__main__":
    sys.exit(main())
