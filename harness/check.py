#!/usr/bin/env python3
"""check.py <Cxx> [--tier quick|thorough] [--replay <file>]

exit 0: the property held on everything explored; exit 1: a `VIOLATION property=<id> replay=<path>`
line was printed; exit 2: the machinery itself failed (never counts as a verdict)."""
from __future__ import annotations

import argparse
import importlib
import os
import sys
from pathlib import Path

sys.path.insert(0, str(Path(__file__).resolve().parents[1]))

from harness.common import main_wrapper  # noqa: E402


def main() -> int:
    ap = argparse.ArgumentParser()
    ap.add_argument("prop")
    ap.add_argument("--tier", default=os.environ.get("VERIF_TIER", "quick"), choices=["quick", "thorough"])
    ap.add_argument("--replay")
    a = ap.parse_args()
    mod = importlib.import_module(f"harness.props.{a.prop.lower()}")
    if a.replay:
        return mod.replay(a.replay)
    return mod.main(a.tier)


if __name__ == "__main__":
    os.chdir(Path(__file__).resolve().parents[1])
    main_wrapper(main)
