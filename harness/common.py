"""Shared machinery for all property checks (see DESIGN.md §2.2, §8).

* the implementation under test is ALWAYS /repo/src (the working tree), never the copy in /venv
* Lean side: regenerate `Generated/*.lean` from /repo, `lake build` the property's modules, audit
  every property theorem with `#print axioms`, grep for escape hatches
* correspondence: line-protocol drivers (`lean/.lake/build/bin/drv_*`)
* reporting: VIOLATION / KNOWN-FINDING lines, replay files, evidence JSON, exit codes
  (0 = held, 1 = violation, 2 = machinery error / timeout; never a VIOLATION line with 2)
"""
from __future__ import annotations

import fcntl
import hashlib
import json
import os
import random
import re
import subprocess
import sys
import time
import traceback
from pathlib import Path
from typing import Any, Callable, Iterable, Optional

VERIF = Path(__file__).resolve().parents[1]
LEAN = VERIF / "lean"
REPO = Path(os.environ.get("VERIF_REPO", "/repo"))
REPO_SRC = REPO / "src"
EVIDENCE = VERIF / "evidence"
REPLAYS = VERIF / "replays"
KNOWN = VERIF / "known_findings.json"
ALLOWED_AXIOMS = {"propext", "Classical.choice", "Quot.sound"}
BANNED = [r"\bsorry\b", r"\badmit\b", r"\bnative_decide\b", r"\bbv_decide\b", r"implemented_by",
          r"\bunsafe\s", r"^\s*axiom\s", r"maxHeartbeats\s+0\b"]
GUARD = "FANDANGO_VERIF"


class MachineryError(Exception):
    """something in /verif itself is broken (exit 2, never a VIOLATION)"""


# --------------------------------------------------------------------------------------------
# implementation under test
# --------------------------------------------------------------------------------------------

def use_repo() -> None:
    """put /repo/src first on sys.path and make sure that is what `import fandango` resolves to"""
    os.environ.setdefault(GUARD, "1")
    os.environ.pop("FANDANGO_RAISE_ALL_EXCEPTIONS", None)  # exercise the production exception path
    p = str(REPO_SRC)
    if p in sys.path:
        sys.path.remove(p)
    sys.path.insert(0, p)
    import fandango  # noqa
    if not str(Path(fandango.__file__).resolve()).startswith(str(REPO_SRC.resolve())):
        raise MachineryError(f"fandango imported from {fandango.__file__}, not {REPO_SRC}")
    import logging
    from fandango.logger import LOGGER
    LOGGER.setLevel(logging.CRITICAL)


def child_env() -> dict:
    env = dict(os.environ)
    env["PYTHONPATH"] = str(REPO_SRC) + os.pathsep + str(VERIF)
    env.setdefault(GUARD, "1")
    env.pop("FANDANGO_RAISE_ALL_EXCEPTIONS", None)
    return env


def seed_of_env() -> int:
    try:
        return int(os.environ.get("VERIF_SEED", "0"))
    except ValueError:
        return 0


def rng_for(pid: str, seed: int, stream: str = "") -> random.Random:
    h = hashlib.sha256(f"{pid}|{seed}|{stream}".encode()).digest()
    return random.Random(int.from_bytes(h[:8], "big"))


# --------------------------------------------------------------------------------------------
# Lean: build, audit
# --------------------------------------------------------------------------------------------

class _Lock:
    def __enter__(self):
        (LEAN / ".lake").mkdir(exist_ok=True)
        self.f = open(LEAN / ".lake" / "verif.lock", "w")
        fcntl.flock(self.f, fcntl.LOCK_EX)
        return self

    def __exit__(self, *a):
        fcntl.flock(self.f, fcntl.LOCK_UN)
        self.f.close()


def _run(cmd: list[str], cwd: Path, timeout: int) -> tuple[int, str]:
    try:
        r = subprocess.run(cmd, cwd=cwd, stdout=subprocess.PIPE, stderr=subprocess.STDOUT, text=True,
                           timeout=timeout)
        return r.returncode, r.stdout
    except subprocess.TimeoutExpired as e:
        raise MachineryError(f"timeout after {timeout}s: {' '.join(cmd)}") from e


def strip_lean_comments(src: str) -> str:
    out, i, depth, n = [], 0, 0, len(src)
    while i < n:
        if src.startswith("/-", i):
            depth += 1
            i += 2
        elif depth and src.startswith("-/", i):
            depth -= 1
            i += 2
        elif depth:
            if src[i] == "\n":
                out.append("\n")
            i += 1
        elif src.startswith("--", i):
            while i < n and src[i] != "\n":
                i += 1
        else:
            out.append(src[i])
            i += 1
    return "".join(out)


def theorems_of(module: str) -> list[str]:
    """fully qualified names of every `theorem` declared in a Props module"""
    path = LEAN / (module.replace(".", "/") + ".lean")
    src = strip_lean_comments(path.read_text())
    ns: list[str] = []
    names = []
    for line in src.splitlines():
        m = re.match(r"\s*namespace\s+(\S+)", line)
        if m:
            ns.append(m.group(1))
            continue
        m = re.match(r"\s*end\s+(\S+)\s*$", line)
        if m and ns and ns[-1] == m.group(1):
            ns.pop()
            continue
        m = re.match(r"\s*(?:@\[[^\]]*\]\s*)?(?:private\s+|protected\s+)?theorem\s+([^\s:({\[]+)", line)
        if m:
            names.append(".".join(ns + [m.group(1)]))
    return names


def banned_hits(paths: Iterable[Path]) -> list[str]:
    hits = []
    for p in paths:
        src = strip_lean_comments(p.read_text())
        for ln, line in enumerate(src.splitlines(), 1):
            for pat in BANNED:
                if re.search(pat, line):
                    hits.append(f"{p.relative_to(LEAN)}:{ln}: {line.strip()[:100]}")
    return hits


def lean_sources() -> list[Path]:
    out = []
    for d in ("Model", "Proofs", "Props", "Generated", "Driver"):
        out += sorted((LEAN / d).rglob("*.lean"))
    return out


def imports_closure(module: str) -> list[Path]:
    """project-local files a module depends on (for the banned-token grep of one property)"""
    seen, todo, out = set(), [module], []
    while todo:
        m = todo.pop()
        if m in seen:
            continue
        seen.add(m)
        p = LEAN / (m.replace(".", "/") + ".lean")
        if not p.exists():
            continue
        out.append(p)
        for line in p.read_text().splitlines():
            mm = re.match(r"\s*import\s+(\S+)", line)
            if mm:
                todo.append(mm.group(1))
    return out


class LeanResult:
    def __init__(self):
        self.obligations: list[str] = []
        self.discharged: list[str] = []
        self.broken: list[dict] = []   # {theorem|module, reason}
        self.axioms: dict[str, list[str]] = {}
        self.build_log = ""
        self.checker_cmd = ""

    @property
    def ok(self) -> bool:
        return bool(self.obligations) and len(self.obligations) == len(self.discharged) and not self.broken


def lean_check(prop_module: str, extra_targets: list[str] = (), timeout: int = 1500,
               recheck: Optional[bool] = None) -> LeanResult:
    """build the property module (and drivers), audit its theorems.
    recheck (default: on in the thorough tier): also run `leanchecker`, the toolchain's independent
    re-checker of the compiled .olean, on the property module."""
    res = LeanResult()
    if recheck is None:
        recheck = os.environ.get("VERIF_TIER_EFFECTIVE", "") == "thorough"
    targets = [prop_module, *extra_targets]
    res.checker_cmd = (f"cd lean && lake build {' '.join(targets)} && lake env lean Audit/"
                       f"{prop_module.split('.')[-1]}.lean  # #print axioms on every theorem; "
                       f"grep for sorry/admit/axiom/native_decide/bv_decide/implemented_by/unsafe")
    res.obligations = theorems_of(prop_module)
    with _Lock():
        rc, log = _run(["lake", "build", *targets], LEAN, timeout)
        res.build_log = log
        if rc != 0:
            failed = sorted(set(re.findall(r"error: ([\w/]+\.lean):(\d+)", log)))
            res.broken.append({"module": prop_module, "reason": "lake build failed",
                               "where": [f"{f}:{l}" for f, l in failed][:20],
                               "log_tail": log[-3000:]})
            return res
        hits = banned_hits(imports_closure(prop_module))
        if hits:
            raise MachineryError("escape hatch in Lean sources: " + "; ".join(hits[:5]))
        audit = LEAN / "Audit" / (prop_module.split(".")[-1] + ".lean")
        audit.parent.mkdir(exist_ok=True)
        text = f"import {prop_module}\n" + "".join(f"#print axioms {n}\n" for n in res.obligations)
        if not audit.exists() or audit.read_text() != text:
            audit.write_text(text)
        rc, out = _run(["lake", "env", "lean", str(audit.relative_to(LEAN))], LEAN, timeout)
    if rc != 0:
        raise MachineryError("axiom audit failed to run:\n" + out[-2000:])
    if recheck:
        with _Lock():
            rc2, out2 = _run(["lake", "env", "leanchecker", prop_module], LEAN, timeout)
        if rc2 != 0:
            raise MachineryError(f"leanchecker rejected {prop_module}:\n" + out2[-2000:])
        res.checker_cmd += f" && lake env leanchecker {prop_module}"
    for m in re.finditer(r"'([^']+)' depends on axioms: \[([^\]]*)\]", out.replace("\n", " ")):
        res.axioms[m.group(1)] = [a.strip() for a in m.group(2).split(",") if a.strip()]
    for m in re.finditer(r"'([^']+)' does not depend on any axioms", out):
        res.axioms[m.group(1)] = []
    for n in res.obligations:
        if n not in res.axioms:
            res.broken.append({"theorem": n, "reason": "no #print axioms output"})
        elif set(res.axioms[n]) - ALLOWED_AXIOMS:
            raise MachineryError(f"{n} depends on {res.axioms[n]}")
        else:
            res.discharged.append(n)
    return res


# --------------------------------------------------------------------------------------------
# drivers
# --------------------------------------------------------------------------------------------

def driver_ask(exe: str, requests: list[dict], timeout: int = 600) -> list[dict]:
    """pipe one JSON request per line through a compiled model driver"""
    path = LEAN / ".lake" / "build" / "bin" / exe
    if not path.exists():
        with _Lock():
            rc, log = _run(["lake", "build", exe], LEAN, 1500)
        if rc != 0:
            raise MachineryError(f"cannot build driver {exe}:\n{log[-2000:]}")
    data = "".join(json.dumps(r, separators=(",", ":")) + "\n" for r in requests)
    try:
        r = subprocess.run([str(path)], input=data, stdout=subprocess.PIPE, stderr=subprocess.PIPE,
                           text=True, timeout=timeout)
    except subprocess.TimeoutExpired as e:
        raise MachineryError(f"driver {exe} timed out") from e
    if r.returncode != 0:
        raise MachineryError(f"driver {exe} exit {r.returncode}: {r.stderr[-1000:]}")
    lines = [ln for ln in r.stdout.splitlines() if ln.strip()]
    if len(lines) != len(requests):
        raise MachineryError(f"driver {exe}: {len(requests)} requests, {len(lines)} answers")
    out = [json.loads(ln) for ln in lines]
    for q, a in zip(requests, out):
        if isinstance(a, dict) and "driver_error" in a:
            raise MachineryError(f"driver {exe} rejected {json.dumps(q)[:300]}: {a['driver_error']}")
    return out


# --------------------------------------------------------------------------------------------
# reporting
# --------------------------------------------------------------------------------------------

def load_known() -> list[dict]:
    if KNOWN.exists():
        return json.loads(KNOWN.read_text())
    return []


class Run:
    def __init__(self, pid: str, tier: str, level: str):
        self.pid, self.tier, self.level = pid, tier, level
        os.environ["VERIF_TIER_EFFECTIVE"] = tier
        self.seed = seed_of_env()
        self.t0 = time.time()
        self.violations: list[dict] = []
        self.known_hits: list[str] = []
        self.coverage: dict[str, Any] = {}
        self.assumptions: list[str] = []
        self.known = [k for k in load_known() if k.get("property") == pid and k.get("status") == "open"]
        self._samples: list[Any] = []
        self._distinct: set[str] = set()
        self.evaluations = 0
        self.counters: dict[str, int] = {}

    # ---- bookkeeping
    def rng(self, stream: str = "") -> random.Random:
        return rng_for(self.pid, self.seed, stream)

    def count(self, key: str, n: int = 1) -> None:
        self.counters[key] = self.counters.get(key, 0) + n

    def case(self, canon: Any, nontrivial: bool, sample: Any = None) -> None:
        """register one explored case; `canon` identifies it for distinctness"""
        self.evaluations += 1
        if nontrivial:
            self._distinct.add(hashlib.sha1(json.dumps(canon, sort_keys=True, default=str).encode()).hexdigest())
        if sample is not None and len(self._samples) < 6:
            self._samples.append(sample)

    def budget_left(self, total_s: float) -> float:
        return total_s - (time.time() - self.t0)

    # ---- findings
    def report(self, signature: str, what: str, replay: dict, no_input: bool = False) -> None:
        """a property violation (or a broken obligation / correspondence)"""
        for k in self.known:
            if k.get("signature") == signature:
                line = f"KNOWN-FINDING: property={self.pid} {k.get('id', signature)}: {what}"
                if line not in self.known_hits:
                    self.known_hits.append(line)
                    print(line, flush=True)
                return
        if any(v["signature"] == signature for v in self.violations):
            return
        REPLAYS.mkdir(exist_ok=True)
        path = REPLAYS / f"{self.pid}-{self.tier}-{self.seed}-{len(self.violations)}.json"
        replay = dict(replay)
        replay.update({"property": self.pid, "signature": signature, "what": what, "seed": self.seed,
                       "tier": self.tier, "no_failing_input_found": bool(no_input)})
        path.write_text(json.dumps(replay, indent=1, default=str))
        self.violations.append({"signature": signature, "what": what, "replay": str(path)})
        tail = " no-failing-input-found" if no_input else ""
        print(f"VIOLATION property={self.pid} replay={path}{tail}", flush=True)
        print(f"  {what}", flush=True)

    # ---- evidence
    def finish(self, lean: Optional[LeanResult], rule: str, explanation: str = "",
               trusted_base: Optional[list[str]] = None, extra: Optional[dict] = None) -> int:
        cov: dict[str, Any] = dict(self.coverage)
        cov["evaluations"] = self.evaluations
        cov["distinct_nontrivial"] = len(self._distinct)
        cov["rule"] = rule
        cov["samples"] = self._samples or ["(no case sampled)"]
        cov["counters"] = self.counters
        if explanation:
            cov["explanation"] = explanation
        if lean is not None:
            cov["obligations"] = len(lean.obligations)
            cov["discharged"] = len(lean.discharged)
            cov["checker_cmd"] = lean.checker_cmd
            cov["theorems"] = lean.obligations
            cov["axioms_used"] = sorted({a for v in lean.axioms.values() for a in v})
            cov["broken_obligations"] = lean.broken
        cov["trusted_base"] = trusted_base or []
        cov["known_findings_hit"] = self.known_hits
        if extra:
            cov.update(extra)
        ev = {"property_id": self.pid, "tier": self.tier, "seed": self.seed, "level": self.level,
              "coverage": cov, "assumptions": self.assumptions,
              "wall_s": round(time.time() - self.t0, 2), "violations": len(self.violations)}
        EVIDENCE.mkdir(exist_ok=True)
        (EVIDENCE / f"{self.pid}.json").write_text(json.dumps(ev, indent=1, default=str))
        status = "VIOLATED" if self.violations else "held"
        print(f"[{self.pid}] {status}: tier={self.tier} seed={self.seed} cases={self.evaluations} "
              f"distinct_nontrivial={len(self._distinct)} "
              + (f"obligations={len(lean.discharged)}/{len(lean.obligations)} " if lean else "")
              + f"known={len(self.known_hits)} wall={ev['wall_s']}s", flush=True)
        return 1 if self.violations else 0


def main_wrapper(fn: Callable[[], int]) -> None:
    try:
        rc = fn()
    except MachineryError as e:
        print(f"MACHINERY-ERROR: {e}", file=sys.stderr, flush=True)
        sys.exit(2)
    except Exception:
        traceback.print_exc()
        print("MACHINERY-ERROR: unexpected exception in the harness", file=sys.stderr, flush=True)
        sys.exit(2)
    sys.exit(rc)
