"""C10: seeded generator of op histories over a pool of live handles.

The generator looks at the real objects (it runs interleaved with `RealArena.apply`) to choose
operands: in *disciplined* histories every op respects single ownership (see
`arena_real.disciplined`); *wild* histories also share children between parents, edit / copy /
attach views, etc. (the model has to follow the real code there too, but the bookkeeping invariant
is not promised).  Ops that would close a cycle are never generated (the real code answers those
with a RecursionError half-way through a mutation).
"""
from __future__ import annotations

from typing import Callable, Optional

from harness.impl import arena_real as AR

NTS = ["<a>", "<b>", "<c>"]
TERMS = [["t", [97]], ["b", [97]], ["t", []], ["t", [233]], ["b", [255]], ["i", 0], ["i", 1], ["t", [97, 98]],
         ["b", []], ["t", [49]]]
PARTIES = [None, None, None, "P", "Q"]
MAX_HANDLES = 48

WEIGHTS = [("mk", 26), ("addChild", 9), ("setChildren", 7), ("setSym", 4), ("setSender", 3), ("setRecipient", 2),
           ("hash", 6), ("eq", 4), ("classes", 2), ("deepcopy", 6), ("getItem", 9), ("getSlice", 5),
           ("splitEnd", 4), ("prefix", 3), ("replace", 8), ("append", 3), ("size", 1), ("parent", 3),
           ("getPath", 1), ("flatten", 1), ("findAll", 2), ("findDirect", 1), ("choicesPath", 2), ("value", 1)]


def rand_sym(rng, inner: Optional[bool] = None) -> list:
    if inner is None:
        inner = rng.random() < 0.5
    if inner:
        return ["n", rng.choice(NTS)]
    return list(rng.choice(TERMS))


def last_chain(o) -> list:
    out = [o]
    d = 0
    while o._children and d < 100:
        o = o._children[-1]
        out.append(o)
        d += 1
    return out


def propose(rng, arena: AR.RealArena, kind: str, wild: bool) -> Optional[dict]:
    """one candidate op of the given kind (or None when the pool offers no operand)"""
    H = arena.hs
    n = len(H)
    room = n < MAX_HANDLES

    def any_h():
        return rng.randrange(n) if n else None

    def pick(pred: Callable[[object], bool]):
        c = [h for h in range(n) if pred(H[h])]
        return rng.choice(c) if c else None

    def nonview():
        return pick(lambda o: not AR.is_view(o)) if not wild else any_h()

    if kind == "mk":
        if not room:
            return None
        k = rng.choice([0, 0, 0, 1, 2, 2, 3])
        kids: list[int] = []
        if k and n:
            cand = [h for h in range(n) if wild or AR.detached(H[h])]
            rng.shuffle(cand)
            seen: set[int] = set()
            for h in cand:
                if len(kids) >= k:
                    break
                if id(H[h]) in seen and not (wild and rng.random() < 0.1):
                    continue
                seen.add(id(H[h]))
                kids.append(h)
        sym = rand_sym(rng, inner=bool(kids) or rng.random() < 0.45)
        return {"op": "mk", "sym": sym, "sender": rng.choice(PARTIES), "recipient": rng.choice(PARTIES),
                "kids": kids, "ro": rng.random() < 0.1}
    if n == 0:
        return None
    if kind == "addChild":
        p = nonview()
        c = pick(AR.detached) if not wild or rng.random() < 0.5 else any_h()
        if p is None or c is None:
            return None
        return {"op": "addChild", "p": p, "c": c}
    if kind == "setChildren":
        p = nonview()
        if p is None:
            return None
        own = [h for h in range(n) if H[h]._parent is H[p] and any(H[h] is x for x in H[p]._children)]
        own_first: dict[int, int] = {}
        for h in own:
            own_first.setdefault(id(H[h]), h)
        # own children in their current order (a prefix / a subset), plus detached roots
        cur = [own_first[id(c)] for c in H[p]._children if id(c) in own_first]
        r = rng.random()
        if r < 0.3:
            cs = cur[:rng.randint(0, len(cur))]
        elif r < 0.5:
            cs = [h for h in cur if rng.random() < 0.6]
        else:
            cs = [h for h in cur if rng.random() < 0.7]
            extra = [h for h in range(n) if (AR.detached(H[h]) or wild)]
            rng.shuffle(extra)
            seen = {id(H[h]) for h in cs}
            for h in extra[:rng.randint(0, 2)]:
                if id(H[h]) not in seen:
                    seen.add(id(H[h]))
                    cs.insert(rng.randint(0, len(cs)), h)
        return {"op": "setChildren", "p": p, "cs": cs}
    if kind == "setSym":
        i = nonview()
        if i is None:
            return None
        o = H[i]
        sym = rand_sym(rng, inner=(len(o._children) > 0) if rng.random() < 0.8 else None)
        if wild and rng.random() < 0.1:
            sym = ["s"]
        return {"op": "setSym", "i": i, "sym": sym}
    if kind in ("setSender", "setRecipient"):
        i = nonview()
        return None if i is None else {"op": kind, "i": i, "s": rng.choice(PARTIES + ["P"])}
    if kind == "hash":
        return {"op": "hash", "i": any_h()}
    if kind == "eq":
        return {"op": "eq", "i": any_h(), "j": any_h()}
    if kind == "classes":
        return {"op": "classes"}
    if kind == "deepcopy":
        i = nonview()
        if i is None or not room:
            return None
        cc, cp = rng.choice([(True, True), (True, True), (True, False), (False, True), (False, False)])
        return {"op": "deepcopy", "i": i, "cc": cc, "cp": cp}
    if kind == "getItem":
        i = pick(lambda o: len(o._children) > 0) if rng.random() < 0.9 else any_h()
        if i is None or not room:
            return None
        m = len(H[i]._children)
        k = rng.randint(-m, m - 1) if m and rng.random() < 0.93 else rng.choice([m, -m - 1, m + 2])
        return {"op": "getItem", "i": i, "k": k}
    if kind == "getSlice":
        i = pick(lambda o: len(o._children) > 0) if rng.random() < 0.9 else any_h()
        if i is None or not room:
            return None
        m = len(H[i]._children)
        a = rng.choice([None, 0, 1, -1, rng.randint(-m - 1, m + 1)])
        b = rng.choice([None, m, -1, 1, rng.randint(-m - 1, m + 1)])
        return {"op": "getSlice", "i": i, "a": a, "b": b}
    if kind in ("splitEnd", "prefix"):
        i = pick(lambda o: (wild or not AR.is_view(o)) and (o._parent is not None or rng.random() < 0.15))
        if i is None or not room:
            return None
        return {"op": kind, "i": i, "copy": rng.random() < 0.65}
    if kind == "replace":
        i = nonview()
        if i is None or not room:
            return None
        root = H[i]
        inside = [h for h in range(n) if any(x is root for x in AR.up_chain(H[h])) and (wild or not AR.is_view(H[h]))]
        reps = []
        for _ in range(rng.choice([1, 1, 1, 2, 3])):
            a = rng.choice(inside) if inside and rng.random() < 0.9 else (any_h() if wild else nonview())
            same = [h for h in range(n) if AR.sym_json(H[h].symbol) == AR.sym_json(H[a].symbol)
                    and (wild or not AR.is_view(H[h]))]
            b = rng.choice(same) if same and rng.random() < 0.8 else (any_h() if wild else nonview())
            reps.append([a, b])
        return {"op": "replace", "i": i, "reps": reps}
    if kind == "append":
        i = nonview()
        t = pick(AR.detached) if not wild or rng.random() < 0.5 else any_h()
        if i is None or t is None:
            return None
        path = []
        o = H[i]
        for _ in range(rng.choice([0, 1, 1, 2, 3])):
            if o is not None and o._children and rng.random() < 0.6:
                last = o._children[-1]
                sj = AR.sym_json(last.symbol)
                if sj[0] == "n" and rng.random() < 0.85:
                    path.append([sj[1], False])
                    o = last
                    continue
                path.append([rng.choice(NTS), rng.random() < 0.5])
                o = None
            else:
                path.append([rng.choice(NTS), rng.random() < 0.85])
                o = None
        return {"op": "append", "i": i, "path": path, "t": t}
    if kind == "parent":
        return {"op": "parent", "i": any_h()} if room else None
    if kind in ("size", "getPath", "flatten", "choicesPath", "value"):
        return {"op": kind, "i": any_h()}
    if kind in ("findAll", "findDirect"):
        return {"op": kind, "i": any_h(), "name": rng.choice(NTS)}
    raise KeyError(kind)


def safe(arena: AR.RealArena, op: dict) -> bool:
    """never close a cycle"""
    H = arena.hs
    k = op["op"]
    if k == "addChild":
        return not AR.would_cycle(H[op["p"]], [H[op["c"]]])
    if k == "setChildren":
        return not AR.would_cycle(H[op["p"]], [H[c] for c in op["cs"]])
    if k == "append":
        t = H[op["t"]]
        return not any(AR.would_cycle(x, [t]) for x in last_chain(H[op["i"]]))
    return True


def next_op(rng, arena: AR.RealArena, wild: bool) -> tuple[dict, bool]:
    """(op, disciplined?)"""
    kinds = [k for k, _ in WEIGHTS]
    weights = [w for _, w in WEIGHTS]
    for _ in range(60):
        kind = rng.choices(kinds, weights)[0]
        op = propose(rng, arena, kind, wild)
        if op is None or not safe(arena, op):
            continue
        ok = AR.disciplined(arena, op)
        if ok or wild:
            return op, ok
    return {"op": "mk", "sym": ["t", [97]], "sender": None, "recipient": None, "kids": [], "ro": False}, True
