"""Generators for E4 (C07, C02, C11): small grammars, derivations, selector expressions and constraint
*programs* over the modelled atom language.

A program is a nested list that is at the same time the JSON the Lean driver `drv_cons` decodes
(see lean/Driver/Cons.lean) — so model and implementation are given literally the same object; the
renderers below turn it into `.fan` text (for the real front end) or into Python expression strings
with placeholder names (for constraint objects constructed directly).

  Search : ["rule",nt] | ["attr",B,A] | ["desc",B,A] | ["item",B,[Slc]] | ["star",B] | ["len",B]
         | ["sel",B,[[nt,direct,Slc|None]...]]
  Slc    : ["idx",i] | ["slice",a|None,b|None,step|None]
  Ref    : ["ph",i] | ["var",x]
  STerm  : ["lit",[cps]] | ["str",Ref]           ITerm : ["lit",n] | ["int",Ref] | ["len",Ref]
  Cmp    : ["s",op,L,R] | ["i",op,L,R]
  BExpr  : ["tt"] | ["ff"] | ["cmp",Cmp] | ["sw",STerm,[cps]] | ["in",[cps],Ref] | ["not",e] | ["and",a,b] | ["or",a,b]
  Cons   : ["expr",BExpr,[Search]] | ["cmp",Cmp,[Search]] | ["conj",lazy,[Cons]] | ["disj",lazy,[Cons]]
         | ["impl",a,c] | ["all",lazy,Bound,Search,body] | ["any",lazy,Bound,Search,body]
  Bound  : ["nt",name] | ["var",x]
"""
from __future__ import annotations

import copy
from typing import Any, Optional

OPS = ["==", "!=", "<", "<=", ">", ">="]
TERMINALS = ["x", "y", "1", "2", "07", "a", "-3", " 4", "q", "10", "xy"]
NTS = ["<start>", "<a>", "<b>", "<c>"]
VARS = ["q", "w"]


# ------------------------------------------------------------------------------------------------
# grammars and derivations
# ------------------------------------------------------------------------------------------------

def gen_grammar(rng) -> dict[str, list[list[str]]]:
    """non-terminals ranked <start> > <a> > <b> > <c>; right-hand sides use lower ranks and terminals,
    optionally one directly recursive alternative (so that `..` and `.` differ and matches nest)"""
    g: dict[str, list[list[str]]] = {}
    n_nt = rng.choice([2, 3, 3, 4, 4])
    nts = NTS[:n_nt]
    for rank, nt in enumerate(nts):
        lower = nts[rank + 1:]
        alts = []
        for _ in range(rng.choice([1, 2, 2, 3])):
            alt = []
            for _ in range(rng.choice([1, 2, 2, 3, 4] if rank == 0 else [1, 1, 2, 3])):
                if lower and rng.random() < (0.85 if rank == 0 else 0.6):
                    alt.append(rng.choice(lower))
                else:
                    alt.append(rng.choice(TERMINALS))
            alts.append(alt)
        if rank > 0 and lower and rng.random() < 0.3:
            alts.append([rng.choice(lower), nt])          # right recursion
        if not lower:
            alts = [[rng.choice(TERMINALS)] for _ in range(rng.choice([2, 3, 4]))]
        # de-duplicate alternatives
        seen, out = set(), []
        for a in alts:
            if tuple(a) not in seen:
                seen.add(tuple(a))
                out.append(a)
        g[nt] = out
    return g


def grammar_text(g: dict[str, list[list[str]]]) -> str:
    def sym(s: str) -> str:
        return s if s.startswith("<") else '"' + s + '"'
    return "".join(f"{nt} ::= " + " | ".join(" ".join(sym(s) for s in alt) for alt in alts) + "\n"
                   for nt, alts in g.items())


def derive(rng, g: dict[str, list[list[str]]], nt: str = "<start>", depth: int = 0) -> list:
    """a random derivation as a hand-built tree ["n", nt, None, None, kids]"""
    alts = g[nt]
    if depth > 4:
        nonrec = [a for a in alts if nt not in a]
        alts = nonrec or alts
    alt = rng.choice(alts)
    kids = []
    for s in alt:
        if s.startswith("<"):
            kids.append(derive(rng, g, s, depth + 1))
        else:
            kids.append(["t", [ord(c) for c in s], None, None])
    return ["n", nt, None, None, kids]


def word_of(t: list) -> str:
    if t[0] == "t":
        return "".join(chr(c) for c in t[1])
    return "".join(word_of(k) for k in t[4])


def tree_size(t: list) -> int:
    return 1 if t[0] == "t" else 1 + sum(tree_size(k) for k in t[4])


# ------------------------------------------------------------------------------------------------
# searches
# ------------------------------------------------------------------------------------------------

def gen_slices(rng, text_ok: bool) -> list:
    """`text_ok`: only what `.fan` text can say: non-negative numbers (bounds may be omitted).  Otherwise
    also negative indices / bounds (only reachable by constructing `ItemSearch` directly: in text a
    negative subscript is a Python subscript of the symbol, not a selector)."""
    r = rng.random()
    if text_ok:
        if r < 0.55:
            return [["idx", rng.choice([0, 0, 0, 0, 1, 1, 1, 2])]]
        if r < 0.93:
            a = rng.choice([None, 0, 0, 1, 2])
            return [["slice", a, rng.choice([None, 0, 1, 2, 3, 5]), None if rng.random() < 0.75 else rng.choice([1, 2])]]
        return [["idx", 0], ["idx", 1]] if r > 0.97 else [["idx", 0]]      # `<a>[0, 1]`: TypeError
    if r < 0.5:
        return [["idx", rng.choice([0, 0, 1, -1, -1, -1, -2, 2, -3, 4])]]
    if r < 0.95:
        return [["slice", rng.choice([None, 0, 1, -1, -2, 2]), rng.choice([None, 1, 2, -1, 3, 0]),
                 rng.choice([None, None, None, 1, 2, 3])]]
    return rng.choice([[], [["idx", 0], ["slice", 0, 1, None]], [["idx", 0]], [["idx", -1]]])


def children_of(g, nt: str) -> list[str]:
    return sorted({s for alt in g.get(nt, []) for s in alt if s.startswith("<")})


def descendants_of(g, nt: str) -> list[str]:
    seen: list[str] = []
    todo = children_of(g, nt)
    while todo:
        x = todo.pop()
        if x not in seen:
            seen.append(x)
            todo.extend(children_of(g, x))
    return sorted(seen)


def final_nt(s: list) -> Optional[str]:
    """the non-terminal a tree-yielding search ends in (None after an index: any child)"""
    if s[0] == "rule":
        return s[1]
    if s[0] in ("attr", "desc"):
        return final_nt(s[2])
    if s[0] == "sel" and len(s[2]) == 1:
        return s[2][0][0]
    return None


def gen_tree_search(rng, g, depth: int, text_ok: bool) -> list:
    """a search whose `find` yields Tree containers.  `g` (grammar dict, or a plain list of
    non-terminals) steers `.`/`..` towards symbols that can occur there; a share is left random so
    that empty match sets (and selectors the front end's static check rejects) are covered too."""
    nts = list(g.keys()) if isinstance(g, dict) else list(g)
    if depth <= 0 or rng.random() < 0.35:
        return ["rule", rng.choice(nts)]
    r = rng.random()
    if r < 0.7:
        base = gen_tree_search(rng, g, depth - 1, text_ok)
        desc = r >= 0.4
        cands = nts
        fin = final_nt(base)
        if isinstance(g, dict) and fin is not None and rng.random() < 0.88:
            cands = (descendants_of(g, fin) if desc else children_of(g, fin)) or nts
        return ["desc" if desc else "attr", base, gen_selection(rng, cands, text_ok)]
    if r < 0.86:
        return ["item", gen_tree_search(rng, g, depth - 1, text_ok), gen_slices(rng, text_ok)]
    base = gen_tree_search(rng, g, depth - 1, text_ok)
    fin = final_nt(base)
    cands = nts
    if isinstance(g, dict) and fin is not None and rng.random() < 0.88:
        cands = descendants_of(g, fin) or nts
    return ["sel", base, gen_pairs(rng, cands, text_ok)]


def gen_pairs(rng, nts: list[str], text_ok: bool) -> list:
    """the entries of a `{…}` selector"""
    out = []
    for _ in range(rng.choice([1, 1, 1, 2])):
        it = None
        if rng.random() < 0.45:
            it = gen_slices(rng, text_ok)
            it = it[0] if it else None
        out.append([rng.choice(nts), (not text_ok) and rng.random() < 0.4, it])
    return out


def gen_selection(rng, nts: list[str], text_ok: bool) -> list:
    """right-hand side of `.` / `..`: `<x>` or `<x>[…]`"""
    r = rng.random()
    if r < 0.72:
        return ["rule", rng.choice(nts)]
    if r < 0.92:
        return ["item", ["rule", rng.choice(nts)], gen_slices(rng, text_ok)]
    return ["sel", ["rule", rng.choice(nts)], gen_pairs(rng, nts, text_ok)]


def search_text(s: list) -> str:
    tag = s[0]
    if tag == "rule":
        return s[1]
    if tag == "attr":
        return f"{search_text(s[1])}.{selection_text(s[2])}"
    if tag == "desc":
        return f"{search_text(s[1])}..{selection_text(s[2])}"
    if tag in ("item", "sel"):
        return selection_text(s)
    if tag == "star":
        return "*" + search_text(s[1])
    if tag == "len":
        inner = s[1]
        if inner[0] == "star":
            return f"len(*{search_text(inner[1])})"
        return f"|{search_text(inner)}|"
    raise ValueError(tag)


def selection_text(s: list) -> str:
    """a `selection` of the grammar: base_selection, optionally with [slices]"""
    if s[0] == "rule":
        return s[1]
    if s[0] == "item":
        base = s[1]
        b = base[1] if base[0] == "rule" else "(" + search_text(base) + ")"
        return b + "[" + ", ".join(slice_text(x) for x in s[2]) + "]"
    if s[0] == "sel":
        base = s[1]
        b = base[1] if base[0] == "rule" else "(" + search_text(base) + ")"
        return b + "{" + ", ".join(("" if d else "*") + sym + ("" if it is None else ": " + slice_text(it))
                                   for sym, d, it in s[2]) + "}"
    return "(" + search_text(s) + ")"


def slice_text(x: list) -> str:
    if x[0] == "idx":
        return str(x[1])
    a, b, st = x[1], x[2], x[3]
    out = ("" if a is None else str(a)) + ":" + ("" if b is None else str(b))
    if st is not None:
        out += ":" + str(st)
    return out


def search_text_ok(s: list) -> bool:
    """can this search be written in `.fan` text and be read back as the same search?"""
    tag = s[0]
    if tag == "rule":
        return True
    if tag in ("attr", "desc"):
        sel = s[2]
        if sel[0] == "rule":
            return search_text_ok(s[1])
        if sel[0] in ("item", "sel"):
            return search_text_ok(s[1]) and search_text_ok(sel) and sel[1][0] == "rule"
        return False
    if tag == "item":
        if not s[2]:
            return False
        for x in s[2]:
            if x[0] == "idx" and x[1] < 0:
                return False
            if x[0] == "slice" and ((x[1] is not None and x[1] < 0) or (x[2] is not None and x[2] < 0) or
                                    (x[3] is not None and x[3] < 1)):
                return False
        return search_text_ok(s[1])
    if tag == "sel":
        if not s[2]:
            return False
        for sym, direct, it in s[2]:
            if direct:
                return False                      # the grammar always writes `*<x>`
            if it is not None:
                if it[0] == "idx" and it[1] < 0:
                    return False
                if it[0] == "slice" and ((it[1] is not None and it[1] < 0) or (it[2] is not None and it[2] < 0) or
                                         (it[3] is not None and it[3] < 1)):
                    return False
        return search_text_ok(s[1])
    if tag in ("star", "len"):
        return search_text_ok(s[1])
    return False


# ------------------------------------------------------------------------------------------------
# atoms
# ------------------------------------------------------------------------------------------------

class Ctx:
    """while generating one atom: collects its searches (one placeholder per occurrence)"""

    def __init__(self, rng, nts: list[str], vars_: list[str], text_ok: bool, depth: int):
        self.rng, self.nts, self.vars, self.text_ok, self.depth = rng, nts, vars_, text_ok, depth
        self.searches: list = []

    def ref(self, kind: str) -> list:
        rng = self.rng
        if kind == "tree" and self.vars and rng.random() < 0.45:
            return ["var", rng.choice(self.vars)]
        s = gen_tree_search(rng, self.nts, self.depth, self.text_ok)
        if kind == "list":
            s = ["star", s]
        elif kind == "int":
            s = ["len", ["star", s]] if rng.random() < 0.5 else ["len", s]
        self.searches.append(s)
        return ["ph", len(self.searches) - 1]


def cps(s: str) -> list[int]:
    return [ord(c) for c in s]


def gen_strlit(rng) -> list[int]:
    r = rng.random()
    if r < 0.7:
        return cps(rng.choice(TERMINALS))
    if r < 0.9:
        return cps(rng.choice(TERMINALS) + rng.choice(TERMINALS))
    return cps("")


def gen_sterm(ctx: Ctx, lit_ok: bool = True) -> list:
    if lit_ok and ctx.rng.random() < 0.45:
        return ["lit", gen_strlit(ctx.rng)]
    return ["str", ctx.ref("tree")]


def gen_iterm(ctx: Ctx, lit_ok: bool = True) -> list:
    r = ctx.rng.random()
    if lit_ok and r < 0.4:
        return ["lit", ctx.rng.choice([0, 1, 1, 2, 2, 3, 4, 7, 10, -3])]
    if r < 0.75:
        return ["int", ctx.ref("tree")]
    return ["len", ctx.ref("int")]


def gen_cmp(ctx: Ctx) -> list:
    rng = ctx.rng
    op = rng.choice(OPS if rng.random() < 0.5 else ["==", "==", "!="])
    if rng.random() < 0.5:
        l = gen_sterm(ctx, lit_ok=False) if rng.random() < 0.8 else gen_sterm(ctx)
        r = gen_sterm(ctx)
        return ["s", op, l, r]
    l = gen_iterm(ctx, lit_ok=False) if rng.random() < 0.8 else gen_iterm(ctx)
    r = gen_iterm(ctx)
    return ["i", op, l, r]


def gen_bexpr(ctx: Ctx, depth: int) -> list:
    rng = ctx.rng
    r = rng.random()
    if depth <= 0 or r < 0.45:
        r2 = rng.random()
        if r2 < 0.55:
            return ["cmp", gen_cmp(ctx)]
        if r2 < 0.7:
            return ["sw", gen_sterm(ctx, lit_ok=False), gen_strlit(rng)]
        if r2 < 0.85:
            return ["in", gen_strlit(rng), ctx.ref("list")]
        return ["tt"] if r2 < 0.93 else ["ff"]
    if r < 0.6:
        return ["not", gen_bexpr(ctx, depth - 1)]
    if r < 0.8:
        return ["and", gen_bexpr(ctx, depth - 1), gen_bexpr(ctx, depth - 1)]
    return ["or", gen_bexpr(ctx, depth - 1), gen_bexpr(ctx, depth - 1)]


def gen_atom(rng, nts, vars_, text_ok: bool) -> list:
    ctx = Ctx(rng, nts, vars_, text_ok, depth=rng.choice([0, 1, 1, 2]))
    if rng.random() < 0.5:
        c = gen_cmp(ctx)
        return ["cmp", c, ctx.searches]
    e = gen_bexpr(ctx, rng.choice([0, 1, 1, 2]))
    return ["expr", e, ctx.searches]


# ------------------------------------------------------------------------------------------------
# constraint programs
# ------------------------------------------------------------------------------------------------

def gen_bound_and_search(rng, nts, text_ok: bool, legacy: bool) -> tuple[list, list]:
    s = gen_tree_search(rng, nts, rng.choice([0, 1, 1, 2]), text_ok)
    names = list(nts.keys()) if isinstance(nts, dict) else list(nts)
    # a share of SHADOWING quantifiers: the bound non-terminal is a symbol the range search itself looks up
    # (`forall <d> in <n>.<d>`, `all(.. for <d> in *<i>..<d>)`): the range must be computed before the first
    # binding reaches `scope`, or later bases see the bound element (seeded change C07-1)
    fin = final_nt(s)
    shadow = fin is not None and s[0] in ("attr", "desc", "sel") and rng.random() < 0.3
    if legacy:
        return ["nt", fin if shadow else rng.choice(names + ["<c>", "<d>"])], s
    if shadow:
        return ["nt", fin], ["star", s]
    b = ["nt", rng.choice(names)] if rng.random() < 0.5 else ["var", rng.choice(VARS)]
    return b, ["star", s]


def gen_dnf(rng, nts, vars_, text_ok: bool, lazy: bool) -> list:
    """atom | conj of atoms | disj of (atom | conj of atoms): what `formula_disjunction` can say"""
    def conj() -> list:
        n = rng.choice([1, 1, 2, 2, 3])
        atoms = [gen_atom(rng, nts, vars_, text_ok) for _ in range(n)]
        return atoms[0] if n == 1 else ["conj", lazy, atoms]
    n = rng.choice([1, 1, 1, 2, 2, 3])
    parts = [conj() for _ in range(n)]
    return parts[0] if n == 1 else ["disj", lazy, parts]


def gen_text_program(rng, nts, lazy: bool, depth: int, vars_: Optional[list] = None, legacy_ok: bool = True) -> list:
    """quantifier chain over a DNF: expressible in `.fan` text"""
    vars_ = list(vars_ or [])
    if depth <= 0 or rng.random() < 0.35:
        return gen_dnf(rng, nts, vars_, True, lazy)
    legacy = legacy_ok and rng.random() < 0.2
    b, s = gen_bound_and_search(rng, nts, True, legacy)
    inner_vars = vars_ + ([b[1]] if b[0] == "var" else [])
    body = gen_text_program(rng, nts, lazy, depth - 1, inner_vars, legacy_ok=legacy)
    return [rng.choice(["all", "any"]), lazy, b, s, body]


def gen_free_program(rng, nts, depth: int, vars_: Optional[list] = None) -> list:
    """arbitrary nesting of all combinators, per-node lazy flags, selectors text cannot say"""
    vars_ = list(vars_ or [])
    r = rng.random()
    if depth <= 0 or r < 0.25:
        return gen_atom(rng, nts, vars_, False)
    lz = rng.random() < 0.5
    if r < 0.45:
        n = rng.choice([1, 2, 2, 3])
        return [rng.choice(["conj", "disj"]), lz, [gen_free_program(rng, nts, depth - 1, vars_) for _ in range(n)]]
    if r < 0.6:
        return ["impl", gen_free_program(rng, nts, depth - 1, vars_), gen_free_program(rng, nts, depth - 1, vars_)]
    legacy = rng.random() < 0.2
    b, s = gen_bound_and_search(rng, nts, False, legacy)
    inner_vars = vars_ + ([b[1]] if b[0] == "var" else [])
    return [rng.choice(["all", "any"]), lz, b, s, gen_free_program(rng, nts, depth - 1, inner_vars)]


def with_lazy(c: list, z: bool) -> list:
    c = copy.deepcopy(c)

    def go(x: list) -> None:
        tag = x[0]
        if tag in ("conj", "disj"):
            x[1] = z
            for y in x[2]:
                go(y)
        elif tag == "impl":
            go(x[1])
            go(x[2])
        elif tag in ("all", "any"):
            x[1] = z
            go(x[4])
    go(c)
    return c


def shadowing_quantifiers(c: list) -> int:
    """number of quantifiers whose bound non-terminal is the symbol their range search ends in"""
    tag = c[0]
    if tag in ("conj", "disj"):
        return sum(shadowing_quantifiers(x) for x in c[2])
    if tag == "impl":
        return shadowing_quantifiers(c[1]) + shadowing_quantifiers(c[2])
    if tag in ("all", "any"):
        rng_s = c[3][1] if c[3][0] == "star" else c[3]
        here = 1 if c[2][0] == "nt" and rng_s[0] in ("attr", "desc", "sel") and final_nt(rng_s) == c[2][1] else 0
        return here + shadowing_quantifiers(c[4])
    return 0


def depth_of(c: list) -> int:
    tag = c[0]
    if tag in ("expr", "cmp"):
        return 1
    if tag in ("conj", "disj"):
        return 1 + max([depth_of(x) for x in c[2]] or [0])
    if tag == "impl":
        return 1 + max(depth_of(c[1]), depth_of(c[2]))
    return 1 + depth_of(c[4])


def kinds_of(c: list, acc: Optional[set] = None) -> set:
    acc = acc if acc is not None else set()
    tag = c[0]
    acc.add(tag)
    if tag in ("conj", "disj"):
        for x in c[2]:
            kinds_of(x, acc)
    elif tag == "impl":
        kinds_of(c[1], acc)
        kinds_of(c[2], acc)
    elif tag in ("all", "any"):
        kinds_of(c[4], acc)
    return acc


def searches_of(c: list) -> list[list]:
    """every search occurring in a program (atoms' placeholders and quantifier ranges)"""
    tag = c[0]
    if tag in ("expr", "cmp"):
        return list(c[2])
    if tag in ("conj", "disj"):
        return [s for x in c[2] for s in searches_of(x)]
    if tag == "impl":
        return searches_of(c[1]) + searches_of(c[2])
    return [c[3]] + searches_of(c[4])


# ------------------------------------------------------------------------------------------------
# rendering: Python expression strings (placeholder names or search text)
# ------------------------------------------------------------------------------------------------

def pystr(cp: list[int]) -> str:
    return '"' + "".join(chr(c) for c in cp) + '"'


class Namer:
    """how a reference is written: `.fan` text (the search itself) or a placeholder identifier"""

    def __init__(self, searches: list, as_text: bool, prefix: str = "___p"):
        self.searches, self.as_text, self.prefix = searches, as_text, prefix

    def ref(self, r: list) -> str:
        if r[0] == "var":
            return r[1]
        if self.as_text:
            return search_text(self.searches[r[1]])
        return f"{self.prefix}{r[1]}___"


def sterm_py(t: list, nm: Namer) -> str:
    return pystr(t[1]) if t[0] == "lit" else f"str({nm.ref(t[1])})"


def iterm_py(t: list, nm: Namer) -> str:
    if t[0] == "lit":
        return str(t[1])
    if t[0] == "int":
        return f"int({nm.ref(t[1])})"
    return nm.ref(t[1])


def cmp_sides(c: list, nm: Namer) -> tuple[str, str, str]:
    f = sterm_py if c[0] == "s" else iterm_py
    return f(c[2], nm), c[1], f(c[3], nm)


def bexpr_py(e: list, nm: Namer) -> str:
    tag = e[0]
    if tag == "tt":
        return "True"
    if tag == "ff":
        return "False"
    if tag == "cmp":
        l, op, r = cmp_sides(e[1], nm)
        return f"({l} {op} {r})"
    if tag == "sw":
        return f"{sterm_py(e[1], nm)}.startswith({pystr(e[2])})"
    if tag == "in":
        return f"({pystr(e[1])} in {nm.ref(e[2])})"
    if tag == "not":
        return f"(not {bexpr_py(e[1], nm)})"
    if tag == "and":
        return f"({bexpr_py(e[1], nm)} and {bexpr_py(e[2], nm)})"
    if tag == "or":
        return f"({bexpr_py(e[1], nm)} or {bexpr_py(e[2], nm)})"
    raise ValueError(tag)


def refs_of_term(t: list) -> list[int]:
    if t[0] in ("str", "int", "len") and t[1][0] == "ph":
        return [t[1][1]]
    return []


# ------------------------------------------------------------------------------------------------
# rendering: `.fan` constraint text
# ------------------------------------------------------------------------------------------------

def text_expressible(c: list, top: bool = True, legacy_chain: bool = True) -> bool:
    """quantifier chain over a DNF with one global lazy flag and text-writable selectors"""
    flags: set = set()

    def atom_ok(a: list) -> bool:
        return a[0] in ("expr", "cmp") and all(search_text_ok(s) for s in a[2])

    def dnf_ok(x: list) -> bool:
        if atom_ok(x):
            return True
        if x[0] == "conj":
            flags.add(x[1])
            return len(x[2]) >= 2 and all(atom_ok(a) for a in x[2])
        if x[0] == "disj":
            flags.add(x[1])
            return len(x[2]) >= 2 and all(atom_ok(a) or (a[0] == "conj" and len(a[2]) >= 2 and
                                                         (flags.add(a[1]) or True) and
                                                         all(atom_ok(b) for b in a[2])) for a in x[2])
        return False

    def chain_ok(x: list, legacy_allowed: bool) -> bool:
        if x[0] in ("all", "any"):
            flags.add(x[1])
            s = x[3]
            if s[0] == "star":
                if not search_text_ok(s[1]):
                    return False
                return chain_ok(x[4], False)
            # legacy forall/exists: only at the top of the chain, bound must be a non-terminal
            if not legacy_allowed or x[2][0] != "nt" or not search_text_ok(s):
                return False
            return chain_ok(x[4], True)
        return dnf_ok(x)

    return chain_ok(c, True) and len(flags) <= 1


def atom_text(a: list, rng=None) -> str:
    nm = Namer(a[2], as_text=True)
    if a[0] == "cmp":
        l, op, r = cmp_sides(a[1], nm)
        return f"{l} {op} {r}"
    body = bexpr_py(a[1], nm)
    # both spellings give an ExpressionConstraint; a bare parenthesised expression is also one
    if body.startswith("(") and (rng is None or rng.random() < 0.5):
        return body
    return f"bool({body})"


def cons_text(c: list, rng=None) -> str:
    tag = c[0]
    if tag in ("expr", "cmp"):
        return atom_text(c, rng)
    if tag == "conj":
        return " and ".join(cons_text(x, rng) for x in c[2])
    if tag == "disj":
        return " or ".join(cons_text(x, rng) for x in c[2])
    if tag in ("all", "any"):
        b = c[2][1]
        s = c[3]
        if s[0] == "star":
            return f"{tag}({cons_text(c[4], rng)} for {b} in {search_text(s)})"
        kw = "forall" if tag == "all" else "exists"
        return f"{kw} {b} in {search_text(s)}: {cons_text(c[4], rng)}"
    raise ValueError(tag)


def lazy_flag_of(c: list) -> Optional[bool]:
    tag = c[0]
    if tag in ("conj", "disj", "all", "any"):
        return c[1]
    return None
