"""(grammar, start, input) cases for the Earley checks C06 / C04.

Two grammar sources:
* `stress_spec`: tiny grammars built to hit the parser's weak spots — nullable symbols, `?` under `*` / `+` /
  `{n,}`, nested repetitions, empty literals, left / right / unit recursion (also unproductive), ambiguity,
  empty-matching regexes, bit terminals off the byte boundary;
* `harness.gen.grammars.gen_spec` (shared generator, productive grammars, all terminal kinds).

Inputs per grammar: words derived from the IR by an independent random deriver (`ir_words`, in the language by
construction when no regex / recursion cut interferes), near misses (delete / insert / substitute / transpose one
cell, truncate, extend), random strings over the grammar's alphabet, the empty word.
"""
from __future__ import annotations

from typing import Any, Optional

from harness.gen import grammars as shared

TEXT_LITS = ['"a"', '"b"', '"ab"', '"c"', '""', '"ba"']
BYTE_LITS = ['b"a"', 'b"b"', 'b"\\x00"', 'b"ab"', 'b""', 'b"\\xff"']
TEXT_RE = ['r"[ab]"', 'r"a+"', 'r"a*"', 'r"(ab)?"', 'r"[abc]+"', 'r"b"']
BYTE_RE = ['rb"[ab]"', 'rb"a+"', 'rb"\\x00*"', 'rb"[\\x00-\\x7f]"']
# instances of the regexes above (for the word deriver)
RE_SAMPLES = {"[ab]": ["a", "b"], "a+": ["a", "aa"], "a*": ["", "a", "aa"], "(ab)?": ["", "ab"],
              "[abc]+": ["a", "cb", "abc"], "b": ["b"], "\\x00*": ["", "\x00"], "[\\x00-\\x7f]": ["a", "\x00"]}


class _Stress:
    def __init__(self, rng, mode: str):
        self.rng, self.mode = rng, mode
        self.names = ["<start>"] + rng.sample(["<a>", "<b>", "<c>"], rng.choice([0, 1, 1, 2, 2, 3]))
        self.tags: set[str] = set()

    def terminal(self) -> str:
        rng = self.rng
        m = self.mode
        if m == "mixed":
            m = rng.choice(["bytes", "bits", "bits"])
        if m == "bits":
            self.tags.add("bits")
            if rng.random() < 0.6:
                return " ".join(str(rng.randint(0, 1)) for _ in range(rng.choice([1, 2, 3, 8, 8])))
            m = "bytes"
        if rng.random() < 0.15:
            self.tags.add("regex")
            return rng.choice(BYTE_RE if m == "bytes" else TEXT_RE)
        lit = rng.choice(BYTE_LITS if m == "bytes" else TEXT_LITS)
        if lit in ('""', 'b""'):
            self.tags.add("empty_literal")
        return lit

    # every generator returns (source, nullable?) — `nullable` is a syntactic estimate (nonterminals count as
    # not nullable) used to keep the share of grammars with a nullable body under `*` / `+` moderate
    def atom(self, depth: int) -> tuple[str, bool]:
        rng = self.rng
        r = rng.random()
        if depth > 0 and r < 0.3:
            src, nl = self.expr(depth - 1)
            return "(" + src + ")", nl
        if r < 0.6 and len(self.names) > 0:
            self.tags.add("nonterminal")
            return rng.choice(self.names), False
        t = self.terminal()
        return ("(" + t + ")" if " " in t else t), t in ('""', 'b""')

    def item(self, depth: int) -> tuple[str, bool]:
        rng = self.rng
        a, nl = self.atom(depth)
        r = rng.random()
        if r < 0.20:
            op = "?"
        elif r < 0.32:
            op = "*"
        elif r < 0.42:
            op = "+"
        elif r < 0.48:
            lo = rng.randint(0, 2)
            op = "{%d,%d}" % (lo, rng.randint(max(lo, 1), 3))
        elif r < 0.53:
            op = "{%d,}" % rng.randint(0, 2)
        elif r < 0.56:
            op = "{%d}" % rng.randint(1, 3)
        else:
            return a, nl
        if nl and op in ("*", "+") and rng.random() < 0.75:
            op = rng.choice(["?", "{0,2}", "{1,2}"])          # keep most nullable bodies out of `*` / `+`
        self.tags.add("rep" + op[0])
        out = a + op
        out_nl = nl or op in ("?", "*") or op.startswith("{0")
        if rng.random() < 0.3:                       # repetition of a repetition
            self.tags.add("nested_repetition")
            op2 = rng.choice(["*", "+", "?", "{0,2}", "{1,}"])
            if out_nl and op2 in ("*", "+") and rng.random() < 0.75:
                op2 = rng.choice(["?", "{0,2}"])
            out = "(" + out + ")" + op2
            out_nl = out_nl or op2 in ("?", "*", "{0,2}")
        return out, out_nl

    def concat(self, depth: int) -> tuple[str, bool]:
        parts = [self.item(depth) for _ in range(self.rng.choice([1, 1, 2, 2, 3]))]
        return " ".join(p for p, _ in parts), all(n for _, n in parts)

    def expr(self, depth: int) -> tuple[str, bool]:
        n = self.rng.choice([1, 1, 2, 2, 3])
        if n > 1:
            self.tags.add("alternative")
        alts = [self.concat(depth) for _ in range(n)]
        return " | ".join(a for a, _ in alts), any(nl for _, nl in alts)

    def base(self) -> str:
        """an alternative without nonterminals: every rule has one, so every nonterminal is productive
        (`Grammar.prime()` — run by the spec reader — does not return for an unproductive grammar)"""
        ts = []
        for _ in range(self.rng.choice([1, 1, 2])):
            t = self.terminal()
            ts.append("(" + t + ")" + self.rng.choice(["", "", "?", "*"]) if " " in t else t + self.rng.choice(["", "", "", "?", "*"]))
        return " ".join(ts)

    def spec(self) -> str:
        lines = []
        for name in self.names:
            alts = [self.expr(self.rng.choice([1, 1, 2]))[0], self.base()]
            self.rng.shuffle(alts)
            lines.append(f"{name} ::= {' | '.join(alts)}")
        return "\n".join(lines) + "\n"


def stress_spec(rng, mode: Optional[str] = None) -> tuple[str, str, set[str]]:
    mode = mode or rng.choice(["text", "text", "text", "text", "bytes", "bits", "mixed"])
    g = _Stress(rng, mode)
    return g.spec(), mode, g.tags


HANDWRITTEN = [
    ('<start> ::= ("a"?)* "b"\n', "text"),
    ('<start> ::= ("a"?)+ "b"\n', "text"),
    ('<start> ::= ("a"*)* "b"\n', "text"),
    ('<start> ::= ("a" | "")* "b"\n', "text"),
    ('<start> ::= <x>* "b"\n<x> ::= "a"?\n', "text"),
    ('<start> ::= <a>\n<a> ::= <a> | "a"\n', "text"),
    ('<start> ::= <x> "b"\n<x> ::= <y> <x> | ""\n<y> ::= "a" | ""\n', "text"),
    ('<start> ::= <x> "b"\n<x> ::= <x> <y> | ""\n<y> ::= "a" | ""\n', "text"),
    ('<start> ::= <x> "b"\n<x> ::= <x> <x> | "a"\n', "text"),
    ('<start> ::= <b> <a> <b>\n<a> ::= "x"?\n<b> ::= "y"?\n', "text"),
    ('<start> ::= ("a"?){2,} "b"\n', "text"),
    ('<start> ::= ("a"?){0,3} "b"\n', "text"),
    ('<start> ::= "a"+ "a"*\n', "text"),
    ('<start> ::= <x>*\n<x> ::= <start> | "a"\n', "text"),
    ('<start> ::= <a> <a>\n<a> ::= <b>?\n<b> ::= <a> | "x"\n', "text"),
    ('<start> ::= 0 b"a" 0 0 0 0 0 0 0\n', "bits"),
    ('<start> ::= 0 1 1 0 0 0 0 1 b"b"\n', "bits"),
    ('<start> ::= (0 | 1){8} b"b"?\n', "bits"),
    ('<start> ::= r"a*" "b"\n', "text"),
    ('<start> ::= (b"a" | b"ab")+ rb"[bc]*"\n', "bytes"),
]


def preset_spec(rng) -> tuple[str, str, set[str]]:
    """a grammar from the shared generator `harness.gen.grammars` (owned by another builder: its API is used
    defensively, any failure falls back to the stress generator)"""
    try:
        cls = rng.choice(["text", "regex", "bytes", "bits", "recursive"])
        opts = {"nested_reps": rng.random() < 0.5, "empty_regex": rng.random() < 0.3}
        d = shared.gen_spec(rng, cls, **opts)
        mode = "text" if d["kind"] == "str" else ("bits" if cls == "bits" else "bytes")
        return d["spec"], mode, {"shared:" + cls}
    except Exception:  # noqa
        return stress_spec(rng)


def corner_specs() -> list[tuple[str, str]]:
    try:
        return [(s, "text" if k == "str" else "bytes") for s, k in shared.CORNER_SPECS]
    except Exception:  # noqa
        return []


# ------------------------------------------------------------------------------------------------
# words from the IR (independent of fandango's fuzzer)
# ------------------------------------------------------------------------------------------------

def _bits_of_cells(cells: list[int]) -> str:
    return "".join(f"{c & 0xff:08b}" for c in cells)


class _Deriver:
    def __init__(self, gj: dict, regexes: list, rng):
        self.rules = {n: body for n, body in gj["rules"]}
        self.regexes = regexes
        self.rng = rng
        self.budget = 0

    def node(self, n: list, depth: int) -> Optional[str]:
        """bit string of one derivation of the node, None = gave up"""
        rng = self.rng
        self.budget -= 1
        if self.budget < 0 or depth > 10:
            return None
        tag = n[0]
        if tag == "lit":
            kind, payload = n[1]
            if kind == "i":
                return str(payload)
            return _bits_of_cells(payload)
        if tag == "re":
            pat = self.regexes[n[1]]
            src = pat if isinstance(pat, str) else pat.decode("latin-1")
            if src in RE_SAMPLES:
                return _bits_of_cells([ord(c) for c in rng.choice(RE_SAMPLES[src])])
            try:
                import exrex
                return _bits_of_cells([ord(c) & 0xff for c in exrex.getone(src, limit=3)])
            except Exception:  # noqa
                return None
        if tag == "nt":
            body = self.rules.get(n[1])
            return None if body is None else self.node(body, depth + 1)
        if tag == "alt":
            order = list(n[2])
            rng.shuffle(order)
            for a in order:
                r = self.node(a, depth + 1)
                if r is not None:
                    return r
            return None
        if tag == "cat":
            out = ""
            for c in n[2]:
                r = self.node(c, depth + 1)
                if r is None:
                    return None
                out += r
            return out
        if tag == "rep":
            lo, hi = n[4], n[5]
            hi = lo + 2 if hi is None else min(hi, lo + 2)
            k = rng.randint(lo, max(lo, hi))
            if depth > 5:
                k = lo
            out = ""
            for _ in range(k):
                r = self.node(n[3], depth + 1)
                if r is None:
                    return None
                out += r
            return out
        return None


def ir_words(gj: dict, regexes: list, start: str, rng, n: int, as_bytes: bool, max_cells: int) -> list:
    d = _Deriver(gj, regexes, rng)
    out = []
    for _ in range(n * 3):
        d.budget = 60
        bits = d.node(["nt", start, None, None], 0)
        if bits is None:
            continue
        if len(bits) % 8:
            bits += "".join(str(rng.randint(0, 1)) for _ in range(8 - len(bits) % 8))
        cells = [int(bits[i:i + 8], 2) for i in range(0, len(bits), 8)]
        if len(cells) > max_cells:
            continue
        out.append(bytes(cells) if as_bytes else "".join(chr(c) for c in cells))
        if len(out) >= n:
            break
    return out


def alphabet_of(gj: dict, as_bytes: bool) -> list[int]:
    cells: set[int] = set()

    def walk(n):
        if n[0] == "lit" and n[1][0] in ("t", "b"):
            cells.update(c & 0xff if as_bytes else c for c in n[1][1])
        elif n[0] in ("alt", "cat"):
            for c in n[2]:
                walk(c)
        elif n[0] == "rep":
            walk(n[3])

    for _, body in gj["rules"]:
        walk(body)
    cells.update([97, 98])
    if as_bytes:
        cells.update([0, 0x61])
    return sorted(cells)


def near_misses(word, alphabet: list[int], rng, n: int) -> list:
    as_bytes = isinstance(word, bytes)
    cells = list(word) if as_bytes else [ord(c) for c in word]
    out = []
    for _ in range(n):
        c = list(cells)
        op = rng.choice(["del", "ins", "sub", "swap", "trunc", "ext"])
        if op == "del" and c:
            del c[rng.randrange(len(c))]
        elif op == "ins":
            c.insert(rng.randint(0, len(c)), rng.choice(alphabet))
        elif op == "sub" and c:
            c[rng.randrange(len(c))] = rng.choice(alphabet)
        elif op == "swap" and len(c) > 1:
            i = rng.randrange(len(c) - 1)
            c[i], c[i + 1] = c[i + 1], c[i]
        elif op == "trunc" and c:
            c = c[:rng.randrange(len(c))]
        else:
            c.append(rng.choice(alphabet))
        out.append(bytes(c) if as_bytes else "".join(chr(x) for x in c))
    return out


def random_words(alphabet: list[int], rng, n: int, as_bytes: bool, max_cells: int) -> list:
    out = []
    for _ in range(n):
        c = [rng.choice(alphabet) for _ in range(rng.randint(0, max_cells))]
        out.append(bytes(c) if as_bytes else "".join(chr(x) for x in c))
    return out


def inputs_for(gj: dict, regexes: list, start: str, mode: str, rng, n: int, max_cells: int) -> list[tuple[Any, str]]:
    """[(word, origin)]; `mode` text -> str inputs, everything else -> bytes inputs"""
    as_bytes = mode != "text"
    alpha = alphabet_of(gj, as_bytes)
    words = ir_words(gj, regexes, start, rng, max(1, n // 2), as_bytes, max_cells)
    out: list[tuple[Any, str]] = [(w, "derived") for w in words]
    base = words or [b"" if as_bytes else ""]
    for w in near_misses(rng.choice(base), alpha, rng, max(1, n // 3)):
        out.append((w, "near_miss"))
    for w in random_words(alpha, rng, max(1, n - len(out)), as_bytes, max_cells):
        out.append((w, "random"))
    seen = set()
    uniq = []
    for w, o in out:
        if len(w) > max_cells or w in seen:
            continue
        seen.add(w)
        uniq.append((w, o))
    return uniq[:n]
