"""Seeded generator of small Fandango specs (grammar text) for the parser properties (C13, C05).

gen_spec(rng, cls, **opts) -> {"spec": str, "cls": cls, "kind": "str"|"bytes", "features": [..]}

Classes
  text      literals of length >= 3 (cuts inside), multi-byte characters, alternatives sharing prefixes,
            optional tails, repetitions
  regex     text + regex terminals (r"[0-9]+", r"ab*c", r"[a-z]{2}", r"x[0-9]")
  bytes     bytes literals (incl. >= 0x80), bytes regexes, ASCII text literals next to bytes
  bits      bit terminals in groups of eight next to bytes literals
  recursive text + a recursive rule
Options (used by C05)
  empty_regex=True     allow regexes that match the empty string (r"[0-9]*", r"a?")
  nonascii_binary=True allow non-ASCII text literals inside bytes/bit grammars
  nested_reps=True     more bounded repetitions {n}, {n,m}, {n,}, nested
Nullable sub-expressions are never put under `*`, `+`, `{n,}` (that class diverges: C06's finding).
"""
from __future__ import annotations

TEXT_LITS = ['"abc"', '"hello"', '"abd"', '"ab"', '"xyz"', '"é€"', '"ß日"', '"a"', '"-"']
TEXT_RE = ['r"[0-9]+"', 'r"ab*c"', 'r"[a-z]{2}"', 'r"x[0-9]"']
TEXT_RE_EMPTY = ['r"[0-9]*"', 'r"a?"', 'r"(xy)*"']
BYTE_LITS = ['b"\\x00\\xff\\x10"', 'b"abc"', 'b"\\xc3\\xa9"', 'b"\\x7f"', 'b"\\xff"', 'b"ab"']
BYTE_RE = ['rb"[a-c]+"', 'rb"\\x01[\\x00-\\xff]"', 'rb"[\\x80-\\xff]{2}"']
BYTE_TEXT = ['"ab"', '"xyz"', '"q"']
BYTE_TEXT_NONASCII = ['"é"', '"ß€"']
BIT_BYTES = ["0 1 0 0 0 0 0 1", "1 1 1 1 0 0 0 0", "<bit>{8}", "<bit>{4} 1 0 1 0", "0 <bit>{7}",
             "<bit> <bit> <bit> <bit> <bit> <bit> <bit> <bit>"]


class _G:
    def __init__(self, rng, cls, opts):
        self.rng, self.cls, self.opts = rng, cls, opts
        self.rules: list[tuple[str, str]] = []
        self.features: set[str] = set()
        self.nts = 0
        self.need_bit = False

    def atom(self):
        """-> (text, nullable)"""
        r, cls = self.rng, self.cls
        if cls in ("text", "recursive"):
            return r.choice(TEXT_LITS), False
        if cls == "regex":
            x = r.random()
            if x < 0.45:
                self.features.add("regex")
                return r.choice(TEXT_RE), False
            if x < 0.6 and self.opts.get("empty_regex"):
                self.features.add("regex")
                self.features.add("empty-regex")
                return r.choice(TEXT_RE_EMPTY), True
            return r.choice(TEXT_LITS), False
        if cls == "bytes":
            x = r.random()
            if x < 0.5:
                return r.choice(BYTE_LITS), False
            if x < 0.7:
                self.features.add("regex")
                return r.choice(BYTE_RE), False
            if x < 0.8 and self.opts.get("nonascii_binary"):
                self.features.add("nonascii-text-in-binary")
                return r.choice(BYTE_TEXT_NONASCII), False
            self.features.add("text-in-binary")
            return r.choice(BYTE_TEXT), False
        if cls == "bits":
            x = r.random()
            if x < 0.6:
                t = r.choice(BIT_BYTES)
                if "<bit>" in t:
                    self.need_bit = True
                self.features.add("bits")
                return "(" + t + ")", False
            if x < 0.7 and self.opts.get("nonascii_binary"):
                self.features.add("nonascii-text-in-binary")
                return r.choice(BYTE_TEXT_NONASCII), False
            return r.choice(BYTE_LITS), False
        raise ValueError(cls)

    def item(self, depth):
        r = self.rng
        x = r.random()
        if depth >= 2 or x < 0.35:
            return self.atom()
        if x < 0.45:
            t, _ = self.item(depth + 1)
            self.features.add("opt")
            return f"({t})?", True
        if x < 0.55:
            t, n = self.item(depth + 1)
            if n:
                return t, n
            op = r.choice(["*", "+"])
            self.features.add("star" if op == "*" else "plus")
            return f"({t}){op}", op == "*"
        if x < 0.7:
            t, n = self.item(depth + 1)
            form = r.choice(["n", "nm", "n,"] if self.opts.get("nested_reps") else ["n", "nm"])
            lo = r.choice([0, 1, 2, 2, 3])
            if form == "n":
                lo = max(lo, 1)
                self.features.add("rep-n")
                return f"({t}){{{lo}}}", n
            if form == "nm":
                hi = lo + r.choice([0, 1, 2])
                hi = max(hi, 1)
                self.features.add("rep-nm")
                return f"({t}){{{lo},{hi}}}", n or lo == 0
            if n:
                return t, n
            self.features.add("rep-open")
            return f"({t}){{{lo},}}", lo == 0
        if x < 0.85:
            a, na = self.seq(depth + 1, 2)
            b, nb = self.seq(depth + 1, 2)
            self.features.add("alt")
            if self.cls in ("text", "regex", "recursive") and r.random() < 0.5:
                # alternatives sharing a prefix
                self.features.add("shared-prefix")
                return '("abc" | "abd" | "ab" | ' + a + ")", na
            return f"({a} | {b})", na or nb
        # a named rule
        self.nts += 1
        name = f"<n{self.nts}>"
        body, n = self.seq(depth + 1, 3)
        self.rules.append((name, body))
        self.features.add("nonterminal")
        return name, n

    def seq(self, depth, maxlen):
        k = self.rng.randint(1, maxlen)
        parts, nullable = [], True
        for _ in range(k):
            t, n = self.item(depth)
            parts.append(t)
            nullable = nullable and n
        return " ".join(parts), nullable


def gen_spec(rng, cls: str, **opts) -> dict:
    g = _G(rng, cls, opts)
    body, _ = g.seq(0, 3)
    rules = [("<start>", body)]
    if cls == "recursive":
        form = rng.choice(["nest", "right", "left"])
        g.features.add("recursion-" + form)
        if form == "nest":
            rules = [("<start>", body + " <r>"), ("<r>", '"(" <r> ")" | "x"')]
        elif form == "right":
            rules = [("<start>", body + " <r>"), ("<r>", '"ab" <r> | "c"')]
        else:
            rules = [("<start>", "<r> " + body), ("<r>", '<r> "+" "n" | "n"')]
    rules += g.rules
    if g.need_bit:
        rules.append(("<bit>", "0 | 1"))
    spec = "".join(f"{n} ::= {b}\n" for n, b in rules)
    kind = "str" if cls in ("text", "regex", "recursive") else "bytes"
    return {"spec": spec, "cls": cls, "kind": kind, "features": sorted(g.features)}


# hand-written corner cases every run starts with (spec, kind)
CORNER_SPECS = [
    ('<start> ::= "abc" "d"?\n', "str"),
    ('<start> ::= "hello" | "help" | "he"\n', "str"),
    ('<start> ::= r"[0-9]+" "x"\n', "str"),
    ('<start> ::= r"ab*c" r"ab*c"\n', "str"),
    ('<start> ::= ("ab")* "abc"\n', "str"),
    ('<start> ::= "é€" "日本" "x"?\n', "str"),
    ('<start> ::= <n> | <n> <n>\n<n> ::= r"[0-9]+"\n', "str"),
    ('<start> ::= b"\\x00\\xff\\x10" b"ab"{1,2}\n', "bytes"),
    ('<start> ::= b"\\xc3\\xa9" "ab" rb"[a-c]+"\n', "bytes"),
    ('<start> ::= <byte> b"\\xff" <byte>\n<byte> ::= <bit>{8}\n<bit> ::= 0 | 1\n', "bytes"),
    ('<start> ::= 0 1 0 0 0 0 0 1 b"ab" (1 1 1 1 0 0 0 0)?\n', "bytes"),
    ('<start> ::= "a" "" "b" <e> "c"\n<e> ::= "" | "x"\n', "str"),
    ('<start> ::= "(" <start> ")" | "x"\n', "str"),
    ('<start> ::= ("ab" | "a") ("b" | "bc") "c"?\n', "str"),
]
