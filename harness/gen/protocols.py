"""Seeded generator of protocol specs (shared by C19 and C20).

A spec is generated as a small AST, printed in Fandango's spec syntax (`<Sender:Recipient:type>`),
followed by the message content rules and the party classes (Python part of the spec, the way
tests/resources/minimal_io.fan defines them).

expr := ("msg", sender, recipient, type) | ("nt", name) | ("seq", [expr…]) | ("alt", [expr…])
      | ("opt", e) | ("star", e) | ("plus", e) | ("rep", e, n, m|None|"exact")

Invariants kept by construction (so that the model's hypotheses hold and the parser terminates):
  * no left recursion: a nonterminal in head position refers to a *later* nonterminal only; a
    self/backward reference is always preceded by a message (right recursion as in FTP/SMTP specs)
  * every nonterminal has a non-recursive alternative (productive)
  * the body of an unbounded repetition is not nullable (C06/F9: `("a"?)*` diverges in the parser)
"""
from __future__ import annotations

from typing import Any, Optional

PARTY_NAMES = ["Fz", "Ex", "Th"]


def nullable(e, nts_nullable: dict) -> bool:
    k = e[0]
    if k == "msg":
        return False
    if k == "nt":
        return nts_nullable.get(e[1], False)
    if k == "seq":
        return all(nullable(x, nts_nullable) for x in e[1])
    if k == "alt":
        return any(nullable(x, nts_nullable) for x in e[1])
    if k in ("opt", "star"):
        return True
    if k == "plus":
        return nullable(e[1], nts_nullable)
    if k == "rep":
        return e[2] == 0 or nullable(e[1], nts_nullable)
    raise AssertionError(k)


class ProtoGen:
    def __init__(self, rng, n_parties: int = 2, n_types: int = 4, n_nts: int = 2, max_depth: int = 3,
                 pairs: Optional[list] = None):
        self.rng = rng
        self.parties = PARTY_NAMES[:n_parties]
        self.types = [f"m{i}" for i in range(n_types)]
        self.nts = [f"s{i}" for i in range(1, n_nts + 1)]
        self.max_depth = max_depth
        # allowed (sender, recipient) pairs
        self.pairs = pairs or [(a, b) for a in self.parties for b in self.parties if a != b]
        self.nts_nullable: dict[str, bool] = {}

    # ---- expressions
    def msg(self):
        s, r = self.rng.choice(self.pairs)
        return ("msg", s, r, self.rng.choice(self.types))

    def expr(self, depth: int, later: list[str], consuming: bool = False):
        """later: nonterminals that may be referenced anywhere (acyclic references)"""
        rng = self.rng
        if depth <= 0:
            if later and rng.random() < 0.25:
                nt = rng.choice(later)
                if not (consuming and self.nts_nullable.get(nt, False)):
                    return ("nt", nt)
            return self.msg()
        r = rng.random()
        if r < 0.22:
            return self.msg()
        if r < 0.30 and later:
            nt = rng.choice(later)
            if not (consuming and self.nts_nullable.get(nt, False)):
                return ("nt", nt)
            return self.msg()
        if r < 0.55:
            n = rng.choice([2, 2, 3])
            items = [self.expr(depth - 1, later) for _ in range(n)]
            if consuming and all(nullable(x, self.nts_nullable) for x in items):
                items[rng.randrange(n)] = self.expr(depth - 1, later, consuming=True)
            return ("seq", items)
        if r < 0.72:
            n = rng.choice([2, 2, 3])
            return ("alt", [self.expr(depth - 1, later, consuming) for _ in range(n)])
        if r < 0.80:
            if consuming:
                return self.expr(depth - 1, later, True)
            return ("opt", self.expr(depth - 1, later, consuming=True))
        if r < 0.86:
            if consuming:
                return ("plus", self.rep_body(depth - 1, later))
            return ("star", self.rep_body(depth - 1, later))
        if r < 0.91:
            return ("plus", self.rep_body(depth - 1, later))
        # bounded / open braces
        body = self.rep_body(depth - 1, later)
        kind = rng.random()
        lo = rng.choice([0, 1, 1, 2]) if not consuming else rng.choice([1, 1, 2])
        if kind < 0.3:
            n = max(lo, 1)
            return ("rep", body, n, "exact")
        if kind < 0.8:
            hi = lo + rng.choice([0, 1, 2]) if lo > 0 else rng.choice([1, 2, 3])
            return ("rep", body, lo, hi)
        return ("rep", body, lo, None)

    def rep_body(self, depth: int, later: list[str]):
        """body of a repetition: consuming, and not itself a repetition (`(x+)+` has exponentially many
        derivations, every one of which the forecaster walks)"""
        body = self.expr(depth, later, consuming=True)
        if body[0] in ("opt", "star", "plus", "rep"):
            body = ("seq", [self.msg(), body])
        return body

    def grammar(self) -> dict:
        """rules: list of (name, expr); '<start>' first"""
        rng = self.rng
        rules: dict[str, Any] = {}
        order = list(self.nts)
        # define later nonterminals first so that their nullability is known
        for i in range(len(order) - 1, -1, -1):
            nt = order[i]
            later = order[i + 1:]
            if rng.random() < 0.5:
                # state-machine style with right recursion: (msgs <nt> | msgs <other> | exit)
                alts = []
                for _ in range(rng.choice([1, 2])):
                    pre = [self.msg() for _ in range(rng.choice([1, 2]))]
                    alts.append(("seq", pre + [("nt", rng.choice([nt] + order))]))
                exit_ = self.expr(1, later, consuming=rng.random() < 0.8)
                alts.insert(rng.randrange(len(alts) + 1), exit_)
                rules[nt] = ("alt", alts)
                self.nts_nullable[nt] = nullable(exit_, self.nts_nullable)
            else:
                rules[nt] = self.expr(self.max_depth - 1, later)
                self.nts_nullable[nt] = nullable(rules[nt], self.nts_nullable)
        start = self.expr(self.max_depth, order)
        out = [("start", start)] + [(nt, rules[nt]) for nt in order]
        return {"rules": out, "parties": list(self.parties), "types": list(self.types)}


def hide_helper(g: dict, rng, hidden_parties: list[str]) -> Optional[str]:
    """rewrite the messages of one helper nonterminal so that they travel between `hidden_parties` only (fresh
    message types `h<i>`): slicing to the other parties deletes the helper's rule, or what is left of it after
    its own invisible parts are gone, in a later round of `slice_parties`.  Returns the helper's name."""
    helpers = [name for name, _ in g["rules"] if name != "start"]
    if not helpers or len(hidden_parties) < 2:
        return None
    victim = rng.choice(helpers)
    pairs = [(a, b) for a in hidden_parties for b in hidden_parties if a != b]
    fresh: dict = {}

    def rw(e):
        k = e[0]
        if k == "msg":
            t = fresh.setdefault(e[3], f"h{len(fresh)}")
            s, r = pairs[len(fresh) % len(pairs)] if t not in rw.pair else rw.pair[t]
            rw.pair[t] = (s, r)
            return ("msg", s, r, t)
        if k == "nt":
            return e
        if k in ("seq", "alt"):
            return (k, [rw(x) for x in e[1]])
        return (k, rw(e[1])) + tuple(e[2:])
    rw.pair = {}
    g["rules"] = [(name, rw(e) if name == victim else e) for name, e in g["rules"]]
    return victim


# ---- printing

def show(e, top: bool = False) -> str:
    k = e[0]
    if k == "msg":
        return f"<{e[1]}:{e[2]}:{e[3]}>" if e[2] is not None else f"<{e[1]}:{e[3]}>"
    if k == "nt":
        return f"<{e[1]}>"
    if k == "seq":
        s = " ".join(show(x) for x in e[1])
        return s if top else f"({s})"
    if k == "alt":
        s = " | ".join(show(x, top=False) if x[0] != "seq" else " ".join(show(y) for y in x[1]) for x in e[1])
        return s if top else f"({s})"
    op = {"opt": "?", "star": "*", "plus": "+"}.get(k)
    inner = show(e[1])
    if e[1][0] in ("opt", "star", "plus", "rep"):
        inner = f"({inner})"
    if op:
        return inner + op
    lo, hi = e[2], e[3]
    if hi == "exact":
        return f"{inner}{{{lo}}}"
    if hi is None:
        return f"{inner}{{{lo},}}"
    return f"{inner}{{{lo},{hi}}}"


def party_classes(parties: list[str], fuzzer: list[str], body: Optional[dict] = None) -> str:
    out = []
    for p in parties:
        mode = "OPEN" if p in fuzzer else "EXTERNAL"
        extra = (body or {}).get(p, "")
        out.append(
            f"class {p}(FandangoParty):\n"
            f"    def __init__(self):\n"
            f"        super().__init__(connection_mode=ConnectionMode.{mode})\n"
            f"    def send(self, message, recipient):\n"
            f"        pass\n"
            f"    def start(self):\n"
            f"        pass\n"
            f"    def stop(self):\n"
            f"        pass\n" + extra)
    return "\n".join(out)


def content_rules(types: list[str], contents: Optional[dict] = None) -> str:
    out = []
    for t in types:
        c = (contents or {}).get(t)
        out.append(f"<{t}> ::= {c}" if c is not None else f"<{t}> ::= '{t};'")
    return "\n".join(out)


def spec_text(g: dict, fuzzer: Optional[list[str]] = None, contents: Optional[dict] = None,
              constraints: str = "", party_body: Optional[dict] = None) -> str:
    fuzzer = g["parties"] if fuzzer is None else fuzzer
    lines = [f"<{name}> ::= {show(e, top=True)}" for name, e in g["rules"]]
    return "\n".join(lines) + "\n" + content_rules(sorted(used_types(g)), contents) + "\n" + constraints + "\n\n" + \
        party_classes(g["parties"], fuzzer, party_body) + "\n"


def used_types(g: dict) -> set:
    out = set()

    def walk(e):
        if e[0] == "msg":
            out.add(e[3])
        elif e[0] in ("seq", "alt"):
            for x in e[1]:
                walk(x)
        elif e[0] != "nt":
            walk(e[1])
    for _, e in g["rules"]:
        walk(e)
    return out
