"""Seeded, grammar-based generators of Python text for C08.

* `core_expr(rng, depth)`      expressions of the Lean-modelled fragment (Model/PyExpr.lean), written by
                               walking the levels of FandangoParser.g4 (`expression` … `atom`), with
                               surface variation (spacing, redundant groups, number bases, quote styles)
* `core_env(rng)`              an environment for them (ints, bools, str, tuples, list, None, functions)
* `Prog(rng)`                  programs over the subset the spec language admits: every statement kind,
                               every parameter kind, lambdas, comprehensions, f-strings, all literals …
                               (`.program()` a module body, `.expression(holes=…)` an expression with
                               optional `<symbol>` selector holes for constraints / generators / bounds)
All choices come from the `random.Random` handed in.
"""
from __future__ import annotations

from typing import Optional

# ------------------------------------------------------------------------------------------------
# core fragment (Lean tie)
# ------------------------------------------------------------------------------------------------

INT_NAMES = ["a", "b", "c"]
BOOL_NAMES = ["p", "q"]
STR_NAMES = ["s", "w"]
TUP_NAMES = ["t", "v"]
OTHER_NAMES = ["l", "n", "f", "g", "h", "len", "u"]     # list, None, pack, len, abs, len, undefined
ALL_NAMES = INT_NAMES + BOOL_NAMES + STR_NAMES + TUP_NAMES + OTHER_NAMES

CMP_OPS = ["==", "!=", "<", "<=", ">", ">=", "in", "not in", "is", "is not", "<>"]


def _sp(r) -> str:
    x = r.random()
    return "" if x < 0.15 else (" " if x < 0.9 else "  ")


def _op(r, op: str) -> str:
    if op.isalpha() or " " in op:
        return f" {op} "
    return f"{_sp(r)}{op}{_sp(r)}"


def core_int(r) -> str:
    v = r.choice([0, 1, 2, 3, 5, 7, 10, 64, 255, r.randint(0, 40)])
    k = r.random()
    if k < 0.7:
        return str(v)
    if k < 0.8:
        return hex(v) if r.random() < 0.5 else "0X%X" % v
    if k < 0.9:
        return oct(v)
    return bin(v)


def core_str(r) -> str:
    body = r.choice(["", "a", "ab", "b", "xyz", "a b", "é", "\\n", "\\x41", "\\u00e9", "\\\\", "\\'", "0"])
    q = r.choice(["'", '"'])
    if body == "\\'" and q == '"':
        body = "'"
    pre = r.choice(["", "", "", "r", "u", "R"]) if "\\" not in body or r.random() < 0.3 else ""
    if pre.lower() == "r" and body.endswith("\\") and not body.endswith("\\\\"):
        pre = ""
    return f"{pre}{q}{body}{q}"


def core_atom(r, d: int, hint: str = "any") -> str:
    k = r.random()
    if d <= 0 or k < 0.45:
        j = r.random()
        if hint == "num" and j < 0.9:
            return r.choice(INT_NAMES + BOOL_NAMES) if j < 0.55 else core_int(r)
        if hint == "seq" and j < 0.9:
            return r.choice(TUP_NAMES + STR_NAMES + ["l"])
        if hint == "fn" and j < 0.9:
            return r.choice(["f", "f", "g", "h", "len"])
        if j < 0.55:
            return r.choice(ALL_NAMES if r.random() < 0.85 else INT_NAMES)
        if j < 0.8:
            return core_int(r)
        if j < 0.9:
            return core_str(r)
        return r.choice(["True", "False", "None", "None", "..."])
    if k < 0.65:
        return f"({_sp(r)}{core_expr(r, d - 1, hint)}{_sp(r)})"
    if k < 0.82:
        n = r.choice([0, 2, 2, 3])
        if n == 0:
            return "()"
        items = [core_expr(r, d - 1) for _ in range(n)]
        return "(" + ", ".join(items) + (", " if r.random() < 0.2 else "") + ")"
    n = r.choice([0, 1, 2, 3])
    items = [core_expr(r, d - 1) for _ in range(n)]
    return "[" + ", ".join(items) + ("," if n and r.random() < 0.2 else "") + "]"


def core_args(r, d: int) -> str:
    n = r.choice([0, 1, 1, 2, 3, 4])
    pos, kws = [], []
    used = set()
    for _ in range(n):
        k = r.random()
        if k < 0.5:
            pos.append(core_expr(r, d - 1))
        elif k < 0.65:
            pos.append("*" + (core_expr(r, d - 1) if r.random() < 0.3 else r.choice(TUP_NAMES + ["s", "l", "n"])))
        elif k < 0.92:
            name = r.choice(["k", "j", "key", "sep", "x"])
            if name in used:
                continue
            used.add(name)
            kws.append(f"{name}{_sp(r)}={_sp(r)}{core_expr(r, d - 1)}")
        else:
            kws.append("**" + core_expr(r, d - 1))
    # CPython: positional may not follow keyword; `*x` may follow `k=v`; `**m` only at the end-ish
    out = list(pos)
    for kw in kws:
        if kw.startswith("**"):
            out.append(kw)
        else:
            idx = next((i for i, o in enumerate(out) if o.startswith("**")), len(out))
            out.insert(idx, kw)
    if kws and r.random() < 0.3:
        # a starred positional after a keyword (legal: f(k=1, *t))
        idx = next((i for i, o in enumerate(out) if o.startswith("**")), len(out))
        out.insert(idx, "*" + r.choice(TUP_NAMES + ["s", "n"]))
    return ", ".join(out) + (", " if out and r.random() < 0.15 else "")


def core_slice(r, d: int) -> str:
    if r.random() < 0.5:
        return core_expr(r, d - 1, "num")
    lo = core_expr(r, d - 1, "num") if r.random() < 0.6 else ""
    hi = core_expr(r, d - 1, "num") if r.random() < 0.6 else ""
    if r.random() < 0.4:
        st = (core_expr(r, d - 1, "num") if r.random() < 0.5 else r.choice(["1", "2", "-1", "-2", "0"])) if r.random() < 0.7 else ""
        return f"{lo}:{hi}:{st}"
    return f"{lo}:{hi}"


def core_primary(r, d: int, hint: str = "any") -> str:
    n_suffix = r.choice([0, 0, 0, 1, 1, 2]) if d > 0 else 0
    kinds = [r.random() for _ in range(n_suffix)]
    first = "any" if not kinds else ("num" if kinds[0] < 0.25 else "fn" if kinds[0] < 0.6 else "seq")
    p = core_atom(r, d, first if kinds and r.random() < 0.8 else hint)
    if p[:1].isdigit() and r.random() < 0.1:
        p = f"({p})"
    for k in kinds:
        if k < 0.25:
            if p[-1:].isdigit() or p[:1].isdigit():
                p = f"({p})"
            p = p + "." + r.choice(["real", "imag", "numerator", "denominator", "zz"])
        elif k < 0.6:
            p = f"{p}({core_args(r, d)})"
        else:
            n = r.choice([1, 1, 1, 1, 2])
            ss = ", ".join(core_slice(r, d) for _ in range(n))
            if r.random() < 0.12:
                ss += ","
            p = f"{p}[{ss}]"
    return p


def core_power(r, d: int, hint: str = "any") -> str:
    if d > 0 and r.random() < 0.2:
        b = core_primary(r, d, "num")
        if r.random() < 0.06:
            b = "await " + b
        e = core_factor(r, d - 1, "num") if r.random() < 0.5 else r.choice(["2", "3", "0", "-1", "b", "p"])
        return f"{b}{_op(r, '**')}{e}"
    return core_primary(r, d, hint)


def core_factor(r, d: int, hint: str = "any") -> str:
    if d > 0 and r.random() < 0.2:
        return r.choice(["-", "+", "~", "- ", "-"]) + core_factor(r, d - 1, "num" if r.random() < 0.85 else hint)
    return core_power(r, d, hint)


def _left(r, d: int, self_fn, next_fn, ops: list[str], p: float, hint: str) -> str:
    if d > 0 and r.random() < p:
        h = "num" if r.random() < 0.85 else "any"
        return f"{self_fn(r, d - 1, h)}{_op(r, r.choice(ops))}{next_fn(r, d - 1, h)}"
    return next_fn(r, d, hint)


def core_term(r, d: int, hint: str = "any") -> str:
    return _left(r, d, core_term, core_factor, ["*", "/", "//", "%", "@", "*", "//", "%"], 0.25, hint)


def core_sum(r, d: int, hint: str = "any") -> str:
    return _left(r, d, core_sum, core_term, ["+", "-"], 0.3, hint)


def core_shift(r, d: int, hint: str = "any") -> str:
    return _left(r, d, core_shift, core_sum, ["<<", ">>"], 0.1, hint)


def core_band(r, d: int, hint: str = "any") -> str:
    return _left(r, d, core_band, core_shift, ["&"], 0.1, hint)


def core_bxor(r, d: int, hint: str = "any") -> str:
    return _left(r, d, core_bxor, core_band, ["^"], 0.1, hint)


def core_bor(r, d: int, hint: str = "any") -> str:
    return _left(r, d, core_bor, core_bxor, ["|"], 0.1, hint)


def core_comparison(r, d: int, hint: str = "any") -> str:
    if d > 0:
        n = r.choice([0, 0, 0, 1, 1, 2, 3])
        if n:
            h = r.choice(["num", "num", "num", "any", "seq"])
            s = core_bor(r, d - 1, h)
            for _ in range(n):
                op = r.choice(CMP_OPS[:-1])
                if op in ("is", "is not") and r.random() < 0.7:
                    rhs = r.choice(["None", "True", "False", "..."])
                elif op in ("in", "not in") and r.random() < 0.8:
                    rhs = core_bor(r, d - 1, "seq")
                else:
                    rhs = core_bor(r, d - 1, h)
                s += f"{_op(r, op)}{rhs}"
            return s
    return core_bor(r, d, hint)


def core_inversion(r, d: int, hint: str = "any") -> str:
    if d > 0 and r.random() < 0.12:
        return "not " + core_inversion(r, d - 1)
    return core_comparison(r, d, hint)


def core_conjunction(r, d: int, hint: str = "any") -> str:
    n = r.choice([1, 1, 1, 1, 2, 3]) if d > 0 else 1
    return " and ".join(core_inversion(r, d - (1 if n > 1 else 0), hint) for _ in range(n))


def core_disjunction(r, d: int, hint: str = "any") -> str:
    n = r.choice([1, 1, 1, 1, 2, 3]) if d > 0 else 1
    return " or ".join(core_conjunction(r, d - (1 if n > 1 else 0), hint) for _ in range(n))


def core_expr(r, d: int = 4, hint: str = "any") -> str:
    if d > 0 and r.random() < 0.12:
        return f"{core_disjunction(r, d - 1, hint)} if {core_disjunction(r, d - 1)} else {core_expr(r, d - 1, hint)}"
    return core_disjunction(r, d, hint)


def core_env(r) -> dict:
    """name -> python value"""
    ints = [0, 1, 2, 3, -1, -2, 5, 7, 10]
    env = {
        "a": r.choice(ints), "b": r.choice(ints), "c": r.choice(ints),
        "p": r.choice([True, False]), "q": r.choice([True, False]),
        "s": r.choice(["", "a", "ab", "abc", "ba"]), "w": r.choice(["", "b", "ab", "é"]),
        "t": r.choice([(), (1,), (1, 2), (0, "a", None), (3, 2, 1, 0), ((1, 2), 3)]),
        "v": r.choice([(), (1, 2), ("a", "b"), (True,)]),
        "l": r.choice([[], [1], [1, 2, 3], ["a", 0]]),
        "n": None,
    }
    return env


# ------------------------------------------------------------------------------------------------
# programs over the admitted subset (translation validation)
# ------------------------------------------------------------------------------------------------

IDENTS = ["x", "y", "z", "foo", "bar", "_tmp", "data", "i", "j", "k", "cls", "self", "value", "é", "x1", "A", "B"]
SPEC_WORDS = ["any", "all", "len"]       # tokens of the spec language that remain Python identifiers
HOLES = ["<a>", "<b>", "<a>.<b>", "<a>..<c>", "<a>[0]", "<a>.<b>[1]", "*<a>", "<a>.<b>..<c>"]


class Prog:
    def __init__(self, rng, max_depth: int = 3, holes: Optional[list[str]] = None, features: Optional[set] = None):
        self.r = rng
        self.max_depth = max_depth
        self.holes = holes
        self.used_holes: list[str] = []
        self.in_func = False
        self.in_async = False
        self.in_loop = False
        self.in_class = False
        self.feat: dict[str, int] = {}
        self.only = features

    # ---- bookkeeping
    def f(self, name: str) -> None:
        self.feat[name] = self.feat.get(name, 0) + 1

    def ident(self) -> str:
        r = self.r
        if r.random() < 0.04:
            return r.choice(SPEC_WORDS)
        return r.choice(IDENTS)

    # ---- literals
    def number(self) -> str:
        r = self.r
        k = r.random()
        v = r.choice([0, 1, 2, 7, 10, 42, 255, 1000, 65536, 10 ** 12])
        if k < 0.35:
            self.f("int")
            return str(v)
        # (digit-group underscores are exercised by the fixed probes only: the lexer splits such literals and
        #  the way the rest of a random program then re-parses would give the one defect many signatures)
        if k < 0.55:
            self.f("int_base")
            return r.choice([hex(v), oct(v), bin(v), "0XFF", "0o17", "0B101"])
        if k < 0.75:
            self.f("float")
            return r.choice(["1.5", "0.5", ".5", "5.", "1e3", "1E-3", "1.5e+10", "0.0", "1e0"])
        if k < 0.85:
            self.f("complex")
            return r.choice(["2j", "1.5J", "0j", "1e3j", ".5j"])
        self.f("int")
        return str(r.randint(0, 99))

    def string(self) -> str:
        r = self.r
        k = r.random()
        if k < 0.45:
            self.f("str")
            return r.choice(["'a'", '"b"', "'it\\'s'", '"q\\"q"', "''", "'a b  c'", "'\\n\\t'", "'\\x41\\u00e9\\N{BULLET}'",
                             "'é€'", "'#no comment'", "'{not} f'", "'a\\\nb'"])
        if k < 0.55:
            self.f("str_prefix")
            return r.choice(["r'\\d+'", 'R"\\n"', "u'x'", "r'a\\'b'"])
        if k < 0.68:
            self.f("bytes")
            return r.choice(["b'a'", 'B"\\x00\\xff"', "rb'\\d'", "Rb'x'", "br'\\n'", "b''"])
        if k < 0.8:
            self.f("str_triple")
            return r.choice(["'''tri'''", '"""a "quoted" b"""', "'''two\nlines'''", '"""\n  indented\n"""'])
        if k < 0.9:
            self.f("str_concat")
            return r.choice(["'a' 'b'", "'a' \"b\" 'c'", "b'a' b'b'", "'x' r'\\y'", "('a'\n 'b')"])
        return self.fstring()

    def fstring(self, depth: int = 1) -> str:
        r = self.r
        self.f("fstring")
        parts = []
        for _ in range(r.choice([1, 2, 3])):
            k = r.random()
            if k < 0.35:
                parts.append(r.choice(["text", "a b", " ", "x=", "{{", "}}", "%d", "é", "it", ":", "!"]))
            else:
                e = self.expr(0) if r.random() < 0.7 else r.choice(IDENTS)
                if "'" in e or '"' in e or "\n" in e or "\\" in e or "{" in e or "#" in e or "lambda" in e or ":" in e \
                        or "!" in e:
                    e = r.choice(IDENTS)
                conv = r.choice(["", "", "", "!r", "!s", "!a"])
                spec = ""
                if r.random() < 0.35:
                    spec = ":" + r.choice([">10", "<5", "^8", "03d", ".2f", "x", "", ">{w}", "{w}.{p}", " >4", "#x"])
                    if depth > 0 and r.random() < 0.2:
                        spec = ":{" + r.choice(IDENTS) + "}"
                eq = r.choice(["=", " = ", "= "]) if r.random() < 0.2 else ""
                if eq:
                    self.f("fstring_debug")
                sp1 = " " if r.random() < 0.15 else ""
                parts.append("{" + sp1 + e + eq + conv + spec + "}")
        body = "".join(parts)
        q = r.choice(['"', "'"])
        pre = r.choice(["f", "f", "F", "rf", "fr"])
        if r.random() < 0.12:
            self.f("fstring_triple")
            return pre + q * 3 + body + ("\n" if r.random() < 0.5 else "") + "tail" + q * 3
        return pre + q + body + q

    # ---- expressions
    def hole(self) -> str:
        h = self.r.choice(self.holes)
        self.used_holes.append(h)
        self.f("hole")
        return h

    def atom(self, d: int) -> str:
        r = self.r
        if self.holes and r.random() < 0.25:
            return self.hole()
        k = r.random()
        if d <= 0 or k < 0.4:
            j = r.random()
            if j < 0.5:
                return self.ident()
            if j < 0.7:
                return self.number()
            if j < 0.9:
                return self.string()
            return r.choice(["True", "False", "None", "..."])
        if k < 0.5:
            self.f("group")
            return "(" + self.expr(d - 1) + ")"
        if k < 0.6:
            self.f("tuple")
            n = r.choice([0, 1, 2, 3])
            items = [self.star_named(d - 1) for _ in range(n)]
            if n == 1:
                return "(" + items[0] + ",)"
            return "(" + ", ".join(items) + ("," if n and r.random() < 0.2 else "") + ")"
        if k < 0.7:
            self.f("list")
            n = r.choice([0, 1, 2, 3])
            return "[" + ", ".join(self.star_named(d - 1) for _ in range(n)) + ("," if n and r.random() < 0.2 else "") + "]"
        if k < 0.77:
            self.f("dict")
            n = r.choice([0, 1, 2])
            items = []
            for _ in range(n):
                if r.random() < 0.2:
                    items.append("**" + self.bor(d - 1))
                else:
                    items.append(self.expr(d - 1) + ": " + self.expr(d - 1))
            return "{" + ", ".join(items) + ("," if n and r.random() < 0.2 else "") + "}"
        if k < 0.82:
            self.f("set")
            n = r.choice([1, 2, 3])
            return "{" + ", ".join(self.star_named(d - 1) for _ in range(n)) + "}"
        if k < 0.94:
            return self.comprehension(d - 1)
        if self.in_func and r.random() < 0.5:
            self.f("yield_expr")
            return "(yield " + self.expr(d - 1) + ")" if r.random() < 0.7 else "(yield)"
        self.f("walrus")
        return "(" + self.ident() + " := " + self.expr(d - 1) + ")"

    def starred_operand(self, d: int, bor: bool = False) -> str:
        return self.bor(d) if bor else self.expr(d)

    def star_named(self, d: int) -> str:
        if self.r.random() < 0.12:
            self.f("star_in_display")
            return "*" + self.starred_operand(d, True)
        return self.expr(d)

    def comp_for(self, d: int) -> str:
        r = self.r
        out = ""
        for i in range(r.choice([1, 1, 2])):
            tgt = r.choice([self.ident(), f"{self.ident()}, {self.ident()}", f"({self.ident()}, {self.ident()})",
                            f"{self.ident()}, *{self.ident()}", f"[{self.ident()}, {self.ident()}]", f"{self.ident()},"])
            asy = "async " if self.in_async and r.random() < 0.1 else ""
            out += f" {asy}for {tgt} in {self.disj(d)}"
            for _ in range(r.choice([0, 0, 1, 2])):
                out += f" if {self.disj(d)}"
        return out

    def comprehension(self, d: int) -> str:
        r = self.r
        k = r.random()
        self.f("comprehension")
        saved, self.holes = self.holes, None      # symbols inside comprehension scopes are legal but rarely useful
        try:
            if k < 0.35:
                return "[" + self.expr(d) + self.comp_for(d) + "]"
            if k < 0.5:
                return "{" + self.expr(d) + self.comp_for(d) + "}"
            if k < 0.7:
                return "{" + self.expr(d) + ": " + self.expr(d) + self.comp_for(d) + "}"
            if k < 0.85:
                return "(" + self.expr(d) + self.comp_for(d) + ")"
            self.f("genexp_call")
            return self.ident() + "(" + self.expr(d) + self.comp_for(d) + ")"
        finally:
            self.holes = saved

    def args(self, d: int) -> str:
        r = self.r
        n = r.choice([0, 1, 1, 2, 3])
        pos, kws, used = [], [], set()
        for _ in range(n):
            k = r.random()
            if k < 0.5:
                pos.append(self.expr(d))
            elif k < 0.62:
                self.f("star_arg")
                pos.append("*" + self.starred_operand(d))
            elif k < 0.9:
                nm = r.choice(["key", "sep", "end", "k", "default"])
                if nm in used:
                    continue
                used.add(nm)
                self.f("kwarg")
                kws.append(f"{nm}={self.expr(d)}")
            else:
                self.f("dstar_arg")
                kws.append("**" + self.expr(d))
        kws.sort(key=lambda s: s.startswith("**"))
        return ", ".join(pos + kws) + ("," if (pos or kws) and r.random() < 0.15 else "")

    def slices(self, d: int) -> str:
        r = self.r
        out = []
        for _ in range(r.choice([1, 1, 1, 2])):
            if r.random() < 0.5:
                out.append(self.expr(d))
            else:
                self.f("slice")
                lo = self.expr(d) if r.random() < 0.6 else ""
                hi = self.expr(d) if r.random() < 0.6 else ""
                st = (":" + (self.expr(d) if r.random() < 0.7 else "")) if r.random() < 0.35 else ""
                out.append(f"{lo}:{hi}{st}")
        s = ", ".join(out)
        if r.random() < 0.1:
            self.f("slices_trailing_comma")
            s += ","
        return s

    def primary(self, d: int) -> str:
        r = self.r
        p = self.atom(d)
        for _ in range(r.choice([0, 0, 0, 1, 1, 2]) if d > 0 else 0):
            k = r.random()
            if k < 0.3:
                if p[:1].isdigit() or p[:1] == ".":
                    p = "(" + p + ")"
                p += "." + r.choice(["real", "attr", "upper", "x", "append", "any", "len"])
                self.f("attribute")
            elif k < 0.65:
                p += "(" + self.args(d - 1) + ")"
                self.f("call")
            elif not p.rstrip(") ").endswith("\x01"):
                # (`<a>[0]` directly after a selector is the spec language's item selection, not a subscript)
                p += "[" + self.slices(d - 1) + "]"
                self.f("subscript")
        return p

    def power(self, d: int) -> str:
        b = self.primary(d)
        if self.in_async and self.r.random() < 0.08:
            self.f("await")
            b = "await " + b
        if d > 0 and self.r.random() < 0.12:
            self.f("pow")
            return b + " ** " + self.factor(d - 1)
        return b

    def factor(self, d: int) -> str:
        if d > 0 and self.r.random() < 0.12:
            self.f("unary")
            return self.r.choice(["-", "+", "~"]) + self.factor(d - 1)
        return self.power(d)

    def _l(self, d, me, nxt, ops, p, feat):
        if d > 0 and self.r.random() < p:
            self.f(feat)
            return f"{me(d - 1)} {self.r.choice(ops)} {nxt(d - 1)}"
        return nxt(d)

    def term(self, d): return self._l(d, self.term, self.factor, ["*", "/", "//", "%", "@"], 0.15, "term")
    def sum_(self, d): return self._l(d, self.sum_, self.term, ["+", "-"], 0.2, "sum")
    def shift(self, d): return self._l(d, self.shift, self.sum_, ["<<", ">>"], 0.06, "shift")
    def band(self, d): return self._l(d, self.band, self.shift, ["&"], 0.06, "bitand")
    def bxor(self, d): return self._l(d, self.bxor, self.band, ["^"], 0.06, "bitxor")
    def bor(self, d): return self._l(d, self.bor, self.bxor, ["|"], 0.06, "bitor")

    def comparison(self, d: int) -> str:
        s = self.bor(d)
        if d > 0:
            n = self.r.choice([0, 0, 0, 0, 1, 1, 2])
            for _ in range(n):
                s += " " + self.r.choice(CMP_OPS[:-1]) + " " + self.bor(d - 1)
            if n:
                self.f("compare" if n == 1 else "compare_chain")
        return s

    def inversion(self, d: int) -> str:
        if d > 0 and self.r.random() < 0.1:
            self.f("not")
            return "not " + self.inversion(d - 1)
        return self.comparison(d)

    def conj(self, d: int) -> str:
        n = self.r.choice([1, 1, 1, 1, 1, 2, 3]) if d > 0 else 1
        if n > 1:
            self.f("and")
        return " and ".join(self.inversion(d - (1 if n > 1 else 0)) for _ in range(n))

    def disj(self, d: int) -> str:
        n = self.r.choice([1, 1, 1, 1, 1, 2, 3]) if d > 0 else 1
        if n > 1:
            self.f("or")
        return " or ".join(self.conj(d - (1 if n > 1 else 0)) for _ in range(n))

    def lambda_(self, d: int) -> str:
        self.f("lambda")
        saved = self.in_func
        self.in_func = False
        try:
            ps = self.params(d, annotations=False)
            return "lambda" + (" " + ps if ps else "") + ": " + self.expr(d)
        finally:
            self.in_func = saved

    def expr(self, d: Optional[int] = None) -> str:
        if d is None:
            d = self.max_depth
        r = self.r
        if d > 0:
            k = r.random()
            if k < 0.08:
                self.f("ternary")
                return f"{self.disj(d - 1)} if {self.disj(d - 1)} else {self.expr(d - 1)}"
            if k < 0.13:
                return self.lambda_(d - 1)
        return self.disj(d)

    def star_exprs(self, d: int) -> str:
        r = self.r
        k = r.random()
        if k < 0.75:
            return self.expr(d)
        if k < 0.85:
            self.f("bare_tuple")
            return ", ".join(self.expr(d - 1) for _ in range(r.choice([2, 3])))
        if k < 0.92:
            self.f("bare_tuple_trailing")
            return self.expr(d - 1) + ","
        self.f("bare_star")
        return "*" + self.starred_operand(d - 1, True) + ", " + self.expr(d - 1)

    # ---- parameters
    def params(self, d: int, annotations: bool = True) -> str:
        r = self.r
        names = iter(["a", "b", "c", "d", "e", "g", "h", "m", "n2", "o"])

        def p(default: Optional[bool] = None) -> tuple[str, bool]:
            s = next(names)
            if annotations and r.random() < 0.3:
                self.f("param_annotation")
                s += ": " + self.expr(0)
            has = r.random() < 0.4 if default is None else default
            if has:
                s += ("=" if ":" not in s else " = ") + self.expr(min(d, 1))
            return s, has

        out: list[str] = []
        need_default = False
        k = r.random()
        if k < 0.2:
            self.f("param_posonly")
            for _ in range(r.choice([1, 2])):
                s, has = p(True if need_default else None)
                need_default = need_default or has
                out.append(s)
            out.append("/")
        for _ in range(r.choice([0, 1, 1, 2, 3])):
            s, has = p(True if need_default else None)
            if has:
                self.f("param_default")
            need_default = need_default or has
            out.append(s)
        k = r.random()
        star = False
        if k < 0.25:
            self.f("param_varargs")
            nm = "args"
            if annotations and r.random() < 0.2:
                nm += ": " + self.expr(0)
            out.append("*" + nm)
            star = True
        elif k < 0.4:
            self.f("param_kwonly_marker")
            out.append("*")
            s, _ = p(None)
            out.append(s)
            star = True
        if star:
            for _ in range(r.choice([0, 1, 2])):
                self.f("param_kwonly")
                s, _ = p(None)
                out.append(s)
        if r.random() < 0.2:
            self.f("param_kwargs")
            nm = "kw"
            if annotations and r.random() < 0.2:
                nm += ": " + self.expr(0)
            out.append("**" + nm)
        s = ", ".join(out)
        if out and out[-1] != "*" and r.random() < 0.1:
            s += ","
        return s

    # ---- targets
    def target(self, d: int) -> str:
        r = self.r
        k = r.random()
        if k < 0.6:
            return self.ident()
        if k < 0.75:
            self.f("target_attr")
            return self.ident() + "." + r.choice(["x", "attr"])
        if k < 0.9:
            self.f("target_subscript")
            return self.ident() + "[" + self.slices(0) + "]"
        self.f("target_seq")
        inner = ", ".join(self.ident() for _ in range(r.choice([1, 2])))
        return r.choice(["(" + inner + ",)", "[" + inner + "]"])

    def targets(self, d: int) -> str:
        r = self.r
        k = r.random()
        if k < 0.65:
            return self.target(d)
        if k < 0.85:
            self.f("target_tuple")
            return ", ".join(self.target(d) for _ in range(r.choice([2, 3])))
        if k < 0.93:
            self.f("target_star")
            return self.ident() + ", *" + self.ident()
        self.f("target_trailing")
        return self.ident() + ","

    # ---- statements
    def block(self, d: int, ind: str) -> str:
        n = self.r.choice([1, 1, 2, 3])
        return "".join(self.stmt(d, ind) for _ in range(n))

    def simple(self, d: int) -> str:
        r = self.r
        k = r.random()
        e = lambda: self.expr(min(d, 2))  # noqa: E731
        if k < 0.22:
            self.f("assign")
            return self.targets(d) + " = " + (self.targets(d) + " = " if r.random() < 0.15 else "") + self.star_exprs(min(d, 2))
        if k < 0.3:
            self.f("augassign")
            return self.target(d).replace("(", "").replace(",)", "").replace("[", "").replace("]", "") .split(",")[0] + " " + \
                r.choice(["+=", "-=", "*=", "/=", "//=", "%=", "@=", "&=", "|=", "^=", "<<=", ">>=", "**="]) + " " + e()
        if k < 0.36:
            self.f("annassign")
            return self.ident() + ": " + self.expr(0) + (" = " + e() if r.random() < 0.6 else "")
        if k < 0.5:
            self.f("expr_stmt")
            return self.star_exprs(min(d, 2))
        if k < 0.56 and self.in_func:
            self.f("return")
            return "return" + (" " + self.star_exprs(min(d, 2)) if r.random() < 0.8 else "")
        if k < 0.6 and self.in_func:
            self.f("yield")
            return r.choice(["yield", "yield " + e(), "yield from " + e(), "yield " + e() + ", " + e()])
        if k < 0.64:
            self.f("pass")
            return "pass"
        if k < 0.68 and self.in_loop:
            self.f("break_continue")
            return r.choice(["break", "continue"])
        if k < 0.73:
            self.f("del")
            return "del " + ", ".join(r.choice([self.ident(), self.ident() + "[0]", self.ident() + ".x",
                                                "(" + self.ident() + ", " + self.ident() + ")"]) for _ in range(r.choice([1, 2])))
        if k < 0.78:
            self.f("assert")
            return "assert " + e() + (", " + e() if r.random() < 0.5 else "")
        if k < 0.83:
            self.f("raise")
            return r.choice(["raise", "raise " + e(), "raise " + e() + " from " + e()])
        if k < 0.87 and self.in_func:
            self.f("global_nonlocal")
            return "global g1" + (", g2" if r.random() < 0.4 else "")
        if k < 0.97:
            return self.import_()
        self.f("type_alias")
        return "type " + r.choice(["X", "Y"]) + " = " + self.expr(0)

    def import_(self) -> str:
        r = self.r
        k = r.random()
        if k < 0.4:
            self.f("import")
            mods = [r.choice(["os", "os.path", "a.b.c", "sys"]) + (" as " + self.ident() if r.random() < 0.4 else "")
                    for _ in range(r.choice([1, 1, 2]))]
            return "import " + ", ".join(mods)
        self.f("import_from")
        level = r.choice(["", "", ".", "..", "...", "...."])
        if level:
            self.f("import_relative")
        mod = r.choice(["os", "a.b", "pkg"]) if (not level or r.random() < 0.6) else ""
        names = [r.choice(["p", "q", "r"]) + (" as " + self.ident() if r.random() < 0.4 else "") for _ in range(r.choice([1, 2]))]
        if r.random() < 0.1 and not self.in_func and not self.in_class:
            self.f("import_star")
            tail = "*"
        elif r.random() < 0.3:
            self.f("import_paren")
            tail = "(" + ", ".join(names) + ("," if r.random() < 0.5 else "") + ")"
        else:
            tail = ", ".join(names)
        return f"from {level}{mod} import {tail}"

    def stmt(self, d: int, ind: str) -> str:
        r = self.r
        if d <= 0 or r.random() < 0.55:
            n = r.choice([1, 1, 1, 2])
            if n == 1:
                return ind + self.simple(d) + (r.choice(["", "  # comment", " ", ";"]) if r.random() < 0.2 else "") + "\n"
            self.f("semicolons")
            return ind + "; ".join(self.simple(d) for _ in range(n)) + "\n"
        return self.compound(d, ind)

    def suite(self, d: int, ind: str) -> str:
        if self.r.random() < 0.15:
            self.f("inline_suite")
            return " " + self.simple(d - 1) + "\n"
        return "\n" + self.block(d - 1, ind + "    ")

    def compound(self, d: int, ind: str) -> str:
        r = self.r
        k = r.random()
        if k < 0.2:
            return self.funcdef(d, ind)
        if k < 0.32:
            self.f("if")
            s = ind + "if " + self.named(d) + ":" + self.suite(d, ind)
            for _ in range(r.choice([0, 0, 1, 2])):
                self.f("elif")
                s += ind + "elif " + self.named(d) + ":" + self.suite(d, ind)
            if r.random() < 0.5:
                self.f("else")
                s += ind + "else:" + self.suite(d, ind)
            return s
        if k < 0.44:
            self.f("for")
            asy = "async " if self.in_async and r.random() < 0.3 else ""
            saved, self.in_loop = self.in_loop, True
            s = ind + asy + "for " + self.targets(d) + " in " + self.star_exprs(1) + ":" + self.suite(d, ind)
            self.in_loop = saved
            if r.random() < 0.3:
                self.f("for_else")
                s += ind + "else:" + self.suite(d, ind)
            return s
        if k < 0.52:
            self.f("while")
            saved, self.in_loop = self.in_loop, True
            s = ind + "while " + self.named(d) + ":" + self.suite(d, ind)
            self.in_loop = saved
            if r.random() < 0.3:
                self.f("while_else")
                s += ind + "else:" + self.suite(d, ind)
            return s
        if k < 0.64:
            self.f("try")
            s = ind + "try:" + self.suite(d, ind)
            star = r.random() < 0.12
            n = r.choice([0, 1, 1, 2])
            for i in range(n):
                if star:
                    self.f("except_star")
                    s += ind + "except* " + r.choice(["ValueError", "(KeyError, OSError)"]) + \
                        (" as err" if r.random() < 0.5 else "") + ":" + self.suite(d, ind)
                else:
                    last = i == n - 1
                    if last and r.random() < 0.3:
                        s += ind + "except:" + self.suite(d, ind)
                    else:
                        s += ind + "except " + r.choice(["ValueError", "(KeyError, OSError)", "Exception"]) + \
                            (" as err" if r.random() < 0.5 else "") + ":" + self.suite(d, ind)
            if n and r.random() < 0.3:
                self.f("try_else")
                s += ind + "else:" + self.suite(d, ind)
            if n == 0 or r.random() < 0.35:
                self.f("finally")
                s += ind + "finally:" + self.suite(d, ind)
            return s
        if k < 0.74:
            self.f("with")
            asy = "async " if self.in_async and r.random() < 0.3 else ""
            items = []
            for _ in range(r.choice([1, 1, 2])):
                it = self.expr(1)
                if r.random() < 0.6:
                    it += " as " + r.choice([self.ident(), "(" + self.ident() + ", " + self.ident() + ")", self.ident() + ".x"])
                items.append(it)
            body = ", ".join(items)
            if r.random() < 0.15:
                self.f("with_paren")
                body = "(" + body + ("," if r.random() < 0.5 else "") + ")"
            return ind + asy + "with " + body + ":" + self.suite(d, ind)
        if k < 0.86:
            return self.classdef(d, ind)
        if k < 0.92:
            self.f("match")
            return ind + "match " + self.ident() + ":\n" + ind + "    case 1:\n" + ind + "        pass\n" + \
                ind + "    case _:\n" + ind + "        pass\n"
        return self.funcdef(d, ind, force_async=True)

    def named(self, d: int) -> str:
        if self.r.random() < 0.08:
            self.f("walrus_cond")
            return "(" + self.ident() + " := " + self.expr(1) + ")"
        return self.expr(min(d, 2))

    def decorators(self, ind: str) -> str:
        r = self.r
        s = ""
        for _ in range(r.choice([0, 0, 0, 1, 2])):
            self.f("decorator")
            s += ind + "@" + r.choice(["dec", "mod.dec", "dec(1)", "dec(key=2)", "staticmethod", "a.b.c"]) + "\n"
        return s

    def funcdef(self, d: int, ind: str, force_async: bool = False) -> str:
        r = self.r
        asy = force_async or r.random() < 0.12
        self.f("async_def" if asy else "def")
        saved = (self.in_func, self.in_async, self.in_loop, self.in_class)
        self.in_func, self.in_async, self.in_loop, self.in_class = True, asy, False, False
        try:
            ps = self.params(min(d, 1))
            ret = ""
            if r.random() < 0.25:
                self.f("return_annotation")
                ret = " -> " + self.expr(0)
            head = self.decorators(ind) + ind + ("async " if asy else "") + "def " + r.choice(["f", "g", "helper", "_h"]) + \
                "(" + ps + ")" + ret + ":"
            doc = ""
            body = self.suite(d, ind)
            if r.random() < 0.2 and body.startswith("\n"):
                self.f("docstring")
                doc = "\n" + ind + "    " + r.choice(['"""doc"""', "'doc'", '"""multi\n' + ind + '    line"""']) + ""
            return head + doc + body
        finally:
            self.in_func, self.in_async, self.in_loop, self.in_class = saved

    def classdef(self, d: int, ind: str) -> str:
        r = self.r
        self.f("class")
        bases = ""
        k = r.random()
        if k < 0.5:
            items = [r.choice(["Base", "a.B", "object"]) for _ in range(r.choice([1, 2]))]
            if r.random() < 0.3:
                self.f("class_keyword")
                items.append("metaclass=Meta")
            if r.random() < 0.1:
                items.append("*mixins")
            bases = "(" + ", ".join(items) + ")"
        elif k < 0.6:
            bases = "()"
        saved = (self.in_func, self.in_async, self.in_loop, self.in_class)
        self.in_func, self.in_async, self.in_loop, self.in_class = False, False, False, True
        try:
            return self.decorators(ind) + ind + "class " + r.choice(["C", "Node", "_K"]) + bases + ":" + self.suite(d, ind)
        finally:
            self.in_func, self.in_async, self.in_loop, self.in_class = saved

    def program(self, n: Optional[int] = None) -> str:
        n = n or self.r.choice([1, 1, 2, 3])
        out = ""
        for _ in range(n):
            s = self.stmt(self.max_depth, "")
            out += s
            if self.r.random() < 0.2:
                out += self.r.choice(["\n", "# comment\n", "\n\n"])
        return out
