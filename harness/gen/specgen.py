"""Type-directed generator of Fandango specs (grammar part), shared by the grammar-level checks.

    from harness.gen.specgen import Features, gen_spec, gen_spec_info

    text = gen_spec(rng)                                  # default feature mix
    text = gen_spec(rng, Features(regex=0.0, mode="bytes"))
    info = gen_spec_info(rng, Features(generators=0.5))   # .text, .nonterminals, .mode, .features_used, …

Guarantees
* every grammar is *productive* (`Grammar.prime()` terminates): a rule's mandatory positions only mention
  later rules; references back (recursion) only sit in positions that can be skipped (`?`, `*`, `{0,n}`,
  or an alternative next to a non-recursive one);
* every symbol mentioned is defined, `<start>` is the first rule, every rule is reachable from an earlier one;
* spec text only uses constructs of the spec language: alternatives, concatenations, groups, `*`, `+`, `?`,
  `{n}`, `{n,m}`, `{n,}`, str / bytes literals, bit terminals `0`/`1`, str / bytes regexes from a safe
  sub-language (no anchors, no look-around, bounded by exrex' own limits, never matching the empty string
  unless `regex_empty` is asked for), optional generators (`:=`) with their Python definitions.
All randomness comes from the `rng` passed in.
"""
from __future__ import annotations

import dataclasses
from dataclasses import dataclass, field
from typing import Optional

NAMES = ["a", "b", "c", "d", "e", "f", "g", "h", "item", "x", "y", "z"]


@dataclass
class Features:
    """probabilities / weights of the constructs; 0 switches a construct off"""
    n_rules: tuple[int, int] = (2, 6)        # besides <start>
    depth: int = 2                           # nesting depth of groups
    rule_size: int = 7                       # atoms per rule (soft bound; keeps the spec parseable in ms)
    alternatives: float = 0.45               # an expression gets >= 2 alternatives
    max_alternatives: int = 3
    max_concat: int = 4
    group: float = 0.25                      # an atom is a parenthesised sub-expression
    star: float = 0.10
    plus: float = 0.10
    option: float = 0.12
    braces_exact: float = 0.08               # {n}
    braces_range: float = 0.08               # {n,m}
    braces_open: float = 0.06                # {n,}
    nested_repetition: float = 0.3           # a repetition's operand is itself a (grouped) repetition
    max_count: int = 4                       # largest n / m written in braces
    recursion: float = 0.5                   # the grammar contains (skippable) back references
    mode: Optional[str] = None               # "text" | "bytes" | "bits" | "mixed"; None = drawn
    regex: float = 0.2                       # a terminal is a regex
    regex_empty: bool = False                # allow regexes that match the empty string
    nonterminal: float = 0.55                # an atom is a nonterminal (if one is available)
    generators: float = 0.0                  # share of leaf rules that get a generator (`:=`)
    unaligned_bits: bool = False             # bit runs that are not multiples of 8


@dataclass
class SpecInfo:
    text: str
    nonterminals: list[str]
    mode: str
    python: str                              # the Python part of the spec (generator definitions)
    rules: dict[str, str]
    generators: dict[str, str]               # symbol -> generator expression
    features_used: set[str] = field(default_factory=set)


# ------------------------------------------------------------------------------------------------
# terminals
# ------------------------------------------------------------------------------------------------

TEXT_LITS = ["a", "b", "ab", "x", "0", "1", "7", "42", ",", ";", " ", "-", "=", "foo", "é", "k:", "(", ")"]
BYTE_LITS = [b"\x00", b"\x01", b"\xff", b"A", b"ab", b"\x80", b"\x7f", b"\r\n", b"\xde\xad"]
TEXT_CLASSES = ["[a-c]", "[0-9]", "[xyz]", "[a-z]", "[A-F0-9]"]
BYTE_CLASSES = ["[\\x00-\\x03]", "[a-c]", "[\\x80-\\x82]", "[0-9]"]


def _py_str(s: str) -> str:
    out = []
    for ch in s:
        if ch == "\\":
            out.append("\\\\")
        elif ch == '"':
            out.append('\\"')
        elif ch == "\n":
            out.append("\\n")
        elif ch == "\r":
            out.append("\\r")
        else:
            out.append(ch)
    return '"' + "".join(out) + '"'


def _py_bytes(b: bytes) -> str:
    return 'b"' + "".join(f"\\x{x:02x}" for x in b) + '"'


def gen_regex_src(rng, binary: bool, allow_empty: bool = False) -> str:
    """a regex of the safe sub-language: classes, literals, bounded counts, one optional group / alternation"""
    classes = BYTE_CLASSES if binary else TEXT_CLASSES
    parts = []
    nonempty = False
    for _ in range(rng.randint(1, 3)):
        r = rng.random()
        cls = rng.choice(classes)
        if r < 0.3:
            parts.append(cls)
            nonempty = True
        elif r < 0.5:
            n = rng.randint(1, 3)
            parts.append(f"{cls}{{{n}}}")
            nonempty = True
        elif r < 0.65:
            lo = rng.randint(1, 2)
            parts.append(f"{cls}{{{lo},{lo + rng.randint(1, 2)}}}")
            nonempty = True
        elif r < 0.75:
            parts.append(f"{cls}+")
            nonempty = True
        elif r < 0.85:
            parts.append(f"({rng.choice(['ab', 'c', 'x1'])}|{rng.choice(['d', 'ef'])})")
            nonempty = True
        elif r < 0.93:
            parts.append(f"{cls}?")
        else:
            parts.append(f"{cls}*")
    if not nonempty and not allow_empty:
        parts.append(rng.choice(classes))
    return "".join(parts)


class _Gen:
    def __init__(self, rng, f: Features):
        self.rng = rng
        self.f = f
        self.mode = f.mode or rng.choice(["text", "text", "text", "bytes", "bits", "mixed"])
        self.used: set[str] = set()
        self.left = f.rule_size

    # ---- terminals
    def terminal(self) -> str:
        rng, f = self.rng, self.f
        kind = self.mode
        if kind == "mixed":
            kind = rng.choice(["text", "bytes", "bits"])
        if kind == "bits":
            r = rng.random()
            if r < 0.5:
                self.used.add("bit")
                if f.unaligned_bits:
                    return " ".join(str(rng.randint(0, 1)) for _ in range(rng.randint(1, 3)))
                return " ".join(str(rng.randint(0, 1)) for _ in range(8))
            kind = "bytes"
        if rng.random() < f.regex:
            binary = kind == "bytes"
            self.used.add("regex_bytes" if binary else "regex_str")
            src = gen_regex_src(rng, binary, f.regex_empty)
            return ("rb" if binary else "r") + '"' + src + '"'
        if kind == "bytes":
            self.used.add("bytes")
            return _py_bytes(rng.choice(BYTE_LITS))
        self.used.add("str")
        return _py_str(rng.choice(TEXT_LITS))

    # ---- expressions
    def postfix(self, atom_src: str, is_group_or_single: bool, allow_zero: bool = True) -> str:
        """attach a repetition operator (or none)"""
        rng, f = self.rng, self.f
        ops = [("star", f.star), ("plus", f.plus), ("option", f.option), ("exact", f.braces_exact),
               ("range", f.braces_range), ("open", f.braces_open)]
        total = sum(w for _, w in ops)
        r = rng.random()
        if r >= total:
            return atom_src
        acc = 0.0
        op = "star"
        for name, w in ops:
            acc += w
            if r < acc:
                op = name
                break
        self.used.add(op)
        if not is_group_or_single:
            atom_src = "(" + atom_src + ")"
        if op == "star":
            return atom_src + "*"
        if op == "plus":
            return atom_src + "+"
        if op == "option":
            return atom_src + "?"
        if op == "exact":
            return f"{atom_src}{{{rng.randint(1, f.max_count)}}}"
        if op == "range":
            lo = rng.randint(0 if allow_zero else 1, max(1, f.max_count - 1))
            hi = rng.randint(max(lo, 1), f.max_count)
            return f"{atom_src}{{{lo},{hi}}}"
        return f"{atom_src}{{{rng.randint(0 if allow_zero else 1, 2)},}}"

    def atom(self, later: list[str], depth: int) -> tuple[str, bool]:
        """(source, is a single symbol or a group)"""
        rng, f = self.rng, self.f
        self.left -= 1
        if depth > 0 and self.left > 2 and rng.random() < f.group:
            self.used.add("group")
            return "(" + self.expr(later, depth - 1) + ")", True
        if later and rng.random() < f.nonterminal:
            return rng.choice(later), True
        t = self.terminal()
        return t, " " not in t

    def item(self, later: list[str], depth: int) -> str:
        src, single = self.atom(later, depth)
        out = self.postfix(src, single)
        if out != src and self.rng.random() < self.f.nested_repetition:
            # a repetition of a repetition must be grouped
            self.used.add("nested_repetition")
            out = self.postfix("(" + out + ")", True)
        return out

    def concat(self, later: list[str], depth: int) -> str:
        n = self.rng.randint(1, self.f.max_concat) if self.left > 1 else 1
        if n > 1:
            self.used.add("concatenation")
        return " ".join(self.item(later, depth) for _ in range(n))

    def expr(self, later: list[str], depth: int) -> str:
        n = 1
        if self.left > 1 and self.rng.random() < self.f.alternatives:
            n = self.rng.randint(2, self.f.max_alternatives)
            self.used.add("alternative")
        return " | ".join(self.concat(later, depth) for _ in range(n))

    def back_reference(self, earlier: list[str]) -> str:
        """a skippable reference to an earlier (or the same) rule"""
        rng = self.rng
        target = rng.choice(earlier)
        self.used.add("recursion")
        r = rng.random()
        # NB: never through `{0,n}`: `Grammar.prime()` does not terminate on `<a> ::= "x" <a>{0,2}`
        # (a plain Repetition starts at distance inf and waits for its own rule), only `?` and `*` start at 0
        if r < 0.5:
            return f"{target}?"
        if r < 0.75:
            return f"{target}*"
        return f"({self.terminal()} {target})?"


def gen_spec_info(rng, features: Optional[Features] = None) -> SpecInfo:
    f = features or Features()
    g = _Gen(rng, f)
    n = rng.randint(*f.n_rules)
    names = ["<start>"] + [f"<{NAMES[i % len(NAMES)]}{'' if i < len(NAMES) else i}>" for i in range(n)]
    rules: dict[str, str] = {}
    recursive = rng.random() < f.recursion
    for i, name in enumerate(names):
        later = names[i + 1:]
        g.left = f.rule_size
        if later:
            # make sure the next rule is reachable from this one or an earlier one
            must = names[i + 1] if rng.random() < 0.7 or i == 0 else None
            body = g.expr(later, f.depth)
            if must is not None and must not in body:
                body_alts = body.split(" | ")
                k = rng.randrange(len(body_alts))
                body_alts[k] = body_alts[k] + " " + g.postfix(must, True)
                body = " | ".join(body_alts)
        else:
            body = g.expr([], min(1, f.depth))
        if recursive and i > 0 and rng.random() < 0.5:
            ref = g.back_reference(names[: i + 1])
            alts = body.split(" | ")
            k = rng.randrange(len(alts))
            alts[k] = alts[k] + " " + ref
            body = " | ".join(alts)
        rules[name] = body
    # reachability: any rule never mentioned before its definition is hooked into <start>
    for i, name in enumerate(names[1:], 1):
        if not any(name in rules[m] for m in names[:i]):
            rules["<start>"] = rules["<start>"] + " | " + name if rng.random() < 0.5 else \
                "(" + rules["<start>"] + ") " + name + "?"
    python_lines: list[str] = []
    generators: dict[str, str] = {}
    if f.generators > 0:
        _add_generators(rng, g, f, names, rules, python_lines, generators)
    lines = list(python_lines)
    for name in rules:
        line = f"{name} ::= {rules[name]}"
        if name in generators:
            line += f" := {generators[name]}"
        lines.append(line)
    text = "\n".join(lines) + "\n"
    return SpecInfo(text=text, nonterminals=list(rules), mode=g.mode, python="\n".join(python_lines), rules=rules,
                    generators=generators, features_used=set(g.used))


def _add_generators(rng, g: _Gen, f: Features, names, rules, python_lines, generators) -> None:
    """extra leaf rules defined through generators (constant / random / dependent on another symbol) and
    hooked into existing rules.  Text grammars only (the values are str)."""
    if g.mode not in ("text",):
        return
    k = 0
    hooks = []
    if rng.random() < f.generators:
        k += 1
        rules[f"<gconst{k}>"] = 'r"[a-z]{2,5}"'
        generators[f"<gconst{k}>"] = _py_str(rng.choice(["abc", "zz", "hello"]))
        hooks.append(f"<gconst{k}>")
        g.used.add("generator_const")
    if rng.random() < f.generators:
        k += 1
        if "import random" not in python_lines:
            python_lines.insert(0, "import random")
        python_lines.append(f"def gen_pick{k}():\n    return random.choice(['ab', 'cde', 'q', 'xyzzy'])")
        rules[f"<grand{k}>"] = 'r"[a-z]+"'
        generators[f"<grand{k}>"] = f"gen_pick{k}()"
        hooks.append(f"<grand{k}>")
        g.used.add("generator_random")
    if rng.random() < f.generators:
        k += 1
        rules[f"<gsrc{k}>"] = 'r"[a-c]{1,6}"'
        rules[f"<glen{k}>"] = 'r"[0-9]+"'
        generators[f"<glen{k}>"] = f"str(len(str(<gsrc{k}>)))"
        hooks.append(f"<glen{k}> \":\"")
        g.used.add("generator_dependent")
    for h in hooks:
        target = rng.choice(names)
        alts = rules[target].split(" | ")
        i = rng.randrange(len(alts))
        alts[i] = alts[i] + " " + h
        rules[target] = " | ".join(alts)


def gen_spec(rng, features: Optional[Features] = None) -> str:
    """a random productive grammar as .fan text"""
    return gen_spec_info(rng, features).text


def feature_presets() -> dict[str, Features]:
    """named feature mixes the checks cycle through"""
    return {
        "default": Features(),
        "repetitions": Features(star=0.15, plus=0.15, option=0.15, braces_exact=0.12, braces_range=0.12,
                                braces_open=0.1, nested_repetition=0.5, alternatives=0.3),
        "alternatives": Features(alternatives=0.8, max_alternatives=4, group=0.35),
        "recursive": Features(recursion=1.0, n_rules=(2, 5), nonterminal=0.7),
        "regex": Features(regex=0.6),
        "binary": Features(mode="bytes", regex=0.25),
        "bits": Features(mode="bits"),
        "mixed": Features(mode="mixed", unaligned_bits=True),
        "generators": Features(mode="text", generators=0.8),
        "tiny": Features(n_rules=(0, 2), depth=1, max_concat=2),
    }


def with_overrides(f: Features, **kw) -> Features:
    return dataclasses.replace(f, **kw)
