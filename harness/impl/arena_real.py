"""C10: the real `DerivationTree` API driven by the op language of `lean/Model/ArenaStep.lean`.

`RealArena` keeps the handle table (handle -> Python object), applies one op, returns the canonical
result and the canonical passive state (same JSON as `drv_arena`).  Also: structural oracles that do
not depend on the model (recount, fresh rebuild, structural key), deep snapshots by object identity.
"""
from __future__ import annotations

import copy
import json
from typing import Any, Optional


def _imports():
    from fandango.language.tree import DerivationTree, SliceTree, StepException
    from fandango.language.symbols import NonTerminal, Terminal, Slice
    return DerivationTree, SliceTree, StepException, NonTerminal, Terminal, Slice


# ------------------------------------------------------------------------------------------------
# symbols
# ------------------------------------------------------------------------------------------------

def sym_of_json(j: list):
    _, _, _, NonTerminal, Terminal, Slice = _imports()
    tag = j[0]
    if tag == "n":
        return NonTerminal(j[1])
    if tag == "t":
        return Terminal("".join(chr(c) for c in j[1]))
    if tag == "b":
        return Terminal(bytes(j[1]))
    if tag == "i":
        return Terminal(int(j[1]))
    if tag == "s":
        return Slice()
    raise ValueError(tag)


def sym_json(sym) -> list:
    """canonical symbol, read from the object's own state (not from what the harness passed)"""
    _, _, _, NonTerminal, Terminal, Slice = _imports()
    if isinstance(sym, NonTerminal):
        return ["n", sym.name()]
    if isinstance(sym, Slice):
        return ["s"]
    v = sym._value
    raw, bits = v._value, list(v._trailing_bits)
    if raw is None and len(bits) == 1:
        return ["i", int(bits[0])]
    if isinstance(raw, str) and not bits:
        return ["t", [ord(c) for c in raw]]
    if isinstance(raw, bytes) and not bits:
        return ["b", list(raw)]
    return ["?", repr(raw), bits]


def tree_json(t, depth: int = 0) -> Any:
    if depth > 200:
        return "cycle"
    kids = [tree_json(c, depth + 1) for c in t._children]
    if any(k == "cycle" for k in kids):
        return "cycle"
    return [sym_json(t.symbol), t.sender, t.recipient, kids]


def key_of(t) -> Any:
    """structural identity of a tree: symbols (kind + typed value), parties, shape"""
    return (tuple(map(lambda x: tuple(x) if isinstance(x, list) else x, sym_json(t.symbol))), t.sender,
            t.recipient, tuple(key_of(c) for c in t._children))


def recount(t) -> int:
    return 1 + sum(recount(c) for c in t._children)


def rebuild(t):
    """an identical new tree built from scratch through the public constructor"""
    DerivationTree = _imports()[0]
    return DerivationTree(sym_of_json(sym_json(t.symbol)), [rebuild(c) for c in t._children],
                          sender=t.sender, recipient=t.recipient)


# ------------------------------------------------------------------------------------------------
# reachability / snapshots
# ------------------------------------------------------------------------------------------------

def reachable(roots: list) -> list:
    """every node object reachable from `roots` through children, recorded generator parameters (sources) and
    parent links"""
    seen: dict[int, Any] = {}
    todo = list(roots)
    while todo:
        n = todo.pop()
        if n is None or id(n) in seen:
            continue
        seen[id(n)] = n
        todo.extend(n._children)
        todo.extend(getattr(n, "_sources", []) or [])     # generator parameters recorded with the node
        todo.append(n._parent)
    return list(seen.values())


def snap_node(n) -> tuple:
    return (tuple(sym_json(n.symbol)[:1]) + (repr(sym_json(n.symbol)),), n.sender, n.recipient,
            tuple(id(c) for c in n._children), id(n._children), id(n._parent) if n._parent is not None else None,
            n._size, n.read_only, tuple(map(tuple, n.origin_repetitions)), tuple(id(s) for s in n._sources))


class Snapshot:
    """deep snapshot, by object identity, of everything reachable from a list of roots
    (keeps the objects alive so ids stay unique)"""

    def __init__(self, roots: list):
        self.nodes = reachable(roots)
        self.state = {id(n): snap_node(n) for n in self.nodes}
        self.hashes = {id(n): n.hash_cache for n in self.nodes}
        self.term = {id(n): (repr(n.symbol._value._value), tuple(n.symbol._value._trailing_bits))
                     for n in self.nodes if n.symbol.is_terminal}

    def diff(self, allow_dropped_hash: bool = False, ignore_size: bool = False) -> list[str]:
        out = []
        for n in self.nodes:
            before, after = self.state[id(n)], snap_node(n)
            if ignore_size:
                before, after = before[:6] + before[7:], after[:6] + after[7:]
            if before != after:
                names = ["symbol", "sender", "recipient", "children", "children-list-object", "parent", "_size",
                         "read_only", "origin_repetitions", "sources"]
                if ignore_size:
                    names.remove("_size")
                ch = [nm for nm, b, a in zip(names, before, after) if b != a]
                out.append(f"node {sym_json(n.symbol)} changed: {ch}")
            h0, h1 = self.hashes[id(n)], n.hash_cache
            if h0 != h1 and not (allow_dropped_hash and h1 is None):
                out.append(f"node {sym_json(n.symbol)}: hash_cache {'set' if h0 is None else 'changed'}")
            if n.symbol.is_terminal:
                v = n.symbol._value
                if self.term[id(n)] != (repr(v._value), tuple(v._trailing_bits)):
                    out.append(f"terminal {sym_json(n.symbol)}: shared TreeValue changed")
        return out

    def ids(self) -> set[int]:
        return set(self.state)


# ------------------------------------------------------------------------------------------------
# the executor
# ------------------------------------------------------------------------------------------------

ERR = {"IndexError": "IndexError", "ValueError": "ValueError", "StepException": "StepException",
       "AssertionError": "AssertionError", "RecursionError": "RecursionError"}


class RealArena:
    def __init__(self):
        from fandango.language.grammar.grammar import Grammar
        self.hs: list = []
        self.grammar = Grammar([], {})

    # ---- canonical views
    def handles_of(self, obj) -> list[int]:
        return [h for h, o in enumerate(self.hs) if o is obj]

    def state(self) -> list:
        out = []
        for o in self.hs:
            out.append({"size": o.size(), "tree": tree_json(o),
                        "parent": None if o.parent is None else self.handles_of(o.parent),
                        "cached": o.hash_cache is not None, "ro": bool(o.read_only),
                        "same": self.handles_of(o)})
        return out

    def _node(self, obj) -> dict:
        self.hs.append(obj)
        return {"node": self.handles_of(obj)}

    def _nodes(self, objs) -> dict:
        return {"nodes": [[tree_json(o), self.handles_of(o)] for o in objs]}

    def handles_valid(self, op: dict) -> bool:
        n = len(self.hs)
        hs: list = []
        for k in ("i", "j", "p", "c", "t"):
            if k in op and not (k == "i" and op["op"] == "classes"):
                hs.append(op[k])
        hs += list(op.get("kids", [])) + list(op.get("cs", []))
        for pr in op.get("reps", []):
            hs += list(pr)
        return all(isinstance(h, int) and 0 <= h < n for h in hs)

    # ---- one op
    def apply(self, op: dict) -> dict:
        if not self.handles_valid(op):
            raise KeyError("unknown handle in " + json.dumps(op))
        try:
            return self._apply(op)
        except Exception as e:  # noqa
            n = type(e).__name__
            return {"raises": ERR.get(n, "other:" + n + ":" + str(e)[:80])}

    def _apply(self, op: dict) -> Any:
        DerivationTree, SliceTree, StepException, NonTerminal, Terminal, Slice = _imports()
        from fandango.language.search import RuleSearch
        k = op["op"]
        H = self.hs
        if k == "mk":
            t = DerivationTree(sym_of_json(op["sym"]), [H[c] for c in op["kids"]], sender=op["sender"],
                               recipient=op["recipient"], read_only=op["ro"])
            return self._node(t)
        if k == "addChild":
            H[op["p"]].add_child(H[op["c"]])
            return None
        if k == "setChildren":
            H[op["p"]].set_children([H[c] for c in op["cs"]])
            return None
        if k == "setSym":
            H[op["i"]].symbol = sym_of_json(op["sym"])
            return None
        if k == "setSender":
            H[op["i"]].sender = op["s"]
            return None
        if k == "setRecipient":
            H[op["i"]].recipient = op["s"]
            return None
        if k == "hash":
            hash(H[op["i"]])
            return {"hash": True}
        if k == "eq":
            return {"bool": bool(H[op["i"]] == H[op["j"]])}
        if k == "classes":
            vals = [hash(o) for o in H]
            return {"classes": [vals.index(v) for v in vals]}
        if k == "deepcopy":
            o = H[op["i"]]
            if op["cc"] and op["cp"]:
                c = copy.deepcopy(o)
            else:
                c = o.deepcopy(copy_children=op["cc"], copy_params=True, copy_parent=op["cp"])
            return self._node(c)
        if k == "getItem":
            return self._node(H[op["i"]][op["k"]])
        if k == "getSlice":
            return self._node(H[op["i"]][op["a"]:op["b"]])
        if k == "splitEnd":
            return self._node(H[op["i"]].split_end(op["copy"]))
        if k == "prefix":
            return self._node(H[op["i"]].prefix(op["copy"]))
        if k == "replace":
            reps = [(H[a], H[b]) for a, b in op["reps"]]
            if len(reps) == 1:
                r = H[op["i"]].replace(self.grammar, reps[0][0], reps[0][1])
            else:
                r = H[op["i"]].replace_multiple(self.grammar, reps)
            return self._node(r)
        if k == "append":
            H[op["i"]].append(tuple((NonTerminal(n), b) for n, b in op["path"]), H[op["t"]])
            return None
        if k == "size":
            return {"nat": H[op["i"]].size()}
        if k == "parent":
            p = H[op["i"]].parent
            return {"node": None} if p is None else self._node(p)
        if k == "getPath":
            return self._nodes(H[op["i"]].get_path())
        if k == "flatten":
            return self._nodes(H[op["i"]].flatten())
        if k == "findAll":
            a = H[op["i"]].find_all_trees(NonTerminal(op["name"]))
            b = [c.evaluate() for c in RuleSearch(NonTerminal(op["name"])).find(H[op["i"]])]
            if len(a) != len(b) or any(x is not y for x, y in zip(a, b)):
                return {"raises": "other:RuleSearch.find differs from find_all_trees"}
            return self._nodes(a)
        if k == "findDirect":
            a = H[op["i"]].find_direct_trees(NonTerminal(op["name"]))
            b = [c.evaluate() for c in RuleSearch(NonTerminal(op["name"])).find_direct(H[op["i"]])]
            if len(a) != len(b) or any(x is not y for x, y in zip(a, b)):
                return {"raises": "other:RuleSearch.find_direct differs from find_direct_trees"}
            return self._nodes(a)
        if k == "choicesPath":
            p = H[op["i"]].get_choices_path()
            return {"path": [s.index for s in p]}
        if k == "value":
            from fandango.errors import FandangoConversionError, FandangoValueError
            try:
                H[op["i"]].value()
                return {"value": "ok"}
            except FandangoConversionError:
                return {"value": {"err": "conv"}}
            except FandangoValueError:
                return {"value": {"err": "value"}}
        raise KeyError(k)


# ------------------------------------------------------------------------------------------------
# ownership discipline (mirrors `Op.ok` in lean/Proofs/Arena.lean) and cycle guard
# ------------------------------------------------------------------------------------------------

def is_view(o) -> bool:
    SliceTree = _imports()[1]
    return isinstance(o, SliceTree)


def up_chain(o) -> list:
    out, seen = [], set()
    while o is not None and id(o) not in seen:
        seen.add(id(o))
        out.append(o)
        o = o._parent
    return out


def reaches_down(a, b, depth: int = 0) -> bool:
    """b is a or a descendant of a through child lists"""
    if a is b:
        return True
    if depth > 200:
        return True
    return any(reaches_down(c, b, depth + 1) for c in a._children)


def would_cycle(p, cs: list) -> bool:
    """attaching cs below p would close a cycle through child lists or parent links"""
    chain = up_chain(p)
    for c in cs:
        if any(c is x for x in chain) or reaches_down(c, p):
            return True
    return False


def detached(c) -> bool:
    return c._parent is None and not is_view(c)


def disciplined(arena: RealArena, op: dict) -> bool:
    """does the op respect single ownership? (children handed to a node are detached roots or the
    node's own children; views are neither edited nor copied nor attached)"""
    H = arena.hs
    k = op["op"]

    def distinct(objs):
        return len({id(o) for o in objs}) == len(objs)

    if k == "mk":
        cs = [H[c] for c in op["kids"]]
        return distinct(cs) and all(detached(c) for c in cs)
    if k == "addChild":
        p, c = H[op["p"]], H[op["c"]]
        return (not is_view(p)) and detached(c) and not any(c is x for x in up_chain(p))
    if k == "setChildren":
        p = H[op["p"]]
        cs = [H[c] for c in op["cs"]]
        if is_view(p) or not distinct(cs):
            return False
        chain = up_chain(p)
        for c in cs:
            own = c._parent is p and any(c is x for x in p._children)
            if not own and not (detached(c) and not any(c is x for x in chain)):
                return False
        return True
    if k in ("setSym", "setSender", "setRecipient"):
        return not is_view(H[op["i"]])
    if k in ("deepcopy", "splitEnd", "prefix"):
        return not is_view(H[op["i"]])
    if k == "replace":
        objs = [H[op["i"]]] + [H[x] for pr in op["reps"] for x in pr]
        return not any(is_view(o) for o in objs)
    if k == "append":
        p, t = H[op["i"]], H[op["t"]]
        return (not is_view(p)) and detached(t) and not any(t is x for x in up_chain(p))
    return True
