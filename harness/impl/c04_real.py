"""Worker side of C04 (run through harness.impl.pool): everything that touches the real implementation
besides the grammar-level parse (that is `harness.impl.earley_io.real_case`).

handle({"op": "fuzzwords", "spec", "starts": [..], "n", "seed"})
    -> {"words": [[start, word_json], ...]}          words of the language from the REAL fuzzer (Grammar.fuzz)
handle({"op": "api", "spec", "words": [word_json...], "max_trees"})
    -> {"items": [{"status", "yielded": [tree json...], "obs": [...], "forest": [tree json...]}...]}
       `Fandango(spec).parse(word)` (grammar + constraints) and, on a fresh object, `Grammar.parse_forest(word)`
"""
from __future__ import annotations

import logging
import random
from typing import Any

from harness.impl import cons as icons
from harness.impl import earley_io as eio
from harness.impl import grammar_io as gio


def _value_word(tree, binary: bool):
    return bytes(tree) if binary else str(tree)


def fuzzwords(case: dict) -> dict:
    grammar, _ = eio.parse_spec_guarded(case["spec"], 10.0)
    binary = bool(case.get("binary"))
    out = []
    random.seed(int(case.get("seed", 0)))
    for start in case["starts"]:
        for k in range(int(case.get("n", 2))):
            try:
                t = grammar.fuzz(start, max_nodes=random.choice([6, 12, 25]))
                w = _value_word(t, binary)
            except Exception:  # noqa — a grammar whose trees do not serialise (bits off the byte boundary) has no words
                continue
            if len(w) <= int(case.get("max_cells", 12)):
                out.append([start, eio.word_json(w)])
    return {"words": out}


def api(case: dict) -> dict:
    from fandango import Fandango
    items = []
    max_trees = int(case.get("max_trees", 40))
    for wj in case["words"]:
        word = eio.word_of(wj)
        it: dict[str, Any] = {"word": wj}
        try:
            fan = Fandango(case["spec"], use_stdlib=False, use_cache=False, logging_level=logging.CRITICAL)
        except Exception as e:  # noqa
            it["status"] = f"spec_error:{type(e).__name__}"
            items.append(it)
            continue
        yielded = []
        forest: list = []
        status = "ok"
        # record the unfiltered forest of THIS parse (the forest of an ambiguous grammar may depend on the iteration
        # order of the sets `predict` builds, so a second parse is not the same object); the wrapper only observes
        orig = fan.grammar.parse_forest

        def recording(*a, **k):
            for tr in orig(*a, **k):
                forest.append(tr)
                yield tr
        if case.get("history"):
            import itertools
            try:
                list(itertools.islice(fan.grammar.parse_forest(word, include_controlflow=True), 400))
            except Exception:  # noqa — judged by the request below
                pass
        fan.grammar.parse_forest = recording
        try:
            for t in fan.parse(word):
                yielded.append(t)
                if len(yielded) >= max_trees or len(forest) >= 4 * max_trees:
                    status = "truncated"
                    break
        except Exception as e:  # noqa
            status = f"exc:{type(e).__name__}"
        it["status"] = status
        try:
            it["yielded"] = [icons.tree_json(t) for t in yielded]
            it["obs"] = [eio.observe_tree(t, word, case.get("start", "<start>")) for t in yielded]
            it["forest"] = [icons.tree_json(t) for t in forest]
        except ValueError as e:
            it["status"] = f"not_modelled:{e}"
        items.append(it)
    return {"items": items}


def handle(case: dict) -> dict:
    if case["op"] == "fuzzwords":
        return fuzzwords(case)
    if case["op"] == "api":
        return api(case)
    raise ValueError(case["op"])
