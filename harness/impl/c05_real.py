"""Worker side of C05 (round trip): everything that touches the real implementation.

handle({"op": "gen", "spec", "seed", "n_fuzz", "constraints": [str]|None})
    -> grammar JSON for the Lean enumerator, regex instance table, trees produced by the real fuzzer
       (`Grammar.fuzz`, and `Fandango.fuzz` when the spec has constraints)
handle({"op": "roundtrip", "spec", "constraints", "items": [{"tree": treeJSON, "src": ..}]})
    -> for every tree: serialise it with the real code the way the CLI writes it (binary iff the grammar
       contains bytes or bits), parse the output back with the same spec (`Fandango.parse`, i.e. grammar +
       constraints), look for a tree with the identical serialisation, and run the CLI's `validate()` on the
       first tree the parser yields.
"""
from __future__ import annotations

import json
import random
import re
from typing import Any, Optional

from harness.impl import grammar_io as gio

_CACHE: dict[str, Any] = {}

# candidate instances for regex terminals; each regex keeps the candidates `re.fullmatch` accepts
CANDIDATES = ["", "0", "7", "12", "305", "a", "ac", "abc", "abbc", "ab", "qz", "x1", "x9", "xy", "xyxy",
              "b", "cab", "\x01\x00", "\x01\xff", "\x80\xff", "\xfe\x80", "é", "aa", " "]


def load(spec: str, constraints: Optional[list[str]]):
    key = spec + "\0" + json.dumps(constraints)
    if key not in _CACHE:
        from fandango.language.parse.parse import parse
        g, cs = parse(spec, constraints or None, use_cache=False, use_stdlib=False)
        _CACHE[key] = (g, cs)
    return _CACHE[key]


def is_binary(grammar) -> bool:
    """`cli/utils.py: get_file_mode`"""
    return bool(grammar.contains_bits(start="<start>") or grammar.contains_bytes(start="<start>"))


def serialise(tree, binary: bool):
    """what `fandango fuzz` writes for this tree"""
    return tree.to_bytes() if binary else tree.to_string()


def units(word) -> list[int]:
    return [ord(c) for c in word] if isinstance(word, str) else list(word)


def build_tree(tj: list):
    from fandango.language.symbols import NonTerminal, Terminal
    from fandango.language.tree import DerivationTree
    if tj[0] == "n":
        return DerivationTree(NonTerminal(tj[1]), [build_tree(k) for k in tj[4]])
    return DerivationTree(Terminal(gio.leaf_value(tj[0], tj[1])))


def instances(regexes: gio.RegexTable) -> list:
    out = []
    for rid, pat in enumerate(regexes.patterns):
        leaves = []
        for cand in CANDIDATES:
            try:
                if isinstance(pat, bytes):
                    val = cand.encode("latin-1")
                    ok = re.fullmatch(pat, val) is not None
                    leaf = ["b", list(val)]
                else:
                    ok = re.fullmatch(pat, cand) is not None
                    leaf = ["t", [ord(c) for c in cand]]
            except (re.error, UnicodeEncodeError):
                ok = False
            if ok:
                leaves.append(leaf)
        out.append([rid, leaves[:4]])
    return out


def op_gen(case: dict) -> dict:
    random.seed(case.get("seed", 0))
    grammar, constraints = load(case["spec"], None)
    gj, regexes = gio.grammar_to_json(grammar)
    binary = is_binary(grammar)
    cap0 = int(grammar.get_max_repetition())
    fuzzed = []
    for _ in range(case.get("n_fuzz", 6)):
        try:
            t = grammar.fuzz("<start>", max_nodes=random.choice([5, 10, 25, 50]))
            fuzzed.append({"tree": gio.tree_to_json(t), "src": "grammar.fuzz"})
        except gio.NotModelled:
            continue
        except Exception as e:  # noqa
            fuzzed.append({"error": f"{type(e).__name__}: {e}"[:200], "src": "grammar.fuzz"})
    if constraints:
        from fandango import Fandango
        try:
            fan = Fandango._with_parsed(grammar, constraints, start_symbol="<start>")
            sols = fan.fuzz(desired_solutions=3, max_generations=int(case.get("max_generations", 15)),
                            population_size=int(case.get("population_size", 10)))
            for t in sols[:3]:
                fuzzed.append({"tree": gio.tree_to_json(t), "src": "Fandango.fuzz"})
        except gio.NotModelled:
            pass
        except Exception as e:  # noqa
            fuzzed.append({"error": f"{type(e).__name__}: {e}"[:200], "src": "Fandango.fuzz"})
    pats = [[type(p).__name__, p.decode("latin-1") if isinstance(p, bytes) else p] for p in regexes.patterns]
    # cap0: the repetition cap the grammar (and the parser compiled for it) started with; the evolution above
    # may have raised the cap of `grammar` (adaptive tuner -> Grammar.set_max_repetition)
    return {"grammar": gj, "inst": instances(regexes), "binary": binary, "fuzzed": fuzzed, "patterns": pats,
            "cap": cap0, "cap_after": int(grammar.get_max_repetition())}


def rlen_table(patterns: list, binary: bool, word_units: list[int]) -> list:
    """[[regexId, w, m]] for every regex terminal and every unit index w (0 .. len): the length of what ONE
    `re.match` returns on `word[w:]`, asked the way Terminal.check asks (a bytes pattern on bytes input,
    otherwise the text pattern on the input read through Latin-1); no row = no match"""
    out = []
    as_text = "".join(chr(u) for u in word_units)
    as_bytes = bytes(word_units) if binary else None
    for rid, (kind, pat) in enumerate(patterns):
        for w in range(len(word_units) + 1):
            try:
                if kind == "bytes" and binary:
                    m = re.match(pat.encode("latin-1"), as_bytes[w:])
                else:
                    m = re.match(pat, as_text[w:])
            except (re.error, ValueError):
                m = None
            if m is not None:
                out.append([rid, w, len(m.group(0))])
    return out


def tree_stats(tree) -> tuple[int, int]:
    """(nesting depth counted in non-terminal nodes, largest number of children of a node) of a real tree"""
    from fandango.language.symbols import NonTerminal
    depth, width = 0, 0
    stack = [(tree, 1)]
    while stack:
        t, d = stack.pop()
        if isinstance(t.symbol, NonTerminal):
            depth = max(depth, d)
            width = max(width, len(t.children))
            for k in t.children:
                stack.append((k, d + 1))
    return depth, width


def op_roundtrip(case: dict) -> dict:
    from fandango import Fandango
    from fandango.cli.utils import validate
    from fandango.errors import FandangoError
    grammar, constraints = load(case["spec"], None)
    binary = is_binary(grammar)
    fan = Fandango._with_parsed(grammar, constraints, start_symbol="<start>")
    max_trees = case.get("max_trees", 60)
    out = []
    import signal
    item_s = case.get("item_s", 8)
    other: dict[str, Any] = {}      # a parsed tree of an earlier item (negative control for validate())
    for it in case["items"]:
        signal.alarm(item_s)
        try:
            out.append(roundtrip_one(case, it, grammar, fan, binary, max_trees, validate, FandangoError, other))
        except Exception as e:  # noqa
            if type(e).__name__ != "_Alarm":
                raise
            out.append({"timeout": True})
        finally:
            signal.alarm(0)
    signal.alarm(60)
    return {"items": out}


def roundtrip_one(case, it, grammar, fan, binary, max_trees, validate, FandangoError, other) -> dict:
    if True:
        rec: dict[str, Any] = {}
        try:
            tree = build_tree(it["tree"])
            word = serialise(tree, binary)
        except Exception as e:  # noqa
            if type(e).__name__ == "_Alarm":
                raise
            return {"unserialisable": type(e).__name__}
        rec["word"] = units(word)
        rec["binary"] = binary
        rec["leaves"] = [[tag, list(p) if tag != "i" else p] for tag, p in gio.tree_leaves(it["tree"])]
        rec["rlen"] = rlen_table(case["patterns"], binary, rec["word"])
        # parse it back: grammar + constraints, as `fandango parse` / `--validate` do
        found, n, first_ok, first_err = False, 0, None, None
        try:
            for parsed in fan.parse(word):
                n += 1
                if n == 1:
                    s1 = serialise(parsed, binary)
                    rec["first_same"] = (s1 == word and type(s1) is type(word))
                    try:
                        validate(tree, parsed, filename="<verif>")
                        first_ok = True
                    except FandangoError as e:
                        first_ok, first_err = False, str(e)[:120]
                    # negative control: the parsed tree of another word must NOT validate against this tree
                    if "parsed" in other and other["word"] != word:
                        try:
                            validate(tree, other["parsed"], filename="<verif>")
                            rec["validate_accepts_mismatch"] = units(other["word"])
                        except FandangoError:
                            rec["validate_accepts_mismatch"] = None
                    if s1 == word:
                        other["parsed"], other["word"] = parsed, word
                if serialise(parsed, binary) == word and type(serialise(parsed, binary)) is type(word):
                    found = True
                    rec["parsed_depth"], rec["parsed_width"] = tree_stats(parsed)
                    break
                if n >= max_trees:
                    break
        except Exception as e:  # noqa
            if type(e).__name__ == "_Alarm":
                raise
            rec["raised"] = f"{type(e).__name__}: {e}"[:160]
        rec.update({"found": found, "n_trees": n, "validate_first": first_ok, "validate_err": first_err})
        return rec


def handle(case: dict) -> dict:
    if case["op"] == "gen":
        return op_gen(case)
    if case["op"] == "roundtrip":
        return op_roundtrip(case)
    raise ValueError(case["op"])
