"""C06: fuzzing steps that parse internally, run on the real code under the step meter of `earley_io`.

Two call sites of the parser inside `Fandango.fuzz`:
* a generator-defined nonterminal (`<g> ::= BODY := "word"`): the generator's output is parsed under `<g>`;
* equality repair (`where <g> == "word"`): the wanted value is parsed under `<g>` to build the replacement.

fuzz_case(task) -> {"status": "ok" | "budget" (task["total_budget"] metered steps used, every request returned) | "steplimit" | "timeout" | "exc:<Class>" | "spec_error:<Class>",
                    "meter": {"adds", "completes"}, "solutions": n}
task: {"spec": text, "constraints": [text] | None, "step_limit": int (metered steps of ONE internal parse request),
       "cap_s": float, "seed": int}
"steplimit" comes with "last_request": the (start, mode, word) of the request that exceeded the limit.
"""
from __future__ import annotations

import random
import signal
from typing import Any


def fuzz_case(task: dict) -> dict:
    from harness.common import use_repo
    use_repo()
    from harness.impl import earley_io as eio
    eio._install()
    res: dict[str, Any] = {"id": task.get("id")}
    random.seed(int(task.get("seed", 0)))

    def on_alarm(signum, frame):
        raise eio._Timeout()

    old = signal.signal(signal.SIGALRM, on_alarm)
    signal.setitimer(signal.ITIMER_REAL, float(task.get("cap_s", 60.0)))
    eio._reset()
    status = "ok"
    nsol = 0
    try:
        try:
            from fandango import Fandango
            from fandango.language.parse.parse import parse
            try:
                grammar, constraints = parse(task["spec"], task.get("constraints") or None,
                                             use_cache=False, use_stdlib=False)
            except Exception as e:  # noqa
                res["status"] = f"spec_error:{type(e).__name__}"
                return res
            eio._Reg.limit = int(task.get("step_limit", 100000))
            eio._Reg.per_request = True          # the limit is per parse request: a fuzz run makes thousands of them
            eio._Reg.total_budget = task.get("total_budget")
            fan = Fandango._with_parsed(grammar, constraints, start_symbol="<start>")
            sols = fan.fuzz(desired_solutions=2, max_generations=int(task.get("max_generations", 2)),
                            population_size=int(task.get("population_size", 4)))
            nsol = len(sols)
        except eio._Timeout:
            status = "timeout"
        except eio.StepLimit:
            status = "steplimit"
        except eio.StepBudget:
            status = "budget"
        except RecursionError:
            status = "exc:RecursionError"
        except Exception as e:  # noqa
            status = f"exc:{type(e).__name__}"
    finally:
        signal.setitimer(signal.ITIMER_REAL, 0)
        signal.signal(signal.SIGALRM, old)
        eio._Reg.limit = None
        eio._Reg.per_request = False
        eio._Reg.total_budget = None
    res["status"] = status
    res["solutions"] = nsol
    res["meter"] = {"adds": eio._Reg.adds, "completes": eio._Reg.completes, "admitted": eio._Reg.admitted,
                    "requests": eio._Reg.nrequests}
    rq = eio._Reg.request
    if status in ("steplimit", "exc:RecursionError") and rq is not None and isinstance(rq.get("word"), (str, bytes)):
        # the parse request that was running when the meter stopped the run
        res["last_request"] = {"start": rq["start"], "mode": rq["mode"], "word": eio.word_json(rq["word"]),
                               "steps": eio._Reg.adds + eio._Reg.completes - rq["at"]}
    eio._reset()
    return res
