"""C12 adapter: request histories on ONE real Grammar object, canonical trees, symbolic-term evaluation.

History ops (JSON-able lists; every op has a stable integer id `oid` so that sub-histories produced by the
shrinker stay meaningful — an op that refers to a removed op is skipped):

  [oid,"parse",   w, start, mode]                 g.parse(w, start, mode=mode)            (first tree only)
  [oid,"forest",  w, start, mode, cf]             list(g.parse_forest(..., include_controlflow=cf))
  [oid,"multiple",w, start, mode]                 list(g.parse_multiple(...))
  [oid,"open",    w, start, mode, cf]             gen = g.parse_forest(...)   (nothing runs yet)
  [oid,"next",    open_oid, k]                    pull k trees from that generator
  [oid,"exhaust", open_oid]                       pull it to its end
  [oid,"close",   open_oid]                       gen.close()  (abandon)
  [oid,"pforest", w, start, mode, hook]           list(g._parser.parse_forest(w, start, mode, hookin_parent=H))
  [oid,"api",     w, prefix]                      list(Fandango.parse(w, prefix=prefix)) on the same object
  [oid,"mutate",  src_oid, k, kind, fn]           edit the k-th tree the op src_oid returned
  [oid,"fuzz",    seed]                           fan.fuzz(...) with small sizes (internal parses)
  [oid,"idreuse", w, start, hook1, hook2]         Parser.parse_forest with a hook-in parent object, edit that SAME
                                                  object in place into hook2, ask again with it
                                                  (a cache keyed by object identity would hit)

words: ["s", text] | ["b", hex] | ["tw", [leaf…]] (a DerivationTree word; leaf = 0|1 | ["s",text] | ["b",hex])
modes: 0 = COMPLETE, 1 = INCOMPLETE;  hook: null | ["len", n] (spec-specific hook-in parent)
"""
from __future__ import annotations

import json
import logging
import random
import signal
from typing import Any, Optional


class OpTimeout(Exception):
    pass


# ------------------------------------------------------------------------------------------------
# canonical trees
# ------------------------------------------------------------------------------------------------

def sym_json(sym) -> list:
    if sym.is_terminal:
        tv = sym.value()
        if tv._value is None:
            return ["i", "".join(str(int(b)) for b in tv._trailing_bits)]
        v = tv._value
        if isinstance(v, bytes):
            return ["b", v.hex()]
        return ["t", str(v)]
    if sym.is_non_terminal:
        return ["n", sym.name()]
    return ["s", str(sym)]


def canon_tree(t) -> list:
    """[sym, sender, recipient, read_only, tags, sources, kids] with the tags as they are"""
    return [sym_json(t.symbol), t.sender, t.recipient, bool(t.read_only),
            [[str(a), int(b), int(c)] for (a, b, c) in t.origin_repetitions],
            [canon_tree(s) for s in t.sources],
            [canon_tree(c) for c in t.children]]


def _keys(node: list, out: list) -> None:
    for tg in node[4]:
        out.append((tg[0], tg[1]))
    for s in node[5]:
        _keys(s, out)
    for c in node[6]:
        _keys(c, out)


def _rename(node: list, m: dict) -> list:
    return [node[0], node[1], node[2], node[3], [[tg[0], m[(tg[0], tg[1])], tg[2]] for tg in node[4]],
            [_rename(s, m) for s in node[5]], [_rename(c, m) for c in node[6]]]


def normalize_ids(node: list) -> list:
    """`OTree.normalize`: every (rep id, iteration id) becomes the index of its first occurrence in the
    pre-order tag list of the tree"""
    keys: list = []
    _keys(node, keys)
    m: dict = {}
    for i, k in enumerate(keys):
        m.setdefault(k, i)
    return _rename(node, m)


def canon(t) -> list:
    return normalize_ids(canon_tree(t))


def raw_iteration_ids(t) -> list:
    """the absolute (rep id, iteration id) pairs of a real tree, in pre-order (not part of the comparison)"""
    keys: list = []
    _keys(canon_tree(t), keys)
    return [list(k) for k in keys]


def is_cf(node: list) -> bool:
    return node[0][0] == "n" and node[0][1].startswith("<__")


def collapse_json(node: list) -> list:
    """IterativeParser.collapse on canonical JSON (root is never a control-flow node)"""
    def rec(n: list) -> list:
        kids: list = []
        for c in n[6]:
            kids.extend(rec(c))
        if is_cf(n):
            return kids
        return [[n[0], n[1], n[2], n[3], [list(t) for t in n[4]], [json.loads(json.dumps(s)) for s in n[5]], kids]]
    return rec(node)[0]


# ------------------------------------------------------------------------------------------------
# edits: fn = (1024 if list-kind else 0) + variant * 64 + index   (index: pre-order among kept nodes)
# ------------------------------------------------------------------------------------------------

LIST_VARIANTS = 2     # 0: origin_repetitions.append(("EVIL", 7, index))   1: origin_repetitions.clear()
NODE_VARIANTS = 5     # 0: set_children([])  1: sender="evil"  2: symbol=<evil>  3: sources=[<evil>]  4: origin_repetitions=[…]
EVIL = [["n", "<evil>"], None, None, False, [], [], []]


def edit_code(kind: str, variant: int, index: int) -> int:
    return (1024 if kind == "list" else 0) + variant * 64 + index


def edit_parts(fn: int) -> tuple[str, int, int]:
    kind = "list" if fn >= 1024 else "node"
    fn %= 1024
    return kind, fn // 64, fn % 64


def _kept_real(t, out: list) -> None:
    sym = t.symbol
    if not (sym.is_non_terminal and sym.name().startswith("<__")):
        out.append(t)
    for c in t.children:
        _kept_real(c, out)


def _kept_json(n: list, out: list) -> None:
    if not is_cf(n):
        out.append(n)
    for c in n[6]:
        _kept_json(c, out)


def apply_edit_real(tree, fn: int) -> None:
    from fandango.language.symbols import NonTerminal
    from fandango.language.tree import DerivationTree
    kind, variant, index = edit_parts(fn)
    nodes: list = []
    _kept_real(tree, nodes)
    if index >= len(nodes):
        return
    n = nodes[index]
    if kind == "list":
        if variant == 0:
            n.origin_repetitions.append(("EVIL", 7, index))
        elif variant == 1:
            n.origin_repetitions.clear()
    else:
        if variant == 0:
            n.set_children([])
        elif variant == 1:
            n.sender = "evil"
        elif variant == 2:
            n.symbol = NonTerminal("<evil>")
        elif variant == 3:
            n.sources = [DerivationTree(NonTerminal("<evil>"))]
        elif variant == 4:
            n.origin_repetitions = [("EVIL2", 7, 0)]


def apply_edit_json(tree: list, fn: int) -> list:
    """the same edit on (un-normalised or normalised) canonical JSON; returns a new tree"""
    tree = json.loads(json.dumps(tree))
    kind, variant, index = edit_parts(fn)
    nodes: list = []
    _kept_json(tree, nodes)
    if index >= len(nodes):
        return tree
    n = nodes[index]
    if kind == "list":
        if variant == 0:
            n[4].append(["EVIL", 7, index])
        elif variant == 1:
            n[4] = []
    else:
        if variant == 0:
            n[6] = []
        elif variant == 1:
            n[1] = "evil"
        elif variant == 2:
            n[0] = ["n", "<evil>"]
        elif variant == 3:
            n[5] = [json.loads(json.dumps(EVIL))]
        elif variant == 4:
            n[4] = [["EVIL2", 7, 0]]
    return tree


# ------------------------------------------------------------------------------------------------
# words / hooks
# ------------------------------------------------------------------------------------------------

def word_value(w: list):
    """the object handed to the parser"""
    if w[0] == "s":
        return w[1]
    if w[0] == "b":
        return bytes.fromhex(w[1])
    if w[0] == "tw":
        from fandango.language.symbols import NonTerminal, Terminal
        from fandango.language.tree import DerivationTree
        kids = []
        for leaf in w[1]:
            if isinstance(leaf, int):
                kids.append(DerivationTree(Terminal(leaf)))
            elif leaf[0] == "s":
                kids.append(DerivationTree(Terminal(leaf[1])))
            else:
                kids.append(DerivationTree(Terminal(bytes.fromhex(leaf[1]))))
        return DerivationTree(NonTerminal("<w>"), kids)
    raise ValueError(w)


def word_core(w: list) -> tuple[str, int]:
    """(the str/bytes word the parser sees as a stable key, starter_bit + 1) — `Parser.parse_forest`'s
    own conversion of a DerivationTree word, recomputed here from the leaves"""
    if w[0] == "s":
        return "s:" + w[1], 0
    if w[0] == "b":
        return "b:" + w[1], 0
    leaves = w[1]
    has_bits = any(isinstance(x, int) for x in leaves)
    has_bytes = any((not isinstance(x, int)) and x[0] == "b" for x in leaves)
    sbit = ((len(leaves) - 1) % 8) + 1 if has_bits else 0
    if has_bits or has_bytes:
        bits = ""
        for x in leaves:
            if isinstance(x, int):
                bits += str(x)
            elif x[0] == "b":
                bits += "".join(f"{b:08b}" for b in bytes.fromhex(x[1]))
            else:
                bits += "".join(f"{b:08b}" for b in x[1].encode("utf-8"))
        val = int(bits, 2).to_bytes((len(bits) + 7) // 8, "big") if bits else b""
        return "b:" + val.hex(), sbit
    return "s:" + "".join(x[1] for x in leaves), 0


def hook_value(h: Optional[list]):
    if h is None:
        return None
    from fandango.language.symbols import NonTerminal, Terminal
    from fandango.language.tree import DerivationTree
    if h[0] == "len":
        return DerivationTree(NonTerminal("<start>"),
                              [DerivationTree(NonTerminal("<len>"), [DerivationTree(Terminal(str(h[1])))])])
    raise ValueError(h)


def mode_value(m: int):
    from fandango.language.grammar import ParsingMode
    return ParsingMode.INCOMPLETE if m else ParsingMode.COMPLETE


def exc_json(e: BaseException) -> dict:
    return {"exc": type(e).__name__}


# ------------------------------------------------------------------------------------------------
# one grammar object
# ------------------------------------------------------------------------------------------------

def make_fan(spec: str):
    from fandango import Fandango
    return Fandango(spec, use_cache=False, use_stdlib=False, logging_level=logging.CRITICAL)


class _Alarm:
    def __init__(self, seconds: float):
        self.seconds = seconds

    def __enter__(self):
        def handler(signum, frame):
            raise OpTimeout()
        self.old = signal.signal(signal.SIGALRM, handler)
        signal.setitimer(signal.ITIMER_REAL, self.seconds)

    def __exit__(self, *a):
        signal.setitimer(signal.ITIMER_REAL, 0)
        signal.signal(signal.SIGALRM, self.old)


class Session:
    """executes a history on ONE Fandango/Grammar object and records what every op returned"""

    def __init__(self, spec: str):
        self.fan = make_fan(spec)
        self.g = self.fan.grammar
        self.gens: dict[int, Any] = {}          # open oid -> generator
        self.closed: set[int] = set()
        self.gen_req: dict[int, list] = {}      # open oid -> [w,start,mode,cf]
        self.trees: dict[int, list] = {}        # oid -> real trees the op returned, in order
        self.records: list[dict] = []           # per executed op: {oid, op, req, kind, result:[canon…]|{exc}, done}
        self.raw_ids: dict[int, list] = {}      # oid -> absolute iteration ids of the trees it returned

    def _collect(self, oid: int, it, limit: Optional[int]) -> tuple[list, bool, Optional[dict]]:
        """pull up to `limit` trees (None = all); returns (canon snapshots, exhausted, exception)"""
        out, done = [], False
        store = self.trees.setdefault(oid, [])
        try:
            while limit is None or len(out) < limit:
                try:
                    t = next(it)
                except StopIteration:
                    done = True
                    break
                store.append(t)
                out.append(canon(t))
                self.raw_ids.setdefault(oid, []).append(raw_iteration_ids(t))
        except OpTimeout:
            raise
        except Exception as e:  # noqa: the production exception path is part of the observable result
            return out, True, exc_json(e)
        return out, done, None

    def run_op(self, op: list) -> None:
        oid, name = op[0], op[1]
        g = self.g
        rec: dict = {"oid": oid, "op": name}
        if name == "parse":
            _, _, w, start, mode = op
            rec["req"] = [w, start, mode, False, None]
            rec["kind"] = "first"
            try:
                t = g.parse(word_value(w), start, mode=mode_value(mode))
                if t is None:
                    rec["result"] = []
                else:
                    self.trees.setdefault(oid, []).append(t)
                    rec["result"] = [canon(t)]
            except OpTimeout:
                raise
            except Exception as e:  # noqa
                rec["result"] = exc_json(e)
        elif name in ("forest", "multiple"):
            w, start, mode = op[2], op[3], op[4]
            cf = bool(op[5]) if name == "forest" else False
            rec["req"] = [w, start, mode, cf, None]
            rec["kind"] = "all"
            try:
                it = (g.parse_forest if name == "forest" else g.parse_multiple)(
                    word_value(w), start, mode=mode_value(mode), include_controlflow=cf)
            except OpTimeout:
                raise
            except Exception as e:  # noqa
                rec["result"] = exc_json(e)
            else:
                res, _, exc = self._collect(oid, it, None)
                rec["result"] = exc if exc else res
        elif name == "pforest":
            _, _, w, start, mode, hook = op
            rec["req"] = [w, start, mode, False, hook]
            rec["kind"] = "all"
            it = g._parser.parse_forest(word_value(w), start, mode_value(mode), hookin_parent=hook_value(hook))
            res, _, exc = self._collect(oid, it, None)
            rec["result"] = exc if exc else res
        elif name == "api":
            _, _, w, prefix = op
            rec["req"] = ["api", w, bool(prefix)]
            rec["kind"] = "api"
            it = self.fan.parse(word_value(w), prefix=bool(prefix))
            res, _, exc = self._collect(oid, it, None)
            rec["result"] = exc if exc else res
        elif name == "open":
            _, _, w, start, mode, cf = op
            self.gens[oid] = g.parse_forest(word_value(w), start, mode=mode_value(mode), include_controlflow=bool(cf))
            self.gen_req[oid] = [w, start, mode, bool(cf), None]
            self.trees.setdefault(oid, [])
            rec["kind"] = "none"
        elif name in ("next", "exhaust"):
            src = op[2]
            if src not in self.gens or src in self.closed:
                return                    # a closed generator yields nothing: not a parse request
            k = op[3] if name == "next" else None
            before = len(self.trees[src])
            res, done, exc = self._collect(src, self.gens[src], k)
            rec["req"] = self.gen_req[src]
            rec["kind"] = "slice"
            rec["src"] = src
            rec["offset"] = before
            rec["result"] = exc if exc else res
            rec["done"] = done
        elif name == "close":
            src = op[2]
            if src not in self.gens:
                return
            self.gens[src].close()
            self.closed.add(src)
            rec["kind"] = "none"
            rec["src"] = src
        elif name == "mutate":
            _, _, src, k, kind, fn = op
            ts = self.trees.get(src, [])
            if k >= len(ts):
                return
            apply_edit_real(ts[k], fn)
            rec["kind"] = "none"
        elif name == "idreuse":
            # the SAME hook-in parent object, edited in place between two requests (what a protocol run
            # does: its hook-in point grows): a cache keyed by object identity answers the second
            # request with the first one's forest
            from fandango.language.symbols import Terminal
            from fandango.language.tree import DerivationTree
            _, _, w, start, h1, h2 = op
            rec["req"] = [w, start, 0, False, h2]
            rec["kind"] = "all"
            hook = hook_value(h1)
            list(g._parser.parse_forest(word_value(w), start, mode_value(0), hookin_parent=hook))
            hook.children[0].set_children([DerivationTree(Terminal(str(h2[1])))])
            it = g._parser.parse_forest(word_value(w), start, mode_value(0), hookin_parent=hook)
            res, _, exc = self._collect(oid, it, None)
            rec["result"] = exc if exc else res
        elif name == "fuzz":
            rec["kind"] = "none"
            state = random.getstate()
            random.seed(op[2])
            try:
                self.fan.fuzz(desired_solutions=2, max_generations=3, population_size=5)
            except OpTimeout:
                raise
            except Exception as e:  # noqa
                rec["fuzz_exc"] = type(e).__name__
            finally:
                random.setstate(state)
        else:
            raise ValueError(f"unknown op {name}")
        self.records.append(rec)

    def run(self, history: list, budget_s: float = 20.0) -> list[dict]:
        with _Alarm(budget_s):
            for op in history:
                self.run_op(op)
        return self.records


# ------------------------------------------------------------------------------------------------
# the fresh side
# ------------------------------------------------------------------------------------------------

class _NeverContains(set):
    def __contains__(self, item) -> bool:  # the `_incomplete` filter switched off
        return False


def fresh_answer(spec: str, req: list, budget_s: float = 20.0) -> Any:
    """what a brand-new grammar object answers: the full forest of a request
    req = [w,start,mode,cf,hook] | ["api", w, prefix]"""
    s = Session(spec)
    with _Alarm(budget_s):
        if req[0] == "api":
            s.run_op([0, "api", req[1], req[2]])
        elif req[4] is not None:
            s.run_op([0, "pforest", req[0], req[1], req[2], req[4]])
        else:
            s.run_op([0, "forest", req[0], req[1], req[2], req[3]])
    return s.records[0]["result"], s.raw_ids.get(0, [])


def fresh_raw_tables(spec: str, req: list, budget_s: float = 20.0, with_partial: bool = True) -> tuple[Any, Any]:
    """(complete, partialRaw): parser-side (include_controlflow) trees of the COMPLETE run and the
    candidates of the INCOMPLETE phase with the `_incomplete` filter switched off"""
    w, start, hook = req[0], req[1], req[4]

    def full(mode: int, patch: bool):
        s = Session(spec)
        if patch:
            s.g._parser._iter_parser._incomplete = _NeverContains()
        it = s.g._parser.parse_forest(word_value(w), start, mode_value(mode), hookin_parent=hook_value(hook),
                                      include_controlflow=True)
        with _Alarm(budget_s):
            res, _, exc = s._collect(0, it, None)
        return exc if exc else res
    comp = full(0, False)
    if not with_partial:
        return comp, []        # INCOMPLETE mode is never requested on this grammar
    inc = full(1, True)
    if isinstance(comp, dict) or isinstance(inc, dict):
        return comp, inc
    if inc[:len(comp)] != comp:
        return comp, {"exc": "incomplete-run-does-not-start-with-the-complete-trees"}
    return comp, inc[len(comp):]
