"""Adapters to the real constraint machinery of /repo (E4: C07, C02, C11).

* `parse_spec(text, lazy)`             the real front end (`fandango.language.parse.parse.parse`)
* `build_cons(program)`                the same program as real constraint *objects* constructed directly
* `tree_json(tree)` / `build_tree`     real DerivationTree <-> the driver's tree JSON
* `paths_of(root)`                     id(node) -> child-index path ("" = root)
* `eval_real(constraint, tree, …)`     canonical outcome of `fitness()` / `check()`
* `find_real(search, tree, …)`         canonical match list of a search

Call `harness.common.use_repo()` before importing anything from fandango through this module.
"""
from __future__ import annotations

import warnings
from typing import Any, Optional

from harness.gen import cons as G

warnings.filterwarnings("ignore")


# ------------------------------------------------------------------------------------------------
# trees
# ------------------------------------------------------------------------------------------------

def tree_json(t) -> list:
    from fandango.language.symbols import NonTerminal, Terminal
    sym = t.symbol
    if isinstance(sym, NonTerminal):
        return ["n", sym.name(), t.sender, t.recipient, [tree_json(c) for c in t._children]]
    if isinstance(sym, Terminal):
        v = sym._value
        raw = v._value
        if isinstance(raw, str) and not v._trailing_bits:
            return ["t", [ord(c) for c in raw], t.sender, t.recipient]
        if isinstance(raw, bytes) and not v._trailing_bits:
            return ["b", list(raw), t.sender, t.recipient]
        if raw is None and len(v._trailing_bits) == 1:
            return ["i", int(v._trailing_bits[0]), t.sender, t.recipient]
        raise ValueError(f"terminal value not representable: {v!r}")
    return ["s", [tree_json(c) for c in t._children]]


def build_tree(j: list):
    from fandango.language.symbols import NonTerminal, Terminal
    from fandango.language.tree import DerivationTree
    if j[0] == "n":
        return DerivationTree(NonTerminal(j[1]), [build_tree(k) for k in j[4]], sender=j[2], recipient=j[3])
    if j[0] == "t":
        return DerivationTree(Terminal("".join(chr(c) for c in j[1])))
    if j[0] == "b":
        return DerivationTree(Terminal(bytes(j[1])))
    raise ValueError(j[0])


def paths_of(root) -> dict[int, str]:
    out: dict[int, str] = {}

    def go(t, p: str) -> None:
        out[id(t)] = p
        for i, c in enumerate(t._children):
            go(c, f"{p}.{i}" if p else str(i))
    go(root, "")
    return out


def node_at(root, path: str):
    t = root
    if path:
        for i in path.split("."):
            t = t._children[int(i)]
    return t


# ------------------------------------------------------------------------------------------------
# constraints
# ------------------------------------------------------------------------------------------------

def parse_spec(text: str, lazy: bool = False):
    from fandango.language.parse.parse import parse
    return parse(text, use_cache=False, use_stdlib=False, lazy=lazy)


def build_search(s: list):
    from fandango.language.search import (AttributeSearch, DescendantAttributeSearch, ItemSearch, LengthSearch,
                                          RuleSearch, SelectiveSearch, StarSearch)
    from fandango.language.symbols import NonTerminal
    tag = s[0]
    if tag == "rule":
        return RuleSearch(NonTerminal(s[1]))
    if tag == "attr":
        return AttributeSearch(build_search(s[1]), build_search(s[2]))
    if tag == "desc":
        return DescendantAttributeSearch(build_search(s[1]), build_search(s[2]))
    if tag == "item":
        sl = [x[1] if x[0] == "idx" else slice(x[1], x[2], x[3]) for x in s[2]]
        return ItemSearch(build_search(s[1]), sl)
    if tag == "sel":
        def one(x):
            return None if x is None else (x[1] if x[0] == "idx" else slice(x[1], x[2], x[3]))
        return SelectiveSearch(build_search(s[1]), [(NonTerminal(sym), bool(d)) for sym, d, _ in s[2]],
                               [one(it) for _, _, it in s[2]])
    if tag == "star":
        return StarSearch(build_search(s[1]))
    if tag == "len":
        return LengthSearch(build_search(s[1]))
    raise ValueError(tag)


def build_bound(b: list):
    from fandango.language.symbols import NonTerminal
    return NonTerminal(b[1]) if b[0] == "nt" else b[1]


def build_cons(c: list):
    """the program as real constraint objects, constructed directly (no front end)"""
    from fandango.constraints.comparison import ComparisonConstraint
    from fandango.constraints.conjunction import ConjunctionConstraint
    from fandango.constraints.disjunct import DisjunctionConstraint
    from fandango.constraints.exists import ExistsConstraint
    from fandango.constraints.expression import ExpressionConstraint
    from fandango.constraints.failing_tree import Comparison
    from fandango.constraints.forall import ForallConstraint
    from fandango.constraints.implication import ImplicationConstraint
    tag = c[0]
    kw: dict[str, Any] = {"local_variables": {}, "global_variables": {}}
    if tag == "expr":
        nm = G.Namer(c[2], as_text=False)
        searches = {nm.ref(["ph", i]): build_search(s) for i, s in enumerate(c[2])}
        return ExpressionConstraint("bool(" + G.bexpr_py(c[1], nm) + ")", searches=searches, **kw)
    if tag == "cmp":
        nm = G.Namer(c[2], as_text=False)
        l, op, r = G.cmp_sides(c[1], nm)
        left_ids = set(G.refs_of_term(c[1][2]))
        ls = {nm.ref(["ph", i]): build_search(s) for i, s in enumerate(c[2]) if i in left_ids}
        rs = {nm.ref(["ph", i]): build_search(s) for i, s in enumerate(c[2]) if i not in left_ids}
        return ComparisonConstraint(Comparison(op), l, r, left_searches=ls, right_searches=rs, **kw)
    if tag == "conj":
        return ConjunctionConstraint([build_cons(x) for x in c[2]], lazy=c[1], **kw)
    if tag == "disj":
        return DisjunctionConstraint([build_cons(x) for x in c[2]], lazy=c[1], **kw)
    if tag == "impl":
        return ImplicationConstraint(build_cons(c[1]), build_cons(c[2]), **kw)
    if tag in ("all", "any"):
        cls = ForallConstraint if tag == "all" else ExistsConstraint
        return cls(build_cons(c[4]), build_bound(c[2]), build_search(c[3]), lazy=c[1], **kw)
    raise ValueError(tag)


EXC = {"IndexError": "index", "TypeError": "type", "ValueError": "value"}


def exc_kind(e: BaseException) -> str:
    return EXC.get(type(e).__name__, "other:" + type(e).__name__)


def fit_canon(f) -> dict:
    """solved/total/success + fitness() as an exact ratio"""
    v = f.fitness()
    num, den = (float(v).as_integer_ratio() if isinstance(v, float) else (int(v), 1))
    return {"solved": f.solved, "total": f.total, "success": bool(f.success), "ratio": [num, den],
            "dist": hasattr(f, "values")}


def eval_real(constraint, tree, scope: Optional[dict] = None, local_variables: Optional[dict] = None) -> dict:
    try:
        f = constraint.fitness(tree, scope, local_variables)
    except Exception as e:  # noqa: BLE001 — an exception escaping fitness() is an outcome
        return {"err": exc_kind(e)}
    return {"ok": fit_canon(f)}


def model_fit_canon(a: dict) -> dict:
    """the driver's answer in the same shape as `eval_real` (ratio reduced like float.as_integer_ratio)"""
    if "err" in a:
        return {"err": a["err"]}
    f = a["ok"]
    num, den = (float(f["num"]) / float(f["den"])).as_integer_ratio() if f["den"] else (0, 1)
    return {"ok": {"solved": f["solved"], "total": f["total"], "success": f["success"], "ratio": [num, den],
                   "dist": f["dist"]}}


def item_canon(t, paths: dict[int, str]) -> list:
    from fandango.language.tree import SliceTree
    if isinstance(t, SliceTree):
        return ["slice", [paths.get(id(k), "?") for k in t._children]]
    return ["tree", paths.get(id(t), "?")]


def find_real(search, tree, scope: Optional[dict], paths: dict[int, str], direct: bool = False) -> dict:
    from fandango.language.search import Length, TreeList
    try:
        cs = (search.find_direct if direct else search.find)(tree, scope=scope)
    except Exception as e:  # noqa: BLE001
        return {"err": exc_kind(e)}
    out = []
    for c in cs:
        inner = getattr(c, "_inner", c)
        if isinstance(inner, TreeList):
            out.append(["list", [item_canon(t, paths) for t in inner.get_trees()]])
        elif isinstance(inner, Length):
            out.append(["len", [item_canon(t, paths) for t in inner.get_trees()]])
        else:
            out.append(item_canon(inner.get_trees()[0], paths))
    return {"ok": out}


def clear_caches(constraint) -> None:
    """empty the memo tables of a constraint and everything below it"""
    seen = set()

    def go(c) -> None:
        if id(c) in seen:
            return
        seen.add(id(c))
        if hasattr(c, "cache"):
            c.cache.clear()
        for attr in ("constraints",):
            for x in getattr(c, attr, []) or []:
                go(x)
        for attr in ("statement", "antecedent", "consequent"):
            x = getattr(c, attr, None)
            if x is not None:
                go(x)
    go(constraint)
