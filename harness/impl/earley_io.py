"""Adapter between the real Earley parser (`IterativeParser`, `Column`, `ParseState`) and the E3 model
driver (`drv_earley`).  Shared by C06 (termination) and C04 (soundness).

Every real parse runs inside a *worker process* under a step meter and a hard wall-clock alarm: the real
parser diverges on some grammars (C06).  The worker returns only plain JSON-able data:

    real_case(task) -> {
      "status": "ok" | "exc:<Class>" | "timeout" | "truncated" | "spec_error:<Class>" | "not_modelled:<why>",
      "grammar": IR json, "cap": MAX_REPETITIONS at compile time (only the OLD compilation used it),
      "regexes": [...patterns repr...],
      "rules":   canonical compiled rule table {nt: [[sym...]...]},      (helper names by structure; compared with the
                 model's `compile` by `compile_corr`)
      "cols":    per column the admitted states [[lhs,[sym..],dot,origin,nkids]...] in admission order (incomplete
                 states dropped); also for a run stopped by the step meter (status "steplimit": the chart so far)
      "pred":    [[column, nt, [[sym..]..]]]   order in which `predict` added the alternatives,
      "rlen":    [[regexId, cell, greedyLen]]  CPython `re.match` at every cell (independent of fandango),
      "forest":  collapsed real trees as tree JSON (at most max_trees),
      "meter":   {"adds","admitted","completes","incomplete"},
      "out":     per tree the per-output observations for C04 (value == input, helper symbols, root) }

Symbols: ["lit", leaf] | ["re", id] | ["nt", name, sender, recipient]; helper nonterminals `<*c*>` are renamed
to `<*<node id>:<j>*>` exactly like `FV.Earley.ntName` does for `NT.impl n j`.

The model side is asked with the *variant* of the parser that harness/translate_earley.py reads from the source
(`model_request(real, task, variant, fuel)`): admission policy, `{n,}` compilation, completing `predict`, scanner guards;
the key `cutShort` of the variant (the source has `ParseState.cut_short`) is a parameter of the PREFIX-mode model only
(`prefix_request`; op `parse` does not read it).  `ParseState.cut_short` is observed on the real side: `res["marked"]` /
`rec["marked_before_last"]` count marked states where the model says there are none (COMPLETE mode; the columns before
the last of a prefix run), `rec["lastB"]` is the last column of a prefix run as the end-of-input pass left it (before the
final `place_repetition_shortcut`, which re-creates states without the flag), every state with its two flags.
"""
from __future__ import annotations

import json
import os
import re
import signal
import time
from typing import Any, Optional

from harness.impl import grammar_io as gio


class _Timeout(BaseException):
    pass


class StepLimit(BaseException):
    """the step meter (Column.add + IterativeParser.complete calls) exceeded `_Reg.limit` (C06: caps are counted
    in steps; the wall-clock alarm is only a backstop)"""


class StepBudget(BaseException):
    """the whole-run budget of metered steps is used up while every single parse request stayed below the per-request
    limit (fuzz runs): the run is stopped to save time, NOT a verdict"""


class _Reg:
    cols: list = []
    adds = 0
    admitted = 0
    completes = 0
    states = 0            # ParseState objects constructed (every loop of the parser builds states)
    pred: list = []
    request: Optional[dict] = None   # the parse request that is running (start, mode, word, meter at its start)
    nrequests = 0
    installed = False
    limit: Optional[int] = None      # None = unmetered (C04); set per request from task["step_limit"]
    last_b: Optional[list] = None    # (column object, [(state, is_incomplete, cut_short)]) before the final shortcut
    per_request = False              # the limit applies to the metered steps of ONE parse request (fuzz runs)
    total_budget: Optional[int] = None   # with per_request: stop the whole run after so many steps (no verdict)


def _install() -> None:
    """step meter + recorders; monkeypatches only wrap, behaviour is unchanged"""
    if _Reg.installed:
        return
    from fandango.language.grammar.parser.column import Column
    from fandango.language.grammar.parser.iterative_parser import IterativeParser

    from fandango.language.grammar.parser.parse_state import ParseState
    orig_init = Column.__init__
    orig_add = Column.add
    orig_complete = IterativeParser.complete
    orig_state_init = ParseState.__init__

    def state_init(self, *a, **k):
        _Reg.states += 1
        if _Reg.limit is not None and not _Reg.per_request and _Reg.states > 8 * _Reg.limit:
            raise StepLimit()
        orig_state_init(self, *a, **k)

    ParseState.__init__ = state_init

    def init(self, states=None):
        orig_init(self, states)
        _Reg.cols.append(self)

    def over() -> bool:
        if _Reg.limit is None:
            return False
        if _Reg.per_request and _Reg.total_budget is not None and _Reg.adds + _Reg.completes > _Reg.total_budget:
            raise StepBudget()
        base = _Reg.request["at"] if (_Reg.per_request and _Reg.request is not None) else 0
        return _Reg.adds + _Reg.completes - base > _Reg.limit

    def add(self, state):
        r = orig_add(self, state)
        _Reg.adds += 1
        if r:
            _Reg.admitted += 1
        if over():
            raise StepLimit()
        return r

    def update(self, states):
        lst = list(states)            # the iteration order of the set `predict` built (hash-seed dependent)
        _Reg.pred.append((self, lst))
        for s in lst:
            self.add(s)

    def complete(self, *a, **k):
        _Reg.completes += 1
        if over():
            raise StepLimit()
        return orig_complete(self, *a, **k)

    orig_shortcut = IterativeParser.place_repetition_shortcut

    def shortcut(self, table, k):
        # the last column as the end-of-input pass of a prefix parse left it: `place_repetition_shortcut` builds fresh
        # `ParseState`s (no `cut_short`), so the flags are read before it runs
        if k == len(table) - 1:
            _Reg.last_b = (table[k], [(s, bool(s.is_incomplete), bool(getattr(s, "cut_short", False)))
                                      for s in table[k].states])
        return orig_shortcut(self, table, k)

    IterativeParser.place_repetition_shortcut = shortcut
    orig_new_parse = IterativeParser.new_parse
    orig_consume = IterativeParser._consume

    def new_parse(self, start="<start>", mode=None, *a, **k):
        _Reg.nrequests += 1
        _Reg.request = {"start": start if isinstance(start, str) else start.name(), "mode": getattr(mode, "name", str(mode)),
                        "word": None, "at": _Reg.adds + _Reg.completes}
        if mode is None:
            return orig_new_parse(self, start, *a, **k)
        return orig_new_parse(self, start, mode, *a, **k)

    def consume(self, char):
        if _Reg.request is not None and _Reg.request.get("word") is None and isinstance(char, (str, bytes)):
            _Reg.request["word"] = char
        return orig_consume(self, char)

    Column.__init__ = init
    Column.add = add
    Column.update = update
    IterativeParser.complete = complete
    IterativeParser.new_parse = new_parse
    IterativeParser._consume = consume
    _Reg.installed = True


def _reset() -> None:
    _Reg.cols = []
    _Reg.adds = _Reg.admitted = _Reg.completes = _Reg.states = 0
    _Reg.pred = []
    _Reg.request = None
    _Reg.nrequests = 0
    _Reg.last_b = None


def marked(cols: list) -> int:
    """states with `cut_short` set (the attribute does not exist before the repair of C19:F68)"""
    return sum(1 for c in cols for s in c.states if getattr(s, "cut_short", False))


# ------------------------------------------------------------------------------------------------
# canonical names
# ------------------------------------------------------------------------------------------------

def implicit_names(ip) -> dict[str, str]:
    """`<*c*>` -> `<*<owner id>:<j>*>` from the structure of the rule tables"""
    from fandango.language.grammar.nodes.repetition import Option, Plus, Repetition, Star
    from fandango.language.symbols import NonTerminal
    out: dict[str, str] = {}
    for name, node in ip._nodes.items():
        if not isinstance(node, Repetition) or isinstance(node, Option):
            continue
        alts = list(ip._rules[NonTerminal(name)])
        if len(alts) != 1 or len(alts[0]) != 1:
            raise gio.NotModelled(f"repetition rule shape {name}")
        head = alts[0][0][0]
        nid = str(node.id)
        if isinstance(node, (Star, Plus)):
            out[head.name()] = f"<*{nid}:0*>"
            continue
        if node.bounds_constraint is not None:
            raise gio.NotModelled("computed repetition")
        if node.internal_max is None:
            # open-ended `{n,}` after /repo b48dd899: head `n*[wrapper] + [tail]`, tail `[] | [wrapper, tail]`
            head_alts = list(ip._implicit_rules[head])
            if len(head_alts) == 1 and len(head_alts[0]) == node.min + 1:
                tail = head_alts[0][-1][0]
                tail_alts = sorted((list(a) for a in ip._implicit_rules.get(tail, ())), key=len)
                if len(tail_alts) == 2 and len(tail_alts[0]) == 0 and len(tail_alts[1]) == 2 \
                        and tail_alts[1][1][0] == tail:
                    out[head.name()] = f"<*{nid}:2*>"
                    out[tail.name()] = f"<*{nid}:1*>"
                    out[tail_alts[1][0][0].name()] = f"<*{nid}:0*>"
                    continue
            # otherwise: the capped compilation (before b48dd899), `node.max` = MAX_REPETITIONS
        d = node.max - node.min
        out[head.name()] = f"<*{nid}:{d + 1}*>"
        wrapper = None
        prev = None
        for a in ip._implicit_rules[head]:
            if len(a) == node.min + 1 and d > 0:
                prev = a[-1][0]
            if len(a) >= 1 and node.min >= 1:
                wrapper = a[0][0]
        j = d
        while prev is not None:
            out[prev.name()] = f"<*{nid}:{j}*>"
            nxt = None
            for a in ip._implicit_rules[prev]:
                wrapper = a[0][0]
                if len(a) == 2:
                    nxt = a[1][0]
            prev = nxt
            j -= 1
        if wrapper is None:
            raise gio.NotModelled(f"no body wrapper for {name}")
        out[wrapper.name()] = f"<*{nid}:0*>"
    return out


class Namer:
    def __init__(self, ip, regexes: gio.RegexTable):
        self.impl = implicit_names(ip)
        self.regexes = regexes

    def nt(self, sym) -> str:
        n = sym.name()
        return self.impl.get(n, n)

    def sym(self, content) -> list:
        sym, params = content
        if sym.is_non_terminal:
            p = dict(params)
            return ["nt", self.nt(sym), p.get("sender"), p.get("recipient")]
        payload = gio.terminal_payload(sym)
        if sym.is_regex:
            return ["re", self.regexes.id_of(payload)]
        return ["lit", gio.leaf_json(payload)]

    def rhs(self, symbols) -> list:
        return [self.sym(c) for c in symbols]

    def state(self, st) -> list:
        return [self.nt(st.nonterminal), self.rhs(st.symbols), st._dot, st.position, len(st.children)]


def canonical_rules(ip, namer: Namer) -> dict[str, list]:
    out: dict[str, list] = {}
    for table in (ip._rules, ip._implicit_rules):
        for nt, alts in table.items():
            out[namer.nt(nt)] = sorted((namer.rhs(a) for a in alts), key=json.dumps)
    return out


# ------------------------------------------------------------------------------------------------
# independent regex oracle
# ------------------------------------------------------------------------------------------------

def regex_lengths(regexes: gio.RegexTable, word) -> list:
    """greedy `re.match` length of every regex terminal at every cell, with `Terminal.check`'s coercions
    (bytes pattern on bytes input compares bytes; every other combination compares latin-1 text)"""
    out = []
    for rid, pat in enumerate(regexes.patterns):
        for w in range(len(word) + 1):
            chunk = word[w:]
            if isinstance(pat, bytes) and isinstance(chunk, bytes):
                p, c = pat, chunk
            else:
                p = pat if isinstance(pat, str) else pat.decode("latin-1")
                c = chunk if isinstance(chunk, str) else chunk.decode("latin-1")
            try:
                m = re.match(p, c)
            except re.error:
                m = None
            if m:
                out.append([rid, w, len(m.group(0))])
    return out


def regex_partial(regexes: gio.RegexTable, word) -> list:
    """[[regexId, cell]] for every cell at which `Terminal.check(word[cell:], incomplete=True)` holds, computed with the
    `regex` module directly (partial matching; independent of fandango), with `Terminal.check`'s coercions.  The
    matched length must be the whole rest of the input (the model relies on it): anything else is `NotModelled`."""
    import regex as regex_mod
    out = []
    for rid, pat in enumerate(regexes.patterns):
        for w in range(len(word) + 1):
            chunk = word[w:]
            if isinstance(pat, bytes) and isinstance(chunk, bytes):
                p, c = pat, chunk
            else:
                p = pat if isinstance(pat, str) else pat.decode("latin-1")
                c = chunk if isinstance(chunk, str) else chunk.decode("latin-1")
            try:
                compiled = regex_mod.compile(p)
            except Exception:  # noqa
                continue
            got = None
            m = compiled.match(c, partial=True)
            if m is not None and (m.partial or m.end() == len(c)):
                got = len(m.group(0))
            else:
                m = compiled.fullmatch(c, partial=True)
                if m is not None and (m.partial or m.end() == len(c)):
                    got = len(m.group(0))
            if got is not None:
                if got != len(c):
                    raise gio.NotModelled("partial regex match shorter than the rest of the input")
                out.append([rid, w])
    return out


# ------------------------------------------------------------------------------------------------
# the worker
# ------------------------------------------------------------------------------------------------

class SpecTimeout(Exception):
    pass


def parse_spec_guarded(spec: str, cap_s: float = 5.0):
    """the real front end under an alarm: `Grammar.prime()` does not return for an unproductive grammar"""
    def on_alarm(signum, frame):
        raise SpecTimeout()
    old = signal.signal(signal.SIGALRM, on_alarm)
    signal.setitimer(signal.ITIMER_REAL, cap_s)
    try:
        return gio.parse_spec(spec)
    finally:
        signal.setitimer(signal.ITIMER_REAL, 0)
        signal.signal(signal.SIGALRM, old)


def word_of(wj: dict):
    if wj["kind"] == "bytes":
        return bytes(wj["cells"])
    return "".join(chr(c) for c in wj["cells"])


def word_json(word) -> dict:
    if isinstance(word, (bytes, bytearray)):
        return {"kind": "bytes", "cells": list(word)}
    return {"kind": "str", "cells": [ord(c) for c in word]}


HELPER_PREFIXES = ("<__", "<*")


def _helper_symbols(tree) -> list[str]:
    bad = []
    stack = [tree]
    while stack:
        t = stack.pop()
        if t.symbol.is_non_terminal and t.symbol.name().startswith(HELPER_PREFIXES):
            bad.append(t.symbol.name())
        stack.extend(t.children)
    return bad


def observe_tree(tree, word, start: str) -> dict:
    """per-output observations for C04, made on the real tree object"""
    o: dict[str, Any] = {"root": tree.symbol.name() if tree.symbol.is_non_terminal else None,
                         "helpers": _helper_symbols(tree)[:3]}
    try:
        if isinstance(word, bytes):
            got = bytes(tree)
            o["value_ok"] = got == word
            o["value"] = list(got)
            if tree.contains_bits():
                bits = tree.to_bits()
                want = "".join(f"{b:08b}" for b in word)
                o["bits_ok"] = bits == want
        else:
            got = str(tree)
            o["value_ok"] = got == word
            o["value"] = [ord(c) for c in got]
    except Exception as e:  # noqa
        o["value_ok"] = False
        o["value_exc"] = type(e).__name__
    return o


def pred_record(cols: list, namer: "Namer") -> list:
    """[[column, nt, [[sym..]..]]]: the order in which `predict` added the alternatives (first call per column and symbol)"""
    seen = set()
    pred = []
    for col, lst in _Reg.pred:
        if not lst:
            continue
        k = next((i for i, c in enumerate(cols) if c is col), None)
        key = (k, lst[0].nonterminal.name())
        if k is None or key in seen:
            continue
        seen.add(key)
        pred.append([k, namer.nt(lst[0].nonterminal), [namer.rhs(s.symbols) for s in lst]])
    return pred


def real_case(task: dict) -> dict:
    """task: {"spec": text, "word": {"kind","cells"}, "start": "<start>", "cap_s": float, "max_trees": int}"""
    from harness.common import use_repo
    use_repo()
    _install()
    from fandango.language.grammar import nodes as nodes_mod
    t0 = time.time()
    res: dict[str, Any] = {"id": task.get("id")}
    try:
        grammar, _cons = parse_spec_guarded(task["spec"], 10.0)
    except Exception as e:  # noqa
        res["status"] = f"spec_error:{type(e).__name__}"
        return res
    try:
        gj, regexes = gio.grammar_to_json(grammar)
        ip = grammar._parser._iter_parser
        if ip._context_rules:
            raise gio.NotModelled("computed repetition")
        namer = Namer(ip, regexes)
        res["grammar"] = gj
        res["cap"] = int(nodes_mod.MAX_REPETITIONS)
        res["rules"] = canonical_rules(ip, namer)
        res["regexes"] = [repr(p) for p in regexes.patterns]
    except gio.NotModelled as e:
        res["status"] = f"not_modelled:{e}"
        return res
    word = word_of(task["word"])
    res["rlen"] = regex_lengths(regexes, word)
    start = task.get("start", "<start>")
    max_trees = int(task.get("max_trees", 64))
    trees = []
    _reset()
    _Reg.limit = task.get("step_limit")

    def on_alarm(signum, frame):
        raise _Timeout()

    old = signal.signal(signal.SIGALRM, on_alarm)
    signal.setitimer(signal.ITIMER_REAL, float(task.get("cap_s", 5.0)))
    status = "ok"
    try:
        try:
            for tree in grammar.parse_forest(word, start=start):
                trees.append(tree)
                if len(trees) >= max_trees:
                    status = "truncated"
                    break
        except _Timeout:
            status = "timeout"
        except StepLimit:
            status = "steplimit"
        except Exception as e:  # noqa
            status = f"exc:{type(e).__name__}"
    finally:
        signal.setitimer(signal.ITIMER_REAL, 0)
        signal.signal(signal.SIGALRM, old)
        _Reg.limit = None
    res["status"] = status
    res["wall"] = round(time.time() - t0, 3)
    cols = _Reg.cols
    res["meter"] = {"adds": _Reg.adds, "admitted": _Reg.admitted, "completes": _Reg.completes,
                    "incomplete": sum(1 for c in cols for s in c.states if s.is_incomplete),
                    "ncols": len(cols), "states": _Reg.states}
    if status in ("ok", "truncated", "steplimit") or status.startswith("exc:"):
        # (for a run stopped by the step meter: the chart as far as it got, for the lock-step prefix comparison)
        try:
            res["cols"] = [[namer.state(s) for s in c.states if not s.is_incomplete] for c in cols]
            # COMPLETE mode never marks a state (`C06_cut_short_irrelevant_in_complete_mode`): observed
            res["marked"] = marked(cols)
            res["pred"] = pred_record(cols, namer)
            res["forest"] = [gio.tree_to_json(t) for t in trees]
            res["out"] = [observe_tree(t, word, start) for t in trees]
        except gio.NotModelled as e:
            res["status"] = f"not_modelled:{e}"
    _reset()
    if task.get("modes"):
        res["modes"] = other_modes(task, word, start)
    return res


def other_modes(task: dict, word, start: str) -> dict:
    """first-tree request and prefix (INCOMPLETE) request on fresh grammar objects, each under its own alarm"""
    from fandango.language.grammar import ParsingMode
    out = {}

    def on_alarm(signum, frame):
        raise _Timeout()

    for name in ("first", "prefix"):
        try:
            grammar, _ = gio.parse_spec(task["spec"])
        except Exception as e:  # noqa
            out[name] = f"spec_error:{type(e).__name__}"
            continue
        rec: Optional[dict] = None
        namer = None
        ptrees: list = []
        if name == "prefix":
            # the record for the model of prefix mode (Model/EarleyPrefix.lean): a grammar object of its own, so its
            # IR (node ids), regex table and oracles are taken from THIS object
            try:
                gj, regexes = gio.grammar_to_json(grammar)
                ip = grammar._parser._iter_parser
                if ip._context_rules:
                    raise gio.NotModelled("computed repetition")
                namer = Namer(ip, regexes)
                rec = {"grammar": gj, "rlen": regex_lengths(regexes, word), "rinc": regex_partial(regexes, word),
                       "rules": canonical_rules(ip, namer)}
            except gio.NotModelled as e:
                rec = {"not_modelled": str(e)}
                namer = None
        _reset()
        _Reg.limit = task.get("step_limit")
        old = signal.signal(signal.SIGALRM, on_alarm)
        signal.setitimer(signal.ITIMER_REAL, float(task.get("cap_s", 5.0)))
        st = "ok"
        n = 0
        try:
            try:
                if name == "first":
                    grammar.parse(word, start=start)
                else:
                    for _t in grammar.parse_forest(word, start=start, mode=ParsingMode.INCOMPLETE):
                        n += 1
                        ptrees.append(_t)
                        if n >= int(task.get("max_trees", 64)):
                            st = "truncated"
                            break
            except _Timeout:
                st = "timeout"
            except StepLimit:
                st = "steplimit"
            except Exception as e:  # noqa
                st = f"exc:{type(e).__name__}"
        finally:
            signal.setitimer(signal.ITIMER_REAL, 0)
            signal.signal(signal.SIGALRM, old)
            _Reg.limit = None
        out[name] = st
        out[name + "_adds"] = _Reg.adds
        out[name + "_steps"] = _Reg.adds + _Reg.completes
        out[name + "_trees"] = n
        if name == "prefix" and rec is not None:
            if namer is not None and (st in ("ok", "truncated", "steplimit") or st.startswith("exc:")):
                try:
                    cols = _Reg.cols
                    last = len(cols) - 1
                    # per column the admitted states; the incomplete ones (last column) carry their flag
                    rec["cols"] = [[namer.state(s) + ([bool(s.is_incomplete)] if (k == last or s.is_incomplete) else [])
                                    for s in c.states] for k, c in enumerate(cols)]
                    rec["marked_before_last"] = marked(cols[:last]) if last >= 0 else 0
                    lb = _Reg.last_b
                    if st == "ok" and lb is not None and last >= 0 and lb[0] is cols[last]:
                        # (the shortcut replaces states by new objects, it does not change the old ones)
                        rec["lastB"] = [namer.state(s0) + [inc, cut] for (s0, inc, cut) in lb[1]]
                    rec["pred"] = pred_record(cols, namer)
                    rec["forest"] = [gio.tree_to_json(t) for t in ptrees]
                    rec["out"] = [observe_partial(t, word) for t in ptrees]
                except gio.NotModelled as e:
                    rec = {"not_modelled": str(e)}
            out["prefix_rec"] = rec
    _reset()
    return out


def observe_partial(tree, word) -> dict:
    """per-output observations on a real partial tree (C04, prefix mode): the leaves spell the whole input; no helper
    symbols; (validity of the partial derivation is judged by the model side)"""
    o: dict[str, Any] = {"root": tree.symbol.name() if tree.symbol.is_non_terminal else None,
                         "helpers": _helper_symbols(tree)[:3]}
    try:
        if isinstance(word, bytes):
            o["value_ok"] = bytes(tree) == word
        else:
            o["value_ok"] = str(tree) == word
    except Exception as e:  # noqa
        o["value_ok"] = False
        o["value_exc"] = type(e).__name__
    return o


def prefix_request(rec: dict, task: dict, variant: dict, fuel: int, max_trees: int, stop_trees: int = 0) -> dict:
    """the model request for the recorded prefix run; `stop_trees` = n: the real generator was abandoned after its
    n-th tree (`max_trees`), the model stops at the same point (its chart is then compared as it is there)"""
    wj = task["word"]
    return {"op": "prefix", "stop_trees": stop_trees, "grammar": rec["grammar"], "variant": dict(variant), "start": task.get("start", "<start>"),
            "fuel": fuel, "max_trees": max_trees,
            "input": {"bytes": wj["kind"] == "bytes", "cells": wj["cells"], "rlen": rec.get("rlen", []),
                      "rinc": rec.get("rinc", [])},
            "pred": rec.get("pred", [])}


# ------------------------------------------------------------------------------------------------
# pool
# ------------------------------------------------------------------------------------------------

def run_pool(tasks: list[dict], workers: int = 16, backstop_s: float = 60.0, fn=None) -> list[dict]:
    """run `real_case` (or the module-level function `fn`) on every task in worker processes; a worker that does
    not come back within cap_s + backstop_s is killed and reported as status 'killed' (never silently dropped)"""
    fn = fn or real_case
    import multiprocessing as mp
    from harness.common import child_env
    if not tasks:
        return []
    os.environ.update({k: v for k, v in child_env().items() if k in ("PYTHONPATH",)})
    ctx = mp.get_context("spawn")
    out: list[Optional[dict]] = [None] * len(tasks)
    with ctx.Pool(processes=min(workers, max(1, len(tasks))), maxtasksperchild=200) as pool:
        pending = [(i, pool.apply_async(fn, (t,))) for i, t in enumerate(tasks)]
        killed = 0
        nproc = min(workers, max(1, len(tasks)))
        for i, fut in pending:
            # a worker that never comes back keeps its pool process: once half of the processes are lost to such
            # tasks the rest of the queue would crawl through one back-stop after the other — what has already come
            # back is collected, the others are reported as not run (the killed ones carry the verdict)
            exhausted = killed >= max(3, nproc // 2)
            try:
                out[i] = fut.get(timeout=1.0 if exhausted else float(tasks[i].get("cap_s", 5.0)) + backstop_s)
            except mp.TimeoutError:
                if exhausted:
                    out[i] = {"id": tasks[i].get("id"), "status": "not_run:pool_exhausted"}
                else:
                    killed += 1
                    out[i] = {"id": tasks[i].get("id"), "status": "killed"}
            except Exception as e:  # noqa
                out[i] = {"id": tasks[i].get("id"), "status": f"worker_error:{type(e).__name__}:{e}"}
        pool.terminate()
    return [o if o is not None else {"status": "killed"} for o in out]


# ------------------------------------------------------------------------------------------------
# model side
# ------------------------------------------------------------------------------------------------

def current_variant() -> dict:
    """the variant of the parser the source is now (translator); a refused translation raises MachineryError-free
    ValueError: the callers report the refusal as a broken obligation before they get here"""
    from harness import translate_earley
    info = translate_earley.regenerate()
    if info.get("variant") is None:
        raise ValueError("translate_earley refused: " + "; ".join(info.get("refusals", [])))
    return dict(info["variant"])


def model_request(real: dict, task: dict, variant: dict, fuel: int, policy: Optional[str] = None) -> dict:
    """`variant`: the translator's variant of the code; `policy` overrides its admission policy (the core recogniser)"""
    wj = task["word"]
    v = dict(variant)
    if policy is not None:
        v["policy"] = policy
    return {"op": "parse", "grammar": real["grammar"], "variant": v, "start": task.get("start", "<start>"),
            "fuel": fuel,
            "input": {"bytes": wj["kind"] == "bytes", "cells": wj["cells"], "rlen": real.get("rlen", [])},
            "pred": real.get("pred", [])}


def canon_cols(cols: list) -> list:
    return [sorted(json.dumps(s, separators=(",", ":")) for s in col) for col in cols]


def canon_core_cols(cols: list) -> list:
    """per column the *set* of core items (children ignored)"""
    return [sorted({json.dumps(s[:4], separators=(",", ":")) for s in col}) for col in cols]


def lockstep_mismatch(model_cols: list, real_cols: list) -> Optional[dict]:
    """two runs of the same deterministic machine stopped at different points: in every column the states admitted
    so far (admission order) of the one that got less far are a prefix of the other's.  None = compatible."""
    for k in range(max(len(model_cols), len(real_cols))):
        a = [json.dumps(s, separators=(",", ":")) for s in (model_cols[k] if k < len(model_cols) else [])]
        b = [json.dumps(s, separators=(",", ":")) for s in (real_cols[k] if k < len(real_cols) else [])]
        n = min(len(a), len(b))
        for i in range(n):
            if a[i] != b[i]:
                return {"column": k, "index": i, "model": a[i], "real": b[i]}
    return None


def table_mismatch(real_rules: dict, model_rules: list) -> Optional[str]:
    """the compiled rule tables as sets of alternatives per nonterminal (`_rules` / `_implicit_rules` hold sets); the
    prediction order handed to the model only *orders* alternatives, so a missing or extra alternative must show here"""
    def key(rhs):
        return json.dumps(rhs, separators=(",", ":"))
    m = {nt: {key(r) for r in alts} for nt, alts in model_rules}
    r = {nt: {key(x) for x in alts} for nt, alts in real_rules.items()}
    for nt in sorted(set(m) | set(r)):
        if nt not in r:
            return f"{nt}: the model compiles a rule the real table does not have"
        if nt not in m:
            return f"{nt}: the real table has a nonterminal the model does not compile"
        if m[nt] != r[nt]:
            return (f"{nt}: alternatives differ; model only {sorted(m[nt] - r[nt])[:2]}, "
                    f"real only {sorted(r[nt] - m[nt])[:2]}")
    return None


def compile_corr(tasks: list[dict], reals: list[dict], cap) -> tuple[list[dict], int]:
    """compare the real compiled table of every distinct grammar with the model's `compile G cap`;
    returns (mismatches as correspondence records, number of tables compared)"""
    from harness.common import driver_ask
    seen: dict[str, dict] = {}
    for t, r in zip(tasks, reals):
        if "rules" in r and "grammar" in r and t["spec"] not in seen:
            seen[t["spec"]] = r
    specs = list(seen)
    answers = driver_ask("drv_earley", [{"op": "compile", "grammar": seen[sp]["grammar"], "cap": cap} for sp in specs],
                         timeout=900) if specs else []
    bad = []
    for sp, a in zip(specs, answers):
        why = table_mismatch(seen[sp]["rules"], a["rules"])
        if why is not None:
            bad.append({"case": {"spec": sp}, "what": "compiled rule tables differ: " + why})
    return bad, len(specs)


def max_alts(rules: dict) -> int:
    return max([len(alts) for alts in rules.values()] + [1])


def canon_forest(forest: list) -> list:
    return sorted(json.dumps(t, separators=(",", ":")) for t in forest)
