"""Child process for C17 / C18: runs one configuration against the real code in a FRESH interpreter.

usage:  python -m harness.impl.env_child   (config JSON on stdin, one JSON result line on the real stdout)

config = {
  "ambient": {...}            # C17 only: perturbations applied BEFORE fandango is imported
  "steps":  [STEP, ...]       # executed in order
}
STEP =
  {"do":"construct","name":N,"text":T,"stdlib":bool}                     Fandango(T)
  {"do":"fuzz","name":N,"seed":s,"desired":d,"gens":g,"pop":p,"settings":{..},"record":bool}
  {"do":"io","name":N,"gens":g,"seed":s,"record":bool}                  fuzz(mode=IO, population_size=1)
  {"do":"parse","name":N,"words":[..],"seed":s,"record":bool,"prefix":bool}
  {"do":"reparse","name":N,"n":k,"record":bool}                         parse the first k solutions of N back
  {"do":"mask"}                                                          restore nodes.MAX_REPETITIONS
  {"do":"probe","tag":t}                                                 what a brand-new instance sees
  {"do":"trace_on"} / {"do":"trace_off"}                                 record tuner updates / cap writes
Only steps with "record": true contribute to "out" (the observable that is compared).
"""
from __future__ import annotations

import hashlib
import itertools
import json
import os
import signal
import sys


def _ambient(cfg: dict) -> None:
    """perturb everything that must NOT be an input (C17) — before fandango is imported"""
    junk = []
    n = int(cfg.get("alloc", 0))
    if n:
        # shift id()s / allocation addresses of everything created afterwards
        junk.append([object() for _ in range(n)])
        junk.append([bytearray(37 + (i % 91)) for i in range(n // 7)])
        junk.append({i: str(i) * 3 for i in range(n // 5)})
        if cfg.get("free_half"):
            del junk[0][::2]
    globals()["_JUNK"] = junk
    off = cfg.get("time_offset")
    if off:
        import time as _t
        for name in ("time", "monotonic", "perf_counter", "process_time"):
            real = getattr(_t, name)
            setattr(_t, name, (lambda r=real: r() + off))
        real_ns = _t.time_ns
        _t.time_ns = lambda: real_ns() + int(off * 1e9)
    if cfg.get("cwd"):
        os.makedirs(cfg["cwd"], exist_ok=True)
        os.chdir(cfg["cwd"])
    k = int(cfg.get("urandom_draws", 0))
    if k:
        import uuid
        for _ in range(k):
            os.urandom(16)
            uuid.uuid4()
    for key, val in (cfg.get("env") or {}).items():
        os.environ[key] = val


def canon_tree(t) -> list:
    sym = t.symbol
    head = sym.format_as_spec() if hasattr(sym, "format_as_spec") else str(sym)
    return [head, t.sender, t.recipient, [canon_tree(c) for c in t.children]]


def tree_out(t) -> dict:
    try:
        if t.should_be_serialized_to_bytes():
            s = "hex:" + t.to_bytes().hex()
        else:
            s = t.to_string()
    except Exception as e:  # noqa
        s = "unprintable:" + type(e).__name__
    h = hashlib.sha1(json.dumps(canon_tree(t), ensure_ascii=True).encode()).hexdigest()[:16]
    return {"s": s, "h": h}


def exc_out(e: BaseException) -> dict:
    import re
    msg = re.sub(r"0x[0-9a-fA-F]+", "0x?", str(e))[:160]
    return {"error": type(e).__name__, "msg": msg}


def main() -> None:
    cfg = json.loads(sys.stdin.read())
    real_stdout = os.dup(1)
    _ambient(cfg.get("ambient") or {})
    from harness.common import use_repo
    use_repo()
    import logging
    import random
    import fandango.language.grammar.nodes as nodes
    from fandango import Fandango
    from fandango.language.grammar import FuzzingMode
    from fandango.language.grammar.grammar import Grammar
    from fandango.evolution.adaptation import AdaptiveTuner
    from fandango.logger import LOGGER

    default_cap = nodes.MAX_REPETITIONS
    devnull = open(os.devnull, "w")
    sys.stdout = devnull            # party classes print; keep the result channel clean
    os.dup2(devnull.fileno(), 1)
    objs: dict = {}
    out: list = []
    info: dict = {"default_cap": default_cap, "events": [], "probes": {}, "caps": []}
    tracing = {"on": False}

    # ---- tracing of the tuner and of the cap writes (C18 correspondence)
    def dyad(x):
        x = float(x)
        if x != x or x in (float("inf"), float("-inf")) or x < 0:
            return None
        n, d = x.as_integer_ratio()
        return [n, d.bit_length() - 1]

    def tstate(t):
        return {"mut": dyad(t.mutation_rate), "cross": dyad(t.crossover_rate), "curRep": t.current_max_repetition,
                "curNodes": t.current_max_nodes, "initMut": dyad(t.initial_mutation_rate),
                "initCross": dyad(t.initial_crossover_rate), "initRep": t.initial_max_repetition,
                "initNodes": t.initial_max_nodes, "maxReps": t.max_repetitions,
                "repRate": dyad(t.max_repetition_rate), "maxNodes": t.max_nodes, "nodesRate": dyad(t.max_nodes_rate)}

    real_update = AdaptiveTuner.update_parameters
    real_set = Grammar.set_max_repetition

    def traced_update(self, generation, prev, cur, population, evaluator, cmr):
        if not tracing["on"]:
            return real_update(self, generation, prev, cur, population, evaluator, cmr)
        seen = {}
        real_div = evaluator.compute_diversity_bonus

        def div(pop):
            r = real_div(pop)
            seen["d"] = list(r)
            return r
        evaluator.compute_diversity_bonus = div
        before = tstate(self)
        try:
            res = real_update(self, generation, prev, cur, population, evaluator, cmr)
        finally:
            del evaluator.compute_diversity_bonus
        d = seen.get("d", [])
        avg = sum(d) / len(d) if d else 0
        info["events"].append({"ev": "update", "before": before, "after": tstate(self), "prev": dyad(prev),
                               "cur": dyad(cur), "avg": dyad(avg), "cap_read": cmr})
        return res

    def traced_set(self, v):
        if tracing["on"]:
            info["events"].append({"ev": "set", "v": v})
        return real_set(self, v)

    AdaptiveTuner.update_parameters = traced_update
    Grammar.set_max_repetition = traced_set

    def fresh_probe() -> dict:
        """what a brand-new instance sees: its cap, and whether `{2,}` accepts default+1 items"""
        p = Fandango('<start> ::= "a"{2,}\n', use_cache=False, use_stdlib=False, logging_level=logging.CRITICAL)
        acc = len(list(p.parse("a" * (default_cap + 1)))) > 0
        return {"cap": p.grammar.get_max_repetition(), "accepts_default_plus_1": acc}

    class StepTimeout(BaseException):
        pass

    def on_alarm(signum, frame):
        raise StepTimeout("step exceeded its time limit")
    signal.signal(signal.SIGALRM, on_alarm)

    for st in cfg["steps"]:
        do = st["do"]
        rec = bool(st.get("record"))
        res = None
        signal.alarm(int(cfg.get("step_limit_s", 150)))
        try:
            if do == "construct":
                objs[st["name"]] = Fandango(st["text"], use_cache=False, use_stdlib=bool(st.get("stdlib", False)),
                                            logging_level=logging.CRITICAL)
                LOGGER.setLevel(logging.CRITICAL)
                res = {"constructed": True}
            elif do == "fuzz":
                f = objs[st["name"]]
                sols = f.fuzz(desired_solutions=st.get("desired"), max_generations=st["gens"],
                              random_seed=st.get("seed"), population_size=st.get("pop", 10),
                              **(st.get("settings") or {}))
                res = {"solutions": [tree_out(t) for t in sols]}
                objs["__sols__" + st["name"]] = sols
                info["caps"].append({"after": st["name"], "cap": f.grammar.get_max_repetition(),
                                     "module": nodes.MAX_REPETITIONS})
            elif do == "io":
                f = objs[st["name"]]
                if st.get("seed") is not None:
                    random.seed(st["seed"])
                sols = f.fuzz(mode=FuzzingMode.IO, population_size=1, max_generations=st.get("gens", 10))
                res = {"runs": [[[m.sender, m.recipient, tree_out(m.msg)["s"]] for m in t.protocol_msgs()]
                                for t in sols]}
            elif do == "parse":
                f = objs[st["name"]]
                if st.get("seed") is not None:
                    random.seed(st["seed"])
                r = {}
                for w in st["words"]:
                    word = bytes.fromhex(w[4:]) if w.startswith("hex:") else w
                    try:
                        # prefix mode enumerates incomplete trees without end: look at the first 12 only
                        trees = list(itertools.islice(f.parse(word, prefix=bool(st.get("prefix"))), 12))
                        r[w] = [json.dumps(canon_tree(t)) for t in trees]
                    except Exception as e:  # noqa
                        r[w] = exc_out(e)
                res = {"parses": r}
            elif do == "reparse":
                f = objs[st["name"]]
                r = []
                for t in objs.get("__sols__" + st["name"], [])[: int(st.get("n", 4))]:
                    if t.size() > 400:
                        r.append("skipped:large")
                        continue
                    try:
                        word = t.to_bytes() if t.should_be_serialized_to_bytes() else t.to_string()
                        trees = list(itertools.islice(f.parse(word), 4))
                        r.append([json.dumps(canon_tree(x)) for x in trees])
                    except Exception as e:  # noqa
                        r.append(exc_out(e))
                res = {"reparsed": r}
            elif do == "mask":
                nodes.MAX_REPETITIONS = default_cap
                res = {"masked": True}
            elif do == "probe":
                info["probes"][st["tag"]] = fresh_probe()
            elif do == "trace_on":
                tracing["on"] = True
            elif do == "trace_off":
                tracing["on"] = False
            else:
                raise ValueError(do)
        except StepTimeout:
            info.setdefault("step_timeouts", []).append({"do": do, "name": st.get("name")})
            res = {"error": "StepTimeout"}
        except Exception as e:  # noqa  (BaseException such as KeyboardInterrupt must still kill the child)
            res = exc_out(e)
        finally:
            signal.alarm(0)
        if rec:
            out.append({"step": do, "name": st.get("name"), "res": res})
    info["module_cap_end"] = nodes.MAX_REPETITIONS
    line = json.dumps({"out": out, "info": info}, ensure_ascii=True)
    os.write(real_stdout, (line + "\n").encode())


if __name__ == "__main__":
    main()
