"""Launch `harness.impl.env_child` configurations in fresh interpreters (process pool) — C17 / C18."""
from __future__ import annotations

import json
import subprocess
import sys
from concurrent.futures import ThreadPoolExecutor
from typing import Optional

from harness.common import VERIF, MachineryError, child_env

WORKERS = 14


def run_child(cfg: dict, hashseed: int, timeout: int = 420, extra_env: Optional[dict] = None) -> dict:
    env = child_env()
    env["PYTHONHASHSEED"] = str(hashseed)
    env.pop("PYTHONDONTWRITEBYTECODE", None)
    if extra_env:
        env.update(extra_env)
    try:
        r = subprocess.run([sys.executable, "-m", "harness.impl.env_child"], input=json.dumps(cfg), cwd=str(VERIF),
                           env=env, stdout=subprocess.PIPE, stderr=subprocess.PIPE, text=True, timeout=timeout)
    except subprocess.TimeoutExpired as e:
        raise MachineryError(f"child timed out after {timeout}s: {json.dumps(cfg)[:300]}") from e
    lines = [ln for ln in r.stdout.splitlines() if ln.startswith("{")]
    if r.returncode != 0 or not lines:
        raise MachineryError(f"child failed (rc={r.returncode}): {r.stderr[-1500:]}\nconfig: {json.dumps(cfg)[:300]}")
    res = json.loads(lines[-1])
    if res.get("info", {}).get("step_timeouts"):
        raise MachineryError(f"a step of a child ran into its time limit: {res['info']['step_timeouts']} in "
                             f"{json.dumps(cfg)[:300]}")
    return res


def run_many(jobs: list[tuple[dict, int]], timeout: int = 420, extra_envs: Optional[list] = None) -> list[dict]:
    """jobs: [(config, PYTHONHASHSEED)] → results in the same order"""
    extra_envs = extra_envs or [None] * len(jobs)
    with ThreadPoolExecutor(max_workers=WORKERS) as ex:
        futs = [ex.submit(run_child, c, h, timeout, e) for (c, h), e in zip(jobs, extra_envs)]
        return [f.result() for f in futs]
