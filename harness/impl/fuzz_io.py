"""Adapters for the generation side (E2 / `Model/Fuzz.lean`, driver `drv_fuzz`).

fgrammar_json(grammar)            grammar IR annotated with the real `distance_to_completion` values,
                                  `TerminalNode.__eq__` classes, generator dependencies, MAX_REPETITIONS
static_ir(grammar, constraints)   IR for the derivation checker; repetitions whose *lower bound is computed*
                                  (`{expr}`, `{expr,m}`) get the static part of their declared bounds (min 0)
check_valid_fast(...)             verified checker `validFast` (drv_fuzz op "valid") on real trees
atree_json(tree)                  tree with read-only flags and origin_repetitions tags
Recorder                          context manager: wraps random.choice / random.randint / TerminalNode.fuzz /
                                  Grammar.generate / Grammar.fuzz and records every `Grammar.fuzz` call as a
                                  typed tape (alt index, repetition goal, regex instance, generator result)
"""
from __future__ import annotations

import math
import random
import sys
from typing import Any, Optional

from harness.impl import grammar_io as gio
from harness.impl.grammar_io import NotModelled


# ------------------------------------------------------------------------------------------------
# grammar -> FGrammar JSON
# ------------------------------------------------------------------------------------------------

def _dist(node) -> int:
    d = node.distance_to_completion
    if isinstance(d, float):
        if math.isinf(d) or math.isnan(d) or d != int(d):
            raise NotModelled(f"distance_to_completion {d!r}")
        d = int(d)
    if d < 0:
        raise NotModelled(f"negative distance {d}")
    return int(d)


class _TermKeys:
    """equivalence classes of TerminalNode.__eq__, decided by the real `==`"""

    def __init__(self) -> None:
        self.reps: list[Any] = []

    def key(self, node) -> int:
        for i, r in enumerate(self.reps):
            if r == node:
                return i
        self.reps.append(node)
        return len(self.reps) - 1


def fnode_json(node, regexes: gio.RegexTable, keys: _TermKeys) -> list:
    from fandango.language.grammar.nodes.alternative import Alternative
    from fandango.language.grammar.nodes.concatenation import Concatenation
    from fandango.language.grammar.nodes.non_terminal import NonTerminalNode
    from fandango.language.grammar.nodes.repetition import Option, Plus, Repetition, Star
    from fandango.language.grammar.nodes.terminal import TerminalNode

    if isinstance(node, TerminalNode):
        payload = gio.terminal_payload(node.symbol)
        if node.symbol.is_regex:
            return ["re", regexes.id_of(payload), _dist(node), keys.key(node)]
        return ["lit", gio.leaf_json(payload), _dist(node), keys.key(node)]
    if isinstance(node, NonTerminalNode):
        return ["nt", node.symbol.name(), node.sender, node.recipient, _dist(node)]
    if isinstance(node, Alternative):
        return ["alt", str(node.id), _dist(node), [fnode_json(n, regexes, keys) for n in node.alternatives]]
    if isinstance(node, Concatenation):
        return ["cat", str(node.id), _dist(node), [fnode_json(n, regexes, keys) for n in node.nodes]]
    if isinstance(node, Repetition):
        kind = "star" if isinstance(node, Star) else "plus" if isinstance(node, Plus) else \
            "opt" if isinstance(node, Option) else "braces"
        return ["rep", str(node.id), kind, _dist(node), fnode_json(node.node, regexes, keys), int(node.min),
                node.internal_max]
    raise NotModelled(f"grammar node {type(node).__name__}")


def current_cap(grammar) -> int:
    """the `max` the open-ended repetitions of this grammar have right now (`Repetition.max` with `_max is
    None`): the grammar's cap pushed to its nodes, or the module default.  Mixed values are not modelled."""
    import fandango.language.grammar.nodes as nodes
    from fandango.language.grammar.nodes.repetition import Repetition
    caps = set()
    todo, seen = list(grammar.rules.values()), set()
    while todo:
        n = todo.pop()
        if id(n) in seen:
            continue
        seen.add(id(n))
        if isinstance(n, Repetition) and n.internal_max is None:
            caps.add(int(n.max))
        todo.extend(n.children())
    if len(caps) > 1:
        raise NotModelled(f"open repetitions with different caps {sorted(caps)}")
    if caps:
        return caps.pop()
    get = getattr(grammar, "get_max_repetition", None)
    return int(get()) if get else int(nodes.MAX_REPETITIONS)


def fgrammar_json(grammar, regexes: Optional[gio.RegexTable] = None, cap: Optional[int] = None) -> tuple[dict, gio.RegexTable]:
    regexes = regexes or gio.RegexTable()
    keys = _TermKeys()
    rules = [[nt.name(), fnode_json(rhs, regexes, keys)] for nt, rhs in grammar.rules.items()]
    gens = [[nt.name(), [d.name() for d in grammar.generator_dependencies(nt)]] for nt in grammar.generators]
    return {"rules": rules, "gens": gens, "cap": int(current_cap(grammar) if cap is None else cap)}, regexes


def computed_min_ids(grammar, constraints) -> set[str]:
    """ids of repetitions whose declared lower bound is an expression (not a number)"""
    from fandango.constraints.repetition_bounds import RepetitionBoundsConstraint
    ids = set()
    cs = list(constraints or [])
    for rhs in grammar.rules.values():
        stack = [rhs]
        while stack:
            n = stack.pop()
            bc = getattr(n, "bounds_constraint", None)
            if bc is not None:
                cs.append(bc)
            stack.extend(n.children())
    for c in cs:
        if isinstance(c, RepetitionBoundsConstraint) and not str(c.expr_data_min[0]).isdigit():
            ids.add(str(c.repetition_id))
    return ids


def _relax(node: list, ids: set[str]) -> list:
    tag = node[0]
    if tag in ("alt", "cat"):
        return [tag, node[1], [_relax(n, ids) for n in node[2]]]
    if tag == "rep":
        mn = 0 if node[1] in ids else node[4]
        return ["rep", node[1], node[2], _relax(node[3], ids), mn, node[5]]
    return node


def static_ir(grammar, constraints=None) -> tuple[dict, gio.RegexTable, set[str]]:
    """the IR the derivation checker uses for C01.  A repetition `<a>{int(<n>)}` is built by the front end as
    `Repetition(min=1, max=None)` plus a RepetitionBoundsConstraint; its *declared* lower bound is the computed
    value (C02's business), so the static part of the declaration is `min = 0`."""
    gj, regexes = gio.grammar_to_json(grammar)
    ids = computed_min_ids(grammar, constraints)
    if ids:
        gj = {"rules": [[name, _relax(body, ids)] for name, body in gj["rules"]]}
    return gj, regexes, ids


def valid_fast_requests(gj: dict, regexes: gio.RegexTable, trees_json: list) -> list[dict]:
    oracle = gio.oracle_for(regexes, trees_json)
    return [{"op": "valid", "grammar": gj, "oracle": oracle, "tree": tj} for tj in trees_json]


def check_valid_fast(grammar, trees: list, constraints=None) -> list[dict]:
    from harness.common import driver_ask
    gj, regexes, _ = static_ir(grammar, constraints)
    tjs = [gio.tree_to_json(t) for t in trees]
    if not tjs:
        return []
    return driver_ask("drv_fuzz", valid_fast_requests(gj, regexes, tjs))


# ------------------------------------------------------------------------------------------------
# trees with bookkeeping
# ------------------------------------------------------------------------------------------------

def atree_json(tree) -> list:
    sym = tree.symbol
    tags = [[str(a), int(b), int(c)] for a, b, c in tree.origin_repetitions]
    ro = bool(tree.read_only)
    if sym.is_terminal:
        j = gio.leaf_json(gio.terminal_payload(sym))
        if tree.children:
            raise NotModelled("terminal node with children")
        return [j[0], j[1], tree.sender, tree.recipient, ro, tags]
    if sym.is_non_terminal:
        return ["n", sym.name(), tree.sender, tree.recipient, ro, tags, [atree_json(c) for c in tree.children]]
    raise NotModelled("slice tree")


def atree_erase(aj: list) -> list:
    if aj[0] == "n":
        return ["n", aj[1], aj[2], aj[3], [atree_erase(k) for k in aj[6]]]
    return [aj[0], aj[1], aj[2], aj[3]]


def child_path(tree) -> Optional[list[int]]:
    """child indices from the root (None if the node hangs below a `sources` edge)"""
    from fandango.language.tree import ChildStep
    out = []
    for step in tree.get_choices_path():
        if not isinstance(step, ChildStep):
            return None
        out.append(step.index)
    return out


# ------------------------------------------------------------------------------------------------
# tape recording
# ------------------------------------------------------------------------------------------------

class FuzzCall:
    __slots__ = ("start", "budget", "path", "cap", "tape", "tree", "tree_json", "size", "not_modelled", "error", "grammar")

    def __init__(self):
        self.tape: list = []
        self.tree = None
        self.tree_json = None        # the result AS RETURNED (later in-place edits of the object do not count)
        self.size = 50
        self.not_modelled = None
        self.error = None


class EvoCall:
    """one call of an evolution-level operator: inputs (before the call), draws, outputs"""

    def __init__(self, op: str, grammar):
        self.op, self.grammar = op, grammar
        self.tree = self.tree2 = self.out = self.inputs_after = None
        self.draws: list = []             # (index into the sequence random.choice drew from, the element)
        self.fuzz_calls: list = []        # FuzzCall objects made during the operator
        self.failing = None               # mutate: paths of the failing trees
        self.max_nodes = None
        self.same = None
        self.suggestion = self.individual = self.sugg_pre = None
        self.given: dict = {}             # id(EqualComparisonSuggestion) -> the pairs it returned
        self.tape: list = []
        self.cap = None
        self.error = self.not_modelled = None


def _path_in(tree, individual) -> list[int]:
    if tree.get_root() is not individual:
        raise NotModelled("suggestion refers to a tree outside the individual")
    cp = child_path(tree)
    if cp is None:
        raise NotModelled("suggestion refers to a tree below a sources edge")
    return cp


def sugg_fields(sugg, individual):
    """the fields of a suggestion tree that the model reads, taken BEFORE get_replacements runs"""
    from fandango.constraints.comparison import EqualComparisonSuggestion
    from fandango.constraints.failing_tree import ApplyAllSuggestions, ApplyFirstSuggestion, NopSuggestion
    from fandango.constraints.repetition_bounds import RepetitionBoundsSuggestion
    if isinstance(sugg, NopSuggestion):
        return ["nop"]
    if isinstance(sugg, ApplyAllSuggestions):
        return ["all", [sugg_fields(s, individual) for s in sugg.suggestions]]
    if isinstance(sugg, ApplyFirstSuggestion):
        return ["first", [sugg_fields(s, individual) for s in sugg.suggestions]]
    if isinstance(sugg, EqualComparisonSuggestion):
        return ["given", id(sugg)]
    if isinstance(sugg, RepetitionBoundsSuggestion):
        return ["rep", _path_in(sugg._ending_rep_tree, individual), _path_in(sugg._starting_rep_value, individual),
                _path_in(sugg._ending_rep_value, individual), int(sugg._bound_len), int(sugg._goal_len),
                int(sugg._iter_id), str(sugg._repetition_id), bool(sugg.allow_repetition_full_delete),
                sugg._repetition_node]
    raise NotModelled(f"suggestion {type(sugg).__name__}")


def sugg_json(pre, ev: EvoCall, table, keys) -> list:
    """fill in what only exists after the call (the pairs of the parser-based leaves) and serialise grammar nodes"""
    tag = pre[0]
    if tag in ("all", "first"):
        return [tag, [sugg_json(s, ev, table, keys) for s in pre[1]]]
    if tag == "given":
        pairs = ev.given.get(pre[1], [])
        return ["given", [[_path_in(t, ev.individual), atree_json(r)] for t, r in pairs]]
    if tag == "rep":
        if pre[4] < 0 or pre[5] < 0:
            raise NotModelled("negative repetition length")
        return pre[:9] + [fnode_json(pre[9], table, keys)]
    return pre


class Recorder:
    """While active, every `Grammar.fuzz` call is recorded as a FuzzCall.  The real functions are always
    called; the wrappers only observe.  Draws made by exrex and by generator code are not part of the tape
    (their *results* are: regex instance, generated tree)."""

    def __init__(self, regexes_of=None, evo: bool = False):
        self.evo = evo                      # also record crossover / mutate / fix_individual calls
        self.evo_calls: list[EvoCall] = []
        self._evo_stack: list[EvoCall] = []
        self._evo_codes: set = set()
        self.calls: list[FuzzCall] = []
        self.loose_tape: list = []          # draws outside Grammar.fuzz (e.g. _insert_repetitions)
        self._cur: Optional[FuzzCall] = None
        self._suppress = 0
        self._regex_tables: dict[int, gio.RegexTable] = {}
        self._saved: list = []

    def table_for(self, grammar) -> gio.RegexTable:
        t = self._regex_tables.get(id(grammar))
        if t is None:
            # same numbering as grammar_to_json / fgrammar_json: ids are assigned in rule order
            _, t = gio.grammar_to_json(grammar)
            self._regex_tables[id(grammar)] = t
        return t

    def _emit(self, item: list) -> None:
        if self._suppress:
            return
        (self._cur.tape if self._cur is not None else self.loose_tape).append(item)

    def __enter__(self):
        from fandango.language.grammar.grammar import Grammar
        from fandango.language.grammar.nodes.alternative import Alternative
        from fandango.language.grammar.nodes.repetition import Repetition
        from fandango.language.grammar.nodes.terminal import TerminalNode
        import fandango.language.grammar.nodes as nodes

        rec = self
        o_choice, o_randint = random.choice, random.randint
        o_tfuzz, o_generate, o_fuzz = TerminalNode.fuzz, Grammar.generate, Grammar.fuzz

        def choice(seq):
            res = o_choice(seq)
            if not rec._suppress:
                caller = sys._getframe(1).f_locals.get("self")
                if isinstance(caller, Alternative):
                    idx = next((i for i, x in enumerate(seq) if x is res), None)
                    rec._emit(["alt", idx])
                elif rec._evo_stack and sys._getframe(1).f_code in rec._evo_codes:
                    idx = next((i for i, x in enumerate(seq) if x is res), None)
                    rec._evo_stack[-1].draws.append((idx, res))
            return res

        def randint(a, b):
            res = o_randint(a, b)
            if not rec._suppress:
                caller = sys._getframe(1).f_locals.get("self")
                if isinstance(caller, Repetition):
                    rec._emit(["rep", res])
            return res

        def tfuzz(self, parent, grammar, max_nodes=100, in_message=False):
            before = len(parent.children)
            rec._suppress += 1
            try:
                out = o_tfuzz(self, parent, grammar, max_nodes, in_message)
            finally:
                rec._suppress -= 1
            if self.symbol.is_regex and not rec._suppress:
                new = parent.children[before:]
                table = rec.table_for(grammar)
                payload = gio.terminal_payload(self.symbol)
                for c in new:
                    rec._emit(["re", table.id_of(payload), gio.leaf_json(gio.terminal_payload(c.symbol))])
            return out

        def generate(self, symbol="<start>", sources=None):
            rec._suppress += 1
            try:
                out = o_generate(self, symbol, sources)
            finally:
                rec._suppress -= 1
            caller = sys._getframe(1).f_code.co_name
            if caller == "fuzz" and not rec._suppress:
                rec._emit(["gen", gio.tree_to_json(out)])
            return out

        def gfuzz(self, start="<start>", max_nodes=50, prefix_node=None):
            if rec._cur is not None or rec._suppress:
                return o_fuzz(self, start, max_nodes, prefix_node)
            call = FuzzCall()
            sname = start if isinstance(start, str) else start.name()
            call.start, call.budget, call.grammar = sname, int(max_nodes), self
            try:
                call.cap = current_cap(self)
            except NotModelled:
                call.cap = -1
            call.path = [sname] if prefix_node is None else [n.symbol.name() if n.symbol.is_non_terminal else "?"
                                                             for n in prefix_node.get_path()]
            rec._cur = call
            if rec._evo_stack:
                rec._evo_stack[-1].fuzz_calls.append(call)
            try:
                out = o_fuzz(self, start, max_nodes, prefix_node)
                call.tree = out
                try:
                    call.size = out.size()
                    call.tree_json = gio.tree_to_json(out)
                except NotModelled as e:
                    call.not_modelled = str(e)
                return out
            except BaseException as e:
                call.error = type(e).__name__
                raise
            finally:
                rec._cur = None
                rec.calls.append(call)

        self._saved = [(random, "choice", o_choice), (random, "randint", o_randint),
                       (TerminalNode, "fuzz", o_tfuzz), (Grammar, "generate", o_generate), (Grammar, "fuzz", o_fuzz)]
        random.choice, random.randint = choice, randint
        TerminalNode.fuzz, Grammar.generate, Grammar.fuzz = tfuzz, generate, gfuzz
        if self.evo:
            self._patch_evo()
        return self

    def _patch_evo(self) -> None:
        """wrappers around SimpleSubtreeCrossover.crossover, SimpleMutation.mutate, PopulationManager.fix_individual
        and EqualComparisonSuggestion.get_replacements: inputs before the call, draws, outputs.  They only observe."""
        from fandango.constraints.comparison import EqualComparisonSuggestion
        from fandango.evolution.crossover import SimpleSubtreeCrossover
        from fandango.evolution.mutation import SimpleMutation
        from fandango.evolution.population import PopulationManager
        rec = self
        o_x, o_m, o_f = SimpleSubtreeCrossover.crossover, SimpleMutation.mutate, PopulationManager.fix_individual
        o_eq = EqualComparisonSuggestion.get_replacements
        self._evo_codes = {o_x.__code__, o_m.__code__}

        def snap(ev, name, tree):
            try:
                if tree.parent is not None:
                    raise NotModelled("operator applied to a tree that is not a root")
                setattr(ev, name, atree_json(tree))
            except NotModelled as e:
                ev.not_modelled = str(e)

        def crossover(self, grammar, parent1, parent2):
            ev = EvoCall("crossover", grammar)
            snap(ev, "tree", parent1)
            snap(ev, "tree2", parent2)
            rec._evo_stack.append(ev)
            try:
                out = o_x(self, grammar, parent1, parent2)
            except BaseException as e:
                ev.error = type(e).__name__
                raise
            finally:
                rec._evo_stack.pop()
                rec.evo_calls.append(ev)
            try:
                ev.out = None if out is None else [atree_json(out[0]), atree_json(out[1])]
                ev.inputs_after = [atree_json(parent1), atree_json(parent2)]
            except NotModelled as e:
                ev.not_modelled = str(e)
            return out

        def mutate(self, individual, grammar, evaluate_func, max_nodes=50):
            ev = EvoCall("mutate", grammar)
            snap(ev, "tree", individual)
            ev.max_nodes = int(max_nodes)

            def evaluate(ind):
                res = yield from evaluate_func(ind)
                try:
                    paths = []
                    for ft in res[1]:
                        if ft.tree.get_root() is not individual:
                            raise NotModelled("failing tree outside the individual")
                        cp = child_path(ft.tree)
                        if cp is None:
                            raise NotModelled("failing tree below a sources edge")
                        paths.append(cp)
                    ev.failing = paths
                except NotModelled as e:
                    ev.not_modelled = str(e)
                return res

            rec._evo_stack.append(ev)
            try:
                out = yield from o_m(self, individual, grammar, evaluate, max_nodes)
            except BaseException as e:
                ev.error = type(e).__name__
                raise
            finally:
                rec._evo_stack.pop()
                rec.evo_calls.append(ev)
            try:
                ev.same = out is individual
                ev.out = gio.tree_to_json(out)
                ev.inputs_after = [atree_json(individual)]
            except NotModelled as e:
                ev.not_modelled = str(e)
            return out

        def eq_repl(self, individual, grammar):
            out = o_eq(self, individual, grammar)
            if rec._evo_stack:
                rec._evo_stack[-1].given.setdefault(id(self), out)
            return out

        def fix_individual(self, individual, suggestion=None):
            ev = EvoCall("fix", self._grammar)
            snap(ev, "tree", individual)
            try:
                ev.cap = current_cap(self._grammar)
            except NotModelled as e:
                ev.not_modelled = str(e)
            ev.suggestion = suggestion
            ev.individual = individual
            if ev.not_modelled is None and suggestion is not None:
                try:
                    ev.sugg_pre = sugg_fields(suggestion, individual)   # before: get_replacements mutates _goal_len
                except NotModelled as e:
                    ev.not_modelled = str(e)
            start = len(rec.loose_tape)
            rec._evo_stack.append(ev)
            try:
                out = o_f(self, individual, suggestion)
            except BaseException as e:
                ev.error = type(e).__name__
                raise
            finally:
                rec._evo_stack.pop()
                rec.evo_calls.append(ev)
                ev.tape = list(rec.loose_tape[start:])
            try:
                ev.out = [gio.tree_to_json(out[0]), int(out[1])]
                ev.inputs_after = [atree_json(individual)]
            except NotModelled as e:
                ev.not_modelled = str(e)
            return out

        SimpleSubtreeCrossover.crossover, SimpleMutation.mutate = crossover, mutate
        PopulationManager.fix_individual, EqualComparisonSuggestion.get_replacements = fix_individual, eq_repl
        self._saved += [(SimpleSubtreeCrossover, "crossover", o_x), (SimpleMutation, "mutate", o_m),
                        (PopulationManager, "fix_individual", o_f), (EqualComparisonSuggestion, "get_replacements", o_eq)]

    def __exit__(self, *a):
        for obj, name, val in self._saved:
            setattr(obj, name, val)
        self._saved = []
        return False


# ------------------------------------------------------------------------------------------------
# Grammar.prime(): distance snapshots and call recording
# ------------------------------------------------------------------------------------------------

def dist_json(node) -> Optional[int]:
    """distance_to_completion as the driver reads it: int, or None for inf"""
    d = node.distance_to_completion
    if isinstance(d, float):
        if math.isinf(d):
            return None
        if math.isnan(d) or d != int(d) or abs(d) >= 2 ** 53:
            raise NotModelled(f"distance_to_completion {d!r}")
        d = int(d)
    if d < 0:
        raise NotModelled(f"negative distance {d}")
    return int(d)


def _pre_order(node, out: list, seen: set) -> None:
    if id(node) in seen:
        raise NotModelled("grammar node object shared between two positions")
    seen.add(id(node))
    out.append(node)
    for c in node.children():
        _pre_order(c, out, seen)


def grammar_nodes(grammar) -> list[list]:
    """the node objects of every rule in pre-order (the order of the driver's op "prime")"""
    rows, seen = [], set()
    for rhs in grammar.rules.values():
        row: list = []
        _pre_order(rhs, row, seen)
        rows.append(row)
    return rows


def dist_snapshot(grammar) -> list[list[Optional[int]]]:
    return [[dist_json(n) for n in row] for row in grammar_nodes(grammar)]


def fresh_snapshot(grammar) -> list[list[Optional[int]]]:
    """what the constructors (nodes/*.py __init__) leave in distance_to_completion"""
    from fandango.language.grammar.nodes.repetition import Option, Star
    from fandango.language.grammar.nodes.terminal import TerminalNode
    return [[1 if isinstance(n, TerminalNode) else 0 if isinstance(n, (Star, Option)) else None for n in row]
            for row in grammar_nodes(grammar)]


class PrimeHang(Exception):
    """the real `while nodes:` loop of prime() made more iterations than the bound the model proves sufficient"""


def prime_bound(n: int) -> int:
    """`primeBound` of Model/Prime.lean: n + (n-1) + … + 1"""
    return n * (n + 1) // 2


class PrimeCall:
    __slots__ = ("ir", "before", "fresh", "after", "error", "not_modelled", "iterations", "bound")

    def __init__(self):
        self.ir = self.before = self.fresh = self.after = self.error = self.not_modelled = None
        self.iterations = self.bound = None


class PrimeRecorder:
    """While active every `Grammar.prime()` call is recorded: the grammar IR and the distances of every node
    before the call, the distances after it (None if the call did not return).  The iterations of the real
    `while nodes:` loop are counted (a line tracer on the `nodes.pop(0)` line, active only inside prime());
    a call that exceeds `primeBound(#non-terminal nodes)` iterations — the bound within which the model's loop
    returns if it returns at all (C01_prime_terminates / C01_prime_returns_iff_completable) — is stopped with
    PrimeHang.  Measured in steps, not seconds."""

    def __init__(self):
        self.calls: list[PrimeCall] = []
        self._orig = None

    def __enter__(self):
        import inspect
        from fandango.language.grammar.grammar import Grammar
        from fandango.language.grammar.nodes.terminal import TerminalNode
        rec = self
        orig = Grammar.prime
        self._orig = orig
        lines, first = inspect.getsourcelines(orig)
        pops = [first + i for i, ln in enumerate(lines) if "nodes.pop(0)" in ln]
        if len(pops) != 1:
            raise NotModelled("prime(): cannot find the `nodes.pop(0)` line")
        pop_line, code = pops[0], orig.__code__

        def prime(self):
            call = PrimeCall()
            try:
                call.ir = gio.grammar_to_json(self)[0]
                call.before = dist_snapshot(self)
                call.fresh = fresh_snapshot(self)
                n = sum(1 for row in grammar_nodes(self) for x in row if not isinstance(x, TerminalNode))
                call.bound = prime_bound(n)
            except NotModelled as e:
                call.not_modelled = str(e)
            rec.calls.append(call)
            count = [0]

            def local(frame, event, arg):
                if event == "line" and frame.f_lineno == pop_line:
                    count[0] += 1
                    if call.bound is not None and count[0] > call.bound:
                        raise PrimeHang()
                return local

            def tracer(frame, event, arg):
                return local if frame.f_code is code else None

            old = sys.gettrace()
            sys.settrace(tracer)
            try:
                out = orig(self)
            except BaseException as e:
                call.error = type(e).__name__
                raise
            finally:
                sys.settrace(old)
                call.iterations = count[0]
            if call.not_modelled is None:
                try:
                    call.after = dist_snapshot(self)
                except NotModelled as e:
                    call.not_modelled = str(e)
            return out

        Grammar.prime = prime
        return self

    def __exit__(self, *a):
        from fandango.language.grammar.grammar import Grammar
        Grammar.prime = self._orig
        return False


def expand_request(call: FuzzCall, fg: dict) -> dict:
    size = call.size
    if call.cap < 0:
        raise NotModelled("open repetitions with different caps")
    g = dict(fg)
    g["cap"] = call.cap
    return {"op": "expand", "grammar": g, "start": call.start, "path": call.path, "budget": call.budget,
            "tape": call.tape, "fuel": 200 + 16 * size}
