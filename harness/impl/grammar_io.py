"""Adapters between real Fandango objects and the JSON the Lean drivers read (Driver/IRJson.lean).

grammar_to_json(grammar)        -> {"rules": [[name, node], ...]}, regex table
tree_to_json(tree)              -> ["n", name, sender, recipient, [kids]] | leaf
oracle_for(regexes, trees)      -> [[regexId, leaf], ...]  (pairs CPython `re.fullmatch` accepts)
valid_requests / check_valid    -> run the *verified* derivation checker (drv_ir) on real trees
"""
from __future__ import annotations

import re
from typing import Any, Iterable, Optional


class NotModelled(Exception):
    pass


def leaf_json(value: Any) -> list:
    """value: str | bytes | int(0/1)"""
    if isinstance(value, bool):
        return ["i", int(value)]
    if isinstance(value, int):
        if value not in (0, 1):
            raise NotModelled(f"int terminal {value}")
        return ["i", value]
    if isinstance(value, str):
        return ["t", [ord(c) for c in value]]
    if isinstance(value, (bytes, bytearray)):
        return ["b", list(value)]
    raise NotModelled(f"leaf {value!r}")


def terminal_payload(sym) -> Any:
    """the Python value of a Terminal symbol: str | bytes | 0/1"""
    tv = sym.value()
    if tv._value is None:
        bits = tv._trailing_bits
        if len(bits) != 1:
            raise NotModelled(f"terminal with {len(bits)} bits")
        return int(bits[0])
    if tv._trailing_bits:
        raise NotModelled("terminal with payload and trailing bits")
    return tv._value


class RegexTable:
    def __init__(self) -> None:
        self.by_key: dict[tuple, int] = {}
        self.patterns: list[Any] = []

    def id_of(self, pattern: Any) -> int:
        key = (type(pattern).__name__, pattern)
        if key not in self.by_key:
            self.by_key[key] = len(self.patterns)
            self.patterns.append(pattern)
        return self.by_key[key]


def node_to_json(node, regexes: RegexTable) -> list:
    from fandango.language.grammar.nodes.alternative import Alternative
    from fandango.language.grammar.nodes.concatenation import Concatenation
    from fandango.language.grammar.nodes.non_terminal import NonTerminalNode
    from fandango.language.grammar.nodes.repetition import Option, Plus, Repetition, Star
    from fandango.language.grammar.nodes.terminal import TerminalNode

    if isinstance(node, TerminalNode):
        payload = terminal_payload(node.symbol)
        if node.symbol.is_regex:
            return ["re", regexes.id_of(payload)]
        return ["lit", leaf_json(payload)]
    if isinstance(node, NonTerminalNode):
        return ["nt", node.symbol.name(), node.sender, node.recipient]
    if isinstance(node, Alternative):
        return ["alt", str(node.id), [node_to_json(n, regexes) for n in node.alternatives]]
    if isinstance(node, Concatenation):
        return ["cat", str(node.id), [node_to_json(n, regexes) for n in node.nodes]]
    if isinstance(node, Repetition):
        kind = "star" if isinstance(node, Star) else "plus" if isinstance(node, Plus) else \
            "opt" if isinstance(node, Option) else "braces"
        return ["rep", str(node.id), kind, node_to_json(node.node, regexes), int(node.min), node.internal_max]
    raise NotModelled(f"grammar node {type(node).__name__}")


def grammar_to_json(grammar) -> tuple[dict, RegexTable]:
    regexes = RegexTable()
    rules = [[nt.name(), node_to_json(rhs, regexes)] for nt, rhs in grammar.rules.items()]
    return {"rules": rules}, regexes


def tree_to_json(tree) -> list:
    sym = tree.symbol
    if sym.is_terminal:
        payload = terminal_payload(sym)
        j = leaf_json(payload)
        if tree.children:
            raise NotModelled("terminal node with children")
        return [j[0], j[1], tree.sender, tree.recipient]
    if sym.is_non_terminal:
        return ["n", sym.name(), tree.sender, tree.recipient, [tree_to_json(c) for c in tree.children]]
    return ["s", [tree_to_json(c) for c in tree.children]]


def tree_leaves(tj: list) -> Iterable[tuple]:
    if tj[0] == "n":
        for k in tj[4]:
            yield from tree_leaves(k)
    elif tj[0] == "s":
        for k in tj[1]:
            yield from tree_leaves(k)
    else:
        yield (tj[0], tuple(tj[1]) if isinstance(tj[1], list) else tj[1])


def leaf_value(tag: str, payload: Any) -> Any:
    if tag == "t":
        return "".join(chr(c) for c in payload)
    if tag == "b":
        return bytes(payload)
    return int(payload)


def oracle_for(regexes: RegexTable, trees_json: Iterable[list]) -> list:
    """[[regexId, leaf]] for every (regex terminal of the grammar, distinct leaf of the trees) pair that
    CPython accepts with re.fullmatch; a str pattern only judges text leaves, a bytes pattern bytes."""
    leaves = set()
    for tj in trees_json:
        leaves.update(tree_leaves(tj))
    out = []
    for rid, pat in enumerate(regexes.patterns):
        try:
            cre = re.compile(pat)
        except re.error:
            continue
        for tag, payload in sorted(leaves, key=repr):
            if tag == "i":
                continue
            val = leaf_value(tag, list(payload))
            if isinstance(val, str) != isinstance(pat, str):
                continue
            if cre.fullmatch(val):
                out.append([rid, [tag, list(payload)]])
    return out


def valid_requests(grammar, trees: list) -> tuple[list[dict], list]:
    """requests for drv_ir "valid" for each tree (all against the same grammar)"""
    gj, regexes = grammar_to_json(grammar)
    tjs = [tree_to_json(t) for t in trees]
    oracle = oracle_for(regexes, tjs)
    return [{"op": "valid", "grammar": gj, "oracle": oracle, "tree": tj} for tj in tjs], tjs


def check_valid(grammar, trees: list) -> list[dict]:
    """run the verified derivation checker on real trees; [{valid, bad}] per tree"""
    from harness.common import driver_ask
    reqs, _ = valid_requests(grammar, trees)
    if not reqs:
        return []
    return driver_ask("drv_ir", reqs)


def parse_spec(text: str):
    """real front end, no cache, no stdlib: (grammar, constraints)"""
    from fandango.language.parse.parse import parse
    return parse(text, use_cache=False, use_stdlib=False)
