"""Worker side of C13: runs the real `IterativeParser` (new_parse / consume / can_continue) on one
grammar and a handful of inputs, for every composition of each input into fragments.

handle(case) with case = {"spec", "kind": "str"|"bytes", "seed", "n_words", "max_len", "exhaust_len",
                          "sample_comps", "words": [[units]] | None, "extra_words": [[units]] | None}
returns {"words": [per-word record], "alts": linearisation | None, "patterns": n, ...}
All comparisons that only involve the real code (final parse set of a composition vs the whole input,
`can_continue` soundness) are made here so that only differences travel back; everything the Lean model is
asked about (scan calls, per-piece states of the instrumented compositions, oracle tables) is returned raw.
"""
from __future__ import annotations

import itertools
import json
import random
import re
from typing import Any, Optional

import regex as regex_mod

from harness.impl import grammar_io as gio

_REC: Optional[list] = None
_ADD_STACK: list = []
_CUR_RE: list = []
_INSTALLED = False
_SPEC_CACHE: dict[str, Any] = {}


# ------------------------------------------------------------------------------------------------
# units
# ------------------------------------------------------------------------------------------------

def to_units(x) -> list[int]:
    return [ord(c) for c in x] if isinstance(x, str) else list(x)


def from_units(units: list[int], kind: str):
    return "".join(chr(u) for u in units) if kind == "str" else bytes(units)


def tv_units(tv) -> tuple[str, list[int]]:
    """(kind, units) of a TreeValue holding text or bytes"""
    from fandango.language.tree_value import TreeValueType
    if tv.is_type(TreeValueType.BYTES):
        return "b", list(bytes(tv))
    return "t", [ord(c) for c in str(tv)]


def term_json(sym, regexes: gio.RegexTable) -> list:
    from fandango.language.tree_value import TreeValueType
    if sym.is_type(TreeValueType.TRAILING_BITS_ONLY):
        return ["bit", int(gio.terminal_payload(sym))]
    if sym.is_regex:
        return ["re", regexes.id_of(gio.terminal_payload(sym))]
    return ["lit", tv_units(sym.value())[1]]


# ------------------------------------------------------------------------------------------------
# the regex oracle: what `Terminal.check` asks of `re` / `regex`, asked directly
# ------------------------------------------------------------------------------------------------

class Oracle:
    def __init__(self, patterns: list, mode: str):
        self.patterns, self.mode = patterns, mode
        self.cache: dict[tuple, tuple] = {}

    def _conv(self, rid: int, units: list[int]):
        pat = self.patterns[rid]
        if isinstance(pat, bytes) and self.mode == "b":
            return pat, bytes(units)
        sym = pat.decode("latin-1") if isinstance(pat, bytes) else pat
        return sym, "".join(chr(u) for u in units)

    def ask(self, rid: int, units: list[int]) -> tuple[Optional[int], Optional[int]]:
        key = (rid, tuple(units))
        if key in self.cache:
            return self.cache[key]
        sym, word = self._conv(rid, units)
        try:
            m = re.match(sym, word)
            full = len(m.group(0)) if m else None
        except re.error:
            full = None
        part = None
        try:
            c = regex_mod.compile(sym)
            m = c.match(word, partial=True)
            if m is not None and (m.partial or m.end() == len(word)):
                part = len(m.group(0))
            else:
                m = c.fullmatch(word, partial=True)
                if m is not None and (m.partial or m.end() == len(word)):
                    part = len(m.group(0))
        except regex_mod.error:
            part = None
        self.cache[key] = (full, part)
        return full, part

    def tables(self, keys) -> dict:
        full, part = [], []
        for rid, units in sorted(set((r, tuple(u)) for r, u in keys)):
            f, p = self.ask(rid, list(units))
            if f is not None:
                full.append([rid, list(units), f])
            if p is not None:
                part.append([rid, list(units), p])
        return {"full": full, "part": part}

    def cut_stable(self, rids: list[int], w: list[int]) -> Optional[str]:
        """None if the six CutStable clauses hold for every infix z = x ++ y of w, else the failing clause"""
        n = len(w)
        for rid in rids:
            for i in range(n + 1):
                for j in range(i, n + 1):
                    z = w[i:j]
                    fz, pz = self.ask(rid, z)
                    if pz is not None and pz != len(z):
                        return f"part_len r{rid} {z}"
                    if fz is not None and fz > len(z):
                        return f"full_le r{rid} {z}"
                    for c in range(i, j + 1):
                        x = w[i:c]
                        fx, px = self.ask(rid, x)
                        if pz is not None and px is None:
                            return f"part_prefix r{rid} {x}|{w[c:j]}"
                        if fz is not None and len(x) < fz and px is None:
                            return f"full_part r{rid} {x}|{w[c:j]}"
                        # since 179bde08 a match of length 0 counts: every match achieved on non-empty input
                        if fx is not None and len(x) > 0 and fz != fx:
                            return f"full_stable r{rid} {x}|{w[c:j]}"
                        if fz is not None and fz <= len(x) and fx != fz:
                            return f"full_local r{rid} {x}|{w[c:j]}"
        return None


# ------------------------------------------------------------------------------------------------
# instrumentation of scan_bytes / scan_regex / scan_bit
# ------------------------------------------------------------------------------------------------

def install() -> None:
    global _INSTALLED
    if _INSTALLED:
        return
    _INSTALLED = True
    from fandango.language.grammar.parser.column import Column
    from fandango.language.grammar.parser.iterative_parser import IterativeParser

    orig_add = Column.add

    def add(self, state):
        if _ADD_STACK:
            table, adds = _ADD_STACK[-1]
            col = next((i for i, c in enumerate(table) if c is self), None)
            last = state.children[-1].symbol.value() if state.children else None
            adds.append({"col": col, "inc": bool(state.is_incomplete), "idx": int(state.incomplete_idx),
                         "dot": int(state._dot), "last": last})
        return orig_add(self, state)

    Column.add = add

    def wrap(name):
        orig = getattr(IterativeParser, name)

        def f(self, state, word, table, k, w, *rest):
            if _REC is None:
                return orig(self, state, word, table, k, w, *rest)
            prev = state.children[-1].symbol.value() if (state.is_incomplete and state.children) else None
            ins = {"fn": name, "dot": state.dot, "inc": bool(state.is_incomplete),
                   "idx": int(state.incomplete_idx), "prev": prev, "word": word, "k": int(k), "w": int(w),
                   "dot0": int(state._dot)}
            adds: list = []
            _ADD_STACK.append((table, adds))
            try:
                return orig(self, state, word, table, k, w, *rest)
            finally:
                _ADD_STACK.pop()
                _REC.append((ins, adds))

        setattr(IterativeParser, name, f)

    for n in ("scan_bytes", "scan_regex", "scan_bit"):
        wrap(n)

    # every leaf built inside scan_regex remembers the regex terminal it was scanned for (an attribute on the
    # fresh Terminal object; survives deepcopy / collapse / to_derivation_tree, which keep or copy the symbol)
    import fandango.language.grammar.parser.iterative_parser as ip
    real_terminal = ip.Terminal

    def tagged_terminal(x):
        t = real_terminal(x)
        if _CUR_RE:
            t._c13_re = _CUR_RE[-1]
        return t

    ip.Terminal = tagged_terminal
    inner_scan_regex = IterativeParser.scan_regex

    def scan_regex(self, state, word, table, k, w, *rest):
        _CUR_RE.append(state.dot)
        try:
            return inner_scan_regex(self, state, word, table, k, w, *rest)
        finally:
            _CUR_RE.pop()

    IterativeParser.scan_regex = scan_regex


def canon_scan(ins: dict, adds: list, regexes: gio.RegexTable) -> dict:
    word = ins["word"]
    mode = "t" if isinstance(word, str) else "b"
    wu = to_units(word)
    pre = tv_units(ins["prev"])[1] if ins["prev"] is not None else []
    outs = []
    for a in adds:
        last = a["last"]
        if last is None:
            lk, lu = None, []
        else:
            from fandango.language.tree_value import TreeValueType
            if last.is_type(TreeValueType.TRAILING_BITS_ONLY):
                lk, lu = "i", [int(last.to_bits(), 2)]
            else:
                lk, lu = tv_units(last)
        outs.append({"col": a["col"], "inc": a["inc"], "idx": a["idx"], "advanced": a["dot"] > ins["dot0"],
                     "last_kind": lk, "last": lu})
    return {"fn": ins["fn"], "mode": mode, "term": term_json(ins["dot"], regexes), "k": ins["k"],
            "inc": ins["inc"], "idx": ins["idx"], "pre": pre, "rest": wu[ins["w"]:], "w": ins["w"],
            "len": len(wu), "outs": outs}


# ------------------------------------------------------------------------------------------------
# running the real parser
# ------------------------------------------------------------------------------------------------

def compositions(n: int):
    """all cut sets of a word of length n, as tuples of piece lengths"""
    for cuts in itertools.product([0, 1], repeat=max(n - 1, 0)):
        out, cur = [], 1
        for c in cuts:
            if c:
                out.append(cur)
                cur = 1
            else:
                cur += 1
        out.append(cur)
        yield tuple(out)


def split(word, lens):
    out, i = [], 0
    for ln in lens:
        out.append(word[i:i + ln])
        i += ln
    return out


def leaves_of(tj: list) -> list:
    """non-empty leaves of a tree JSON, as [tag, payload]"""
    out = []
    for tag, payload in gio.tree_leaves(tj):
        if tag in ("t", "b") and len(payload) == 0:
            continue
        out.append([tag, list(payload) if tag != "i" else payload])
    return out


def regex_leaves(tree, regexes) -> Optional[list]:
    """[[offset, length, regex id]] (units) of the leaves that scan_regex built; None if one of them does not
    start on a unit boundary (bits before it)"""
    from fandango.language.tree_value import TreeValueType
    out: list = []
    off = 0        # in eighths of a unit
    ok = True

    def walk(t):
        nonlocal off, ok
        sym = t.symbol
        if sym.is_terminal:
            if sym.is_type(TreeValueType.TRAILING_BITS_ONLY):
                off += 1
                return
            n = len(tv_units(sym.value())[1])
            src = getattr(sym, "_c13_re", None)
            if src is not None:
                if off % 8:
                    ok = False
                else:
                    out.append([off // 8, n, regexes.id_of(gio.terminal_payload(src))])
            off += 8 * n
            return
        for c in t.children:
            walk(c)

    walk(tree)
    return sorted(out) if ok else None


def run_pieces(grammar, regexes, pieces, detail: bool) -> dict:
    """new_parse(); consume(piece) for every piece.  -> final complete parses (canonical tree JSON, sorted),
    can_continue after every piece; with detail: per-piece parses/resumables and the aligned flag"""
    from fandango.language.grammar.parser.iterative_parser import IterativeParser
    from fandango.language.tree_value import TreeValueType
    p = IterativeParser(grammar.rules)
    p.new_parse()
    cc, steps, final = [], [], []
    re_info: dict = {}
    for pc in pieces:
        trees = []
        re_info = {}
        for t, complete in p.consume(pc):
            if complete:
                ct = p.collapse(t)
                tj = json.dumps(gio.tree_to_json(ct), separators=(",", ":"))
                trees.append(tj)
                rl = regex_leaves(ct, regexes)
                re_info.setdefault(tj, [])
                if rl not in re_info[tj]:
                    re_info[tj].append(rl)     # one tree may be built from different regex terminals
        final = sorted(set(trees))
        c = bool(p.can_continue())
        cc.append(c)
        if detail:
            res = set()
            for st in p._table[p._table_idx].states:
                if st.is_incomplete:
                    last = st.children[-1].symbol.value()
                    res.add(json.dumps({"want": term_json(st.dot, regexes), "idx": int(st.incomplete_idx),
                                        "pre": tv_units(last)[1]}, sort_keys=True))
            steps.append({"parses": final, "can_continue": c, "resumable": sorted(res)})
    out = {"final": final, "cc": cc, "re": re_info}
    if detail:
        aligned = True
        for i, col in enumerate(p._table):
            if i % 8 == 0:
                continue
            for st in col.states:
                d = st.dot
                if d is not None and d.is_terminal and not d.is_type(TreeValueType.TRAILING_BITS_ONLY):
                    aligned = False
        out["steps"] = steps
        out["aligned"] = aligned
        out["columns"] = len(p._table)
    return out


def admitted_lengths(oracle: "Oracle", rid: int, wu: list[int], i: int, lens) -> set:
    """The match lengths `scan_regex` offers for regex `rid` starting at unit `i` when `wu` is fed in pieces of
    lengths `lens` — ONE length per scan, the one `re.match` prefers on the text available to that scan:
    the first scan (a fresh state: any length counts, 0 included — 179bde08) sees the rest of the piece that
    contains position i; a regex that starts exactly at a piece boundary is scanned for keeps with the next piece
    (the scan of the exhausted piece happens on a column that is thrown away) — unless there is no next piece,
    then that scan of the empty rest is the one that counts; while the text seen so far is a partial match, an
    incomplete state is parked at the end of the piece and scanned again with the next piece added (for an
    incomplete state a length that does not get past the text already seen is dropped:
    `state.is_incomplete and match_length <= prev_match_length`)."""
    out: set = set()
    n = len(wu)
    start, prev, first = 0, 0, True
    for ln in lens:
        end = start + ln
        if end < i or (end == i and i < n):
            start = end
            continue
        text = wu[i:end]
        full, part = oracle.ask(rid, text)
        w = (i - start) if first else 0
        matched = full is not None and (first or full > prev)
        if matched:
            out.add(full)
        if part is None or (not matched and part + w < ln) or end == i:
            break
        prev, first, start = part, False, end
    return out


def predict_split(oracle: "Oracle", wu: list[int], results: dict, re_infos: dict) -> Optional[dict]:
    """Are the differences between the compositions exactly those the one-length-per-scan behaviour of
    scan_regex produces?  universe = every complete parse seen under any composition; a parse is expected under
    a composition iff each of its regex leaves has an admitted length there.
    -> None if every composition's result equals the prediction, else the first mismatch."""
    universe = sorted(re_infos)
    cache: dict = {}
    for lens, final in results.items():
        expected = []
        for tj in universe:
            ok_any = False
            for rl in re_infos[tj]:
                if rl is None:
                    return {"comp": list(lens), "why": "regex leaf off a unit boundary"}
                ok = True
                for off, n, rid in rl:
                    key = (rid, off, lens)
                    if key not in cache:
                        cache[key] = admitted_lengths(oracle, rid, wu, off, lens)
                    if n not in cache[key]:
                        ok = False
                        break
                if ok:
                    ok_any = True
                    break
            if ok_any:
                expected.append(tj)
        if sorted(expected) != sorted(final):
            return {"comp": list(lens), "why": "result differs from the one-length-per-scan prediction",
                    "missing": [t for t in expected if t not in final][:2],
                    "unexpected": [t for t in final if t not in expected][:2]}
    return None


def run_pieces_safe(grammar, regexes, pieces, detail: bool) -> dict:
    """an exception escaping consume()/can_continue() is an observable outcome of that composition"""
    try:
        return run_pieces(grammar, regexes, pieces, detail)
    except (RecursionError, MemoryError):
        raise
    except Exception as e:  # noqa
        name = type(e).__name__
        if name == "_Alarm":
            raise
        out = {"final": [f"<raised {name}>"], "cc": [], "raised": name}
        if detail:
            out.update({"steps": [], "aligned": True, "columns": 0})
        return out


def accepts(grammar, word) -> bool:
    from fandango.language.grammar.parser.iterative_parser import IterativeParser
    p = IterativeParser(grammar.rules)
    p.new_parse()
    try:
        for _t, complete in p.consume(word):
            if complete:
                return True
    except (RecursionError, MemoryError):
        raise
    except Exception as e:  # noqa
        if type(e).__name__ == "_Alarm":
            raise
        return False
    return False


class NotLinear(Exception):
    pass


def linearize(grammar, regexes, limit: int = 150) -> Optional[list]:
    """the grammar as a finite union of terminal sequences, or None (recursion, unbounded repetition, too big)"""
    from fandango.language.grammar.nodes.alternative import Alternative
    from fandango.language.grammar.nodes.concatenation import Concatenation
    from fandango.language.grammar.nodes.non_terminal import NonTerminalNode
    from fandango.language.grammar.nodes.repetition import Plus, Repetition, Star
    from fandango.language.grammar.nodes.terminal import TerminalNode
    from fandango.language.symbols import NonTerminal

    def prod(xs, ys):
        out = [a + b for a in xs for b in ys]
        if len(out) > limit:
            raise NotLinear()
        return out

    def exp(node, stack) -> list:
        if isinstance(node, TerminalNode):
            return [[term_json(node.symbol, regexes)]]
        if isinstance(node, NonTerminalNode):
            if node.symbol in stack or node.symbol not in grammar.rules:
                raise NotLinear()
            return exp(grammar.rules[node.symbol], stack | {node.symbol})
        if isinstance(node, Alternative):
            out = []
            for a in node.alternatives:
                out += exp(a, stack)
            if len(out) > limit:
                raise NotLinear()
            return out
        if isinstance(node, Concatenation):
            out = [[]]
            for c in node.nodes:
                out = prod(out, exp(c, stack))
            return out
        if isinstance(node, Repetition):
            if isinstance(node, (Star, Plus)) or node.internal_max is None or node.bounds_constraint is not None:
                raise NotLinear()
            body = exp(node.node, stack)
            out, cur = [], [[]]
            for k in range(0, node.internal_max + 1):
                if k >= node.min:
                    out += cur
                    if len(out) > limit:
                        raise NotLinear()
                if k < node.internal_max:
                    cur = prod(cur, body)
            return out
        raise NotLinear()

    try:
        alts = exp(grammar.rules[NonTerminal("<start>")], frozenset({NonTerminal("<start>")}))
    except NotLinear:
        return None
    seen, out = set(), []
    for a in alts:
        key = json.dumps(a)
        if key not in seen:
            seen.add(key)
            out.append(a)
    return out


_GJ_CACHE: dict[str, Any] = {}


def get_grammar(spec: str):
    if spec not in _SPEC_CACHE:
        g, _ = gio.parse_spec(spec)
        gj, regexes = gio.grammar_to_json(g)
        _SPEC_CACHE[spec] = (g, regexes)
        _GJ_CACHE[spec] = gj
    return _SPEC_CACHE[spec]


def chart_sets(p) -> list:
    """the ordinary states of every column of the parser's table, as sorted lists of (state, children structure)"""
    def tj(t):
        if not t.children:
            return str(t.symbol)
        return "(" + " ".join(tj(c) for c in t.children) + ")"
    return [sorted({(str(st), " ".join(tj(c) for c in st.children)) for st in col.states if not st.is_incomplete})
            for col in p._table]


def chart_probe(grammar, word, lens) -> dict:
    """Does the CHART (not the parses) depend on the fragmentation?  The processed columns of the table after
    `word` at once and after the pieces `lens` (the last column is kept unprocessed in both), as sets of ordinary
    states.  Observation only (Props/C13.lean: C13_earley_close_core_needs_ok explains a difference)."""
    from fandango.language.grammar.parser.iterative_parser import IterativeParser
    charts, parses = [], []
    for pieces in ([word], split(word, lens)):
        p = IterativeParser(grammar.rules)
        p.new_parse()
        trees: list = []
        for pc in pieces:
            trees = sorted({json.dumps(gio.tree_to_json(p.collapse(t)), separators=(",", ":"))
                            for t, c in p.consume(pc) if c})
        charts.append(chart_sets(p))
        parses.append(trees)
    diff_cols = [i for i, (a, b) in enumerate(zip(charts[0], charts[1])) if a != b]
    return {"lens": list(lens), "columns": len(charts[0]), "differing_columns": diff_cols,
            "same_parses": parses[0] == parses[1], "n_parses": len(parses[0])}


def gen_words(grammar, kind: str, rng: random.Random, n_words: int, max_len: int) -> tuple[list, list]:
    """members (by the real fuzzer) and near misses, as python str/bytes; also the member list"""
    members: list = []
    for _ in range(n_words * 3):
        try:
            t = grammar.fuzz("<start>", max_nodes=rng.choice([5, 10, 20, 40]))
            w = str(t) if kind == "str" else t.to_bytes()
        except Exception:  # noqa
            continue
        if w not in members:
            members.append(w)
    alphabet = sorted({u for m in members for u in to_units(m)}) or [97]
    fit = sorted((m for m in members if 1 <= len(m) <= max_len), key=lambda x: -len(x))
    out: list = fit[:(n_words + 1) // 2]          # the longest that fit ...
    rest = [m for m in fit if m not in out]
    rng.shuffle(rest)
    out += rest[:n_words - len(out)]              # ... and a random choice of the others
    for m in list(out):
        if len(out) >= n_words * 2:
            break
        u = to_units(m)
        r = rng.random()
        if r < 0.35 and len(u) > 1:
            v = u[:-1]
        elif r < 0.7 and len(u) < max_len:
            v = u + [rng.choice(alphabet)]
        else:
            i = rng.randrange(len(u))
            v = u[:i] + [rng.choice(alphabet)] + u[i + 1:]
        w = from_units(v, kind)
        if w not in out and len(w) >= 1:
            out.append(w)
    return out, members


# ------------------------------------------------------------------------------------------------
# the protocol path: FandangoIO.add_receive -> one-unit fragments -> parse_next_remote_packet
# ------------------------------------------------------------------------------------------------

_IO_CACHE: dict[str, Any] = {}


class _FakeClock:
    """parse_next_remote_packet polls the fragment list with wall-clock time-outs (1 s after the last fragment,
    10 s for the first); a virtual clock makes the run deterministic and independent of the machine's load"""
    def __init__(self):
        self.t = 0.0

    def time(self):
        self.t += 0.3
        return self.t

    def sleep(self, s):
        self.t += s


def io_setup(spec: str):
    """the grammar under test as the one message type `<c13msg>` that the external party Ext sends to Fz"""
    if spec in _IO_CACHE:
        return _IO_CACHE[spec]
    from harness.gen.protocols import party_classes
    try:
        body = spec.replace("<start>", "<c13msg>")
        text = "<start> ::= <Ext:Fz:c13msg>\n" + body + "\n" + party_classes(["Ext", "Fz"], ["Fz"])
        g, _ = gio.parse_spec(text)
        from fandango.io.navigation.packetforecaster import PacketForecaster
        from fandango.language.symbols import NonTerminal
        from fandango.language.tree import DerivationTree
        fc = PacketForecaster(g).predict(DerivationTree(NonTerminal("<start>")))
        nt = NonTerminal("<c13msg>")
        if "Ext" not in fc or nt not in set(fc["Ext"].get_non_terminals()):
            raise ValueError("forecast does not offer the message")
        _gj, regexes = gio.grammar_to_json(g)
        _IO_CACHE[spec] = (g, fc, nt, regexes)
    except Exception as e:  # noqa
        if type(e).__name__ == "_Alarm":
            raise
        _IO_CACHE[spec] = f"{type(e).__name__}: {e}"[:120]
    return _IO_CACHE[spec]


def _strip_parties(tj: list) -> list:
    if tj[0] == "n":
        return ["n", tj[1], None, None, [_strip_parties(k) for k in tj[4]]]
    if tj[0] == "s":
        return ["s", [_strip_parties(k) for k in tj[1]]]
    return [tj[0], tj[1], None, None]


def io_run(spec: str, kind: str, word, lens, oracle_mode: str) -> dict:
    """`word` handed to FandangoIO.add_receive in chunks of lengths `lens`; parse_next_remote_packet.
    Compared (1) with the incremental parser driven directly with one-unit pieces the way the packet parser
    documents it (longest prefix with a complete parse, first tree) and (2) with the complete parses of that
    prefix supplied at once."""
    setup = io_setup(spec)
    if isinstance(setup, str):
        return {"skip": setup}
    g, fc, nt, regexes = setup
    import fandango.io.packetparser as pp
    from fandango.io import FandangoIO
    from fandango.language.grammar import ParsingMode
    from fandango.language.grammar.parser.iterative_parser import IterativeParser
    pp.time = _FakeClock()
    io = FandangoIO()
    for piece in split(word, lens):
        io.add_receive("Ext", "Fz", piece)
    n = len(word)
    units = [word[i:i + 1] for i in range(n)]
    frag_ok = [f[2] for f in io.get_received_msgs()] == units and \
        all(f[0] == "Ext" and f[1] == "Fz" for f in io.get_received_msgs())
    out: dict[str, Any] = {"fragments_ok": frag_ok}
    try:
        pk, tree = pp.parse_next_remote_packet(g, fc, io)
        out["tree"] = json.dumps(_strip_parties(gio.tree_to_json(tree)), separators=(",", ":"))
        out["parties"] = [tree.sender, tree.recipient]
        out["consumed"] = n - len(io.get_received_msgs())
        out["re"] = regex_leaves(tree, regexes)
    except Exception as e:  # noqa
        if type(e).__name__ in ("_Alarm", "RecursionError", "MemoryError"):
            raise
        out["raised"] = type(e).__name__
        out["consumed"] = n - len(io.get_received_msgs())
    # (1) the same fragments on a parser of our own
    hook = None
    try:
        hd = sorted(fc["Ext"][nt].paths, key=lambda x: str(x.path))[0]
        hook = hd.tree.get_last_by_path([x[0] for x in hd.path if not x[1]])
    except Exception:  # noqa
        hook = None
    p = IterativeParser(g.rules)
    p.new_parse(start=nt, mode=ParsingMode.COMPLETE, hookin_parent=hook)
    best = None
    try:
        for k, u in enumerate(units):
            t, complete = next(p.consume(u), (None, None))
            if t is not None and complete:
                best = (k + 1, json.dumps(_strip_parties(gio.tree_to_json(p.collapse(t))), separators=(",", ":")))
            if not p.can_continue():
                break
        out["direct"] = {"consumed": best[0], "tree": best[1]} if best else {"raised": "FandangoFailedError"}
    except Exception as e:  # noqa
        if type(e).__name__ in ("_Alarm", "RecursionError", "MemoryError"):
            raise
        out["direct"] = {"raised": type(e).__name__}
    # (2) the consumed prefix supplied at once
    if "tree" in out:
        k = out["consumed"]
        q = IterativeParser(g.rules)
        q.new_parse(start=nt, mode=ParsingMode.COMPLETE, hookin_parent=hook)
        try:
            once = sorted({json.dumps(_strip_parties(gio.tree_to_json(q.collapse(t))), separators=(",", ":"))
                           for t, c in q.consume(word[:k]) if c})
        except Exception as e:  # noqa
            if type(e).__name__ in ("_Alarm", "RecursionError", "MemoryError"):
                raise
            once = [f"<raised {type(e).__name__}>"]
        out["in_once"] = out["tree"] in once
        out["n_once"] = len(once)
        if not out["in_once"]:
            # the only accepted explanation: a regex leaf of the tree has a length that is offered when the
            # input comes unit by unit but not when it comes at once (the open finding)
            rl = out["re"]
            oracle = Oracle(regexes.patterns, oracle_mode)
            wu = to_units(word[:k])
            expl = False
            if rl:
                unit_ok = all(ln in admitted_lengths(oracle, rid, wu, off, tuple([1] * k)) for off, ln, rid in rl)
                once_ok = all(ln in admitted_lengths(oracle, rid, wu, off, (k,)) for off, ln, rid in rl)
                expl = unit_ok and not once_ok
            out["split_explains"] = expl
    out.pop("re", None)
    # (3) no longer prefix is accepted when supplied at once (the packet parser keeps the longest complete parse)
    longer = None
    q_rules = g.rules
    for j in range(n, out.get("consumed", 0), -1):
        q = IterativeParser(q_rules)
        q.new_parse(start=nt, mode=ParsingMode.COMPLETE, hookin_parent=hook)
        try:
            trees = [q.collapse(t) for t, c in q.consume(word[:j]) if c]
            if trees:
                longer = j
                # explained by the open finding iff every at-once parse has a regex leaf whose length is not
                # offered when the input comes unit by unit
                oracle = Oracle(regexes.patterns, oracle_mode)
                wu = to_units(word[:j])
                expl = True
                for t in trees:
                    rl = regex_leaves(t, regexes)
                    if not rl or all(ln in admitted_lengths(oracle, rid, wu, off, tuple([1] * j))
                                     for off, ln, rid in rl):
                        expl = False
                out["longer_explained"] = expl
                break
        except Exception as e:  # noqa
            if type(e).__name__ in ("_Alarm", "RecursionError", "MemoryError"):
                raise
    out["longer_once"] = longer
    return out


def handle(case: dict) -> dict:
    global _REC
    install()
    random.seed(case.get("seed", 0))
    rng = random.Random(case.get("seed", 0))
    kind = case["kind"]
    mode = "t" if kind == "str" else "b"
    grammar, regexes = get_grammar(case["spec"])
    if case.get("words") is not None:
        words = [from_units(u, kind) for u in case["words"]]
        members = []
    else:
        words, members = gen_words(grammar, kind, rng, case.get("n_words", 3), case.get("max_len", 8))
    for u in case.get("extra_words") or []:      # inputs the fuzzer cannot produce (non-members, wide characters)
        w = from_units(u, kind)
        if w not in words:
            words.append(w)
    alts = linearize(grammar, regexes)
    oracle = Oracle(regexes.patterns, mode)
    rids = list(range(len(regexes.patterns)))
    recs = []
    for word in words:
        n = len(word)
        wu = to_units(word)
        rec: dict[str, Any] = {"word": wu, "n": n}
        whole = run_pieces_safe(grammar, regexes, [word], True)
        rec["whole"] = whole
        rec["cut_stable_fail"] = oracle.cut_stable(rids, wu)
        if case.get("comps") is not None:
            comps = [tuple(c) for c in case["comps"]]
            exhaustive = False
        elif n <= case.get("exhaust_len", 10):
            comps = list(compositions(n))
            exhaustive = True
        else:
            comps = {tuple([1] * n)}
            while len(comps) < case.get("sample_comps", 40):
                cuts = [rng.random() < 0.4 for _ in range(n - 1)]
                out, cur = [], 1
                for c in cuts:
                    if c:
                        out.append(cur); cur = 1
                    else:
                        cur += 1
                out.append(cur)
                comps.add(tuple(out))
            comps = sorted(comps)
            exhaustive = False
        rec["exhaustive"] = exhaustive
        rec["n_comps"] = len(comps)
        # -- every composition on the real parser
        diffs = []
        cc_by_prefix: dict[int, set] = {}
        results: dict = {tuple([n]): whole["final"]}
        re_infos: dict = {}
        raised_any = bool(whole.get("raised"))
        for tj, rls in whole.get("re", {}).items():
            re_infos.setdefault(tj, [])
            re_infos[tj] += [x for x in rls if x not in re_infos[tj]]
        for lens in comps:
            r = run_pieces_safe(grammar, regexes, split(word, lens), False)
            results[tuple(lens)] = r["final"]
            raised_any = raised_any or bool(r.get("raised"))
            for tj, rls in r.get("re", {}).items():
                re_infos.setdefault(tj, [])
                re_infos[tj] += [x for x in rls if x not in re_infos[tj]]
            if r["final"] != whole["final"]:
                diffs.append({"comp": list(lens), "final": r["final"]})
            pos = 0
            for ln, c in zip(lens, r["cc"]):
                pos += ln
                cc_by_prefix.setdefault(pos, set()).add(c)
        rec["diffs"] = diffs[:8]
        rec["n_diffs"] = len(diffs)
        # are the differences exactly those of the known one-length-per-scan behaviour of scan_regex?
        rec["split_mismatch"] = None
        if diffs:
            rec["split_mismatch"] = ({"why": "a composition raised"} if raised_any or n == 0 else
                                     predict_split(oracle, wu, results, re_infos))
            rec["n_outcomes"] = len({tuple(v) for v in results.values()})
        whole.pop("re", None)
        rec["cc_by_prefix"] = {str(k): sorted(v) for k, v in cc_by_prefix.items()}
        # -- can_continue soundness: a prefix after which the parser says "cannot continue" has no extension
        unsound = []
        alphabet = sorted({u for m in members for u in to_units(m)} | set(wu))[:6]
        enum_budget = case.get("cc_enum", 2)
        for pos, vals in sorted(cc_by_prefix.items()):
            if False not in vals:
                continue
            prefix = word[:pos]
            ext = None
            if pos < n and whole["final"]:
                ext = wu[pos:]
            if ext is None:
                for m in members:
                    if len(m) > pos and m[:pos] == prefix and accepts(grammar, m):
                        ext = to_units(m)[pos:]
                        break
            if ext is None and enum_budget > 0:
                enum_budget -= 1
                for ln in (1, 2):
                    for v in itertools.product(alphabet, repeat=ln):
                        cand = from_units(to_units(prefix) + list(v), kind)
                        if accepts(grammar, cand):
                            ext = list(v)
                            break
                    if ext is not None:
                        break
            if ext is not None:
                unsound.append({"prefix_len": pos, "extension": ext})
        rec["cc_unsound"] = unsound
        # -- instrumented compositions: scan calls and per-piece states, for the model
        inst = [tuple([n])]
        if n > 1:
            inst.append(tuple([1] * n))
        others = [c for c in comps if c not in inst]
        rng.shuffle(others)
        inst += others[:case.get("instrument_comps", 3)]
        scans: dict[str, dict] = {}
        runs = []
        for lens in inst:
            _REC = []
            try:
                r = run_pieces_safe(grammar, regexes, split(word, lens), True)
            finally:
                log, _REC = _REC, None
            for ins, adds in log:
                c = canon_scan(ins, adds, regexes)
                scans.setdefault(json.dumps(c, sort_keys=True), c)
            runs.append({"comp": list(lens), "steps": [
                {"leaves": sorted(set(json.dumps(leaves_of(json.loads(t))) for t in s["parses"])),
                 "trees": s["parses"],
                 "can_continue": s["can_continue"], "resumable": s["resumable"]} for s in r["steps"]],
                "aligned": r["aligned"], "raised": r.get("raised")})
        # -- the protocol path (one-unit fragments whatever the chunks handed to add_receive)
        if case.get("io", True) and n >= 1:
            io_lens = rng.choice(comps) if comps else (n,)
            rec["io"] = io_run(case["spec"], kind, word, io_lens, mode)
            rec["io"]["chunks"] = list(io_lens)
        scan_list = list(scans.values())
        keys = [(c["term"][1], c["pre"] + c["rest"]) for c in scan_list if c["term"][0] == "re"]
        for c in scan_list:
            if c["term"][0] == "re":
                c["oracle"] = oracle.tables([(c["term"][1], c["pre"] + c["rest"])])
        rec["scans"] = scan_list
        rec["runs"] = runs
        # every (regex, infix of the input) pair: the whole-run models (linear engine, engine of the real closure)
        infixes = [wu[i:j] for i in range(n + 1) for j in range(i, n + 1)]
        rec["oracle"] = oracle.tables([(r, z) for r in rids for z in infixes])
        if case.get("chart_probe"):
            rec["chart_probe"] = [chart_probe(grammar, word, tuple(l)) for l in case["chart_probe"]
                                  if sum(l) == n]
        recs.append(rec)
    return {"words": recs, "alts": alts, "gj": _GJ_CACHE.get(case["spec"]), "patterns": len(regexes.patterns),
            "n_members": len(members)}
