"""Event-driven execution of the REAL `Fandango._generate_io` (C20).

* the parties of a generated spec are scripted in-process parties (subclasses of FandangoParty, as in
  tests/resources/minimal_io.fan) that call back into the `World` of the current case;
* `time` as seen by evolution/algorithm.py and io/packetparser.py is a virtual clock: `sleep` is a
  *delivery point* at which the schedule decides which pending fragment arrives, or that nothing arrives
  any more (the clock then jumps past the time-out the code is waiting on);
* further delivery points: `FandangoIO.received_msg()`, `FandangoIO.get_received_msgs()` and `party.send()`
  — so remote data can arrive before, during and after the fuzzer's own turn and in the middle of an
  extraction;
* every decision of the schedule comes from a *tape* (list of ints); unexplored tapes are enumerated
  depth first from the (choice, arity) log of the previous run, so a scenario's schedules are exhausted
  systematically (or capped and then sampled from VERIF_SEED);
* what is recorded: the environment trace for the model (recv / send / try / extract / silence / …; "try" =
  one call of `Fandango._extends_history` with the candidate's protocol messages and its verdict), every
  `party.send` call, every `party.receive` call with its true recipient, the forecasts the real forecaster
  produced, the result tree's protocol messages, error classes, the buffer at the end.
"""
from __future__ import annotations

import random
import signal
import sys
import types
import warnings
from typing import Any, Optional


class StepCap(BaseException):
    pass


def _on_alarm(*_a):
    raise StepCap()


def cps(x) -> list[int]:
    """code units of a str / bytes payload"""
    if isinstance(x, bytes):
        return list(x)
    return [ord(c) for c in x]


class Tape:
    def __init__(self, tape: list[int]):
        self.tape = list(tape)
        self.pos = 0
        self.log: list[tuple[int, int]] = []

    def choose(self, arity: int) -> int:
        if arity <= 1:
            return 0
        c = self.tape[self.pos] % arity if self.pos < len(self.tape) else 0
        self.pos += 1
        self.log.append((c, arity))
        return c


def next_tape(log: list[tuple[int, int]]) -> Optional[list[int]]:
    """depth-first successor of a fully logged tape"""
    i = len(log) - 1
    while i >= 0 and log[i][0] + 1 >= log[i][1]:
        i -= 1
    if i < 0:
        return None
    return [c for c, _ in log[:i]] + [log[i][0] + 1]


class World:
    """one case: spec info + scenario + tape"""

    def __init__(self, info: dict, scenario: dict, tape: list[int], nexts: dict):
        self.info = info
        self.sc = scenario
        self.tape = Tape(tape)
        self.nexts = nexts                    # {history tuple: [(s, r, type)…]} from the verified forecaster
        self.rng = random.Random(scenario["seed"])
        self.now = 0.0
        self.io = None
        self.trace: list = []
        self.sends: list = []                 # party.send calls: [party, recipient, type, cps]
        self.delivered: list = []             # every receive() call: [sender, true recipient, cps]
        self.pending: list[dict] = []         # chunks not yet delivered
        self.hist: list[tuple] = []           # the conversation as the peers see it
        self.mute = False
        self.emissions = 0
        self.fault_done: Optional[str] = None
        self.forecasts: list = []             # what the real forecaster said, per loop iteration
        self.errors: list = []                # print_exception calls
        self.tries: dict = {True: 0, False: 0}  # verdicts of _extends_history
        self.ticks = 0
        self.in_delivery = False
        self.bytes_mode = info["bytes"]
        self.ext = set(info["external"])
        self.fz = set(info["fuzzer"])
        self.types = {t["name"]: t for t in info["types"]}

    # ---- helpers
    def enc(self, w: str):
        return w.encode("latin-1") if self.bytes_mode else w

    def raw_buffer(self) -> list:
        with self.io.receive_lock:
            return list(self.io.receive)

    # ---- the peers
    def peer_may_speak(self, point: str) -> None:
        if self.mute or self.emissions >= self.sc.get("max_emissions", 12):
            return
        if self.pending and not self.sc.get("overlap"):
            return
        opts = self.nexts.get(tuple(self.hist))
        if not opts:
            return
        mine = [o for o in opts if o[0] in self.ext]
        if not mine:
            return
        theirs = [o for o in opts if o[0] in self.fz]
        if self.sc["mode"] == "polite" and self.raw_buffer():
            return
        p = {"sleep": 1.0, "send": self.sc.get("p_reply_in_send", 0.5), "poll": self.sc.get("p_unsolicited", 0.1)}[point]
        if theirs and point != "sleep":
            p *= 0.3
        if self.rng.random() >= p:
            return
        o = self.rng.choice(sorted(mine))
        t = self.types[o[2][1:-1]]
        fault = None
        if self.sc.get("fault") and self.sc["fault"][0] == self.emissions:
            fault = self.sc["fault"][1]
        self.emissions += 1
        words = [w for w in t["words"] if w not in t["forbidden"]]
        word = self.rng.choice(words)
        recipient = o[1]
        applied = None
        if fault == "wrong_type":
            expected = {w for q in mine if q[0] == o[0] for w in self.types[q[2][1:-1]]["words"]}
            cands = [w for w in self.info["junk"] if w not in expected]
            word = self.rng.choice(cands)
            applied = fault
        elif fault == "violating":
            if t["forbidden"]:
                word = self.rng.choice(t["forbidden"])
                applied = fault
        elif fault == "truncated":
            allw = {w for q in self.info["types"] for w in q["words"]}
            cuts = [word[:k] for k in range(1, len(word)) if word[:k] not in allw]
            if cuts:
                word = self.rng.choice(cuts)
                applied = fault
        elif fault == "extra":
            word = word + self.rng.choice(["z", "zz", "a"])
            applied = fault
        elif fault == "wrong_recipient":
            others = sorted(self.fz - {recipient})
            if others:
                recipient = self.rng.choice(others)
                applied = fault
        if applied:
            self.fault_done = applied
            self.mute = True
        if applied in (None, "extra", "wrong_recipient"):
            self.hist.append(tuple(o))
        else:
            self.hist.append(("!", None, "!"))       # the peers have left the protocol
        # fragmentation: a composition of the word, chunk by chunk, from the tape; and per chunk: early / late
        rest = word
        chunks = []
        while rest:
            n = 1 + self.tape.choose(len(rest))
            late = self.tape.choose(2) == 1
            chunks.append({"s": o[0], "r": recipient, "data": rest[:n], "late": late})
            rest = rest[n:]
        # "overlap" scenarios: a party speaks again while data of an earlier message is still on its way; every
        # (sender, recipient) channel is FIFO, across channels the tape decides how the chunks interleave
        lo = 1 + max((i for i, c in enumerate(self.pending) if (c["s"], c["r"]) == (o[0], recipient)), default=-1)
        for ch in chunks:
            pos = lo + self.tape.choose(len(self.pending) - lo + 1)
            self.pending.insert(pos, ch)
            lo = pos + 1

    def deliver_one(self, ch: dict) -> None:
        data = self.enc(ch["data"])
        self.delivered.append([ch["s"], ch["r"], cps(data)])
        self.trace.append(["recv", ch["s"], ch["r"], cps(data)])
        self.in_delivery = True
        try:
            self.io.parties[ch["r"]].receive(data, ch["s"])
        finally:
            self.in_delivery = False

    def tick(self, point: str) -> bool:
        """a delivery point; returns True iff something was delivered"""
        if self.in_delivery or self.io is None:
            return False
        self.ticks += 1
        if self.ticks > self.sc.get("tick_cap", 4000):
            raise StepCap()
        self.peer_may_speak(point)
        got = False
        while self.pending and not self.pending[0]["late"]:
            self.deliver_one(self.pending.pop(0))
            got = True
        if point == "sleep" and not got and self.pending:
            self.deliver_one(self.pending.pop(0))
            got = True
            while self.pending and not self.pending[0]["late"]:
                self.deliver_one(self.pending.pop(0))
        return got

    # ---- hooks called from the spec's party classes
    def on_send(self, party: str, message, recipient) -> None:
        t = message.symbol.name() if hasattr(message, "symbol") else "?"
        v = message.value() if hasattr(message, "value") else message
        payload = v.to_bytes() if self.bytes_mode and hasattr(v, "to_bytes") else str(message)
        if self.bytes_mode and not isinstance(payload, bytes):
            payload = str(message).encode("latin-1")
        self.sends.append([party, recipient, t, cps(payload)])
        self.trace.append(["send", party, recipient, t, cps(payload)])
        self.hist.append((party, recipient, t))
        self.tick("send")


CUR: dict[str, Optional[World]] = {"w": None}


class FakeTime:
    """stands in for the `time` module inside one fandango module"""

    def __init__(self, where: str):
        self.where = where

    def time(self) -> float:
        w = CUR["w"]
        return w.now if w else 0.0

    def sleep(self, dt: float) -> None:
        w = CUR["w"]
        if w is None:
            return
        w.now += dt
        if w.tick("sleep"):
            return
        # nothing arrives any more: the wait the code is in runs out
        if self.where == "alg":
            w.trace.append(["nomessage"])
        else:
            fr = sys._getframe(1)
            if "nt_parsers" in fr.f_locals:
                if fr.f_locals.get("next_fragment") is not None:
                    return          # the loop body sleeps once more after it has found the fragment: not a wait
                w.trace.append(["silence"])
            else:
                w.trace.append(["unexpected"])
        w.now += 1000.0

    def __getattr__(self, name):
        import time as _t
        return getattr(_t, name)


_INSTALLED = {"done": False}


def install() -> None:
    """patch the loaded fandango modules (once per process)"""
    if _INSTALLED["done"]:
        return
    import fandango.evolution.algorithm as ALG
    import fandango.io.packetparser as PP
    from fandango.io.navigation.packetselector import PacketSelector

    ALG.time = FakeTime("alg")
    PP.time = FakeTime("pp")

    def rec_exc(e, *a, **k):
        w = CUR["w"]
        if w is not None:
            w.errors.append([type(e).__name__, " ".join(str(a) for a in e.args)[:200]])
    ALG.print_exception = rec_exc

    real_parse = ALG.parse_next_remote_packet

    def parse_wrapped(grammar, forecast, io_instance):
        w = CUR["w"]
        if w is not None:
            w.trace.append(["extract"])
        return real_parse(grammar, forecast, io_instance)
    ALG.parse_next_remote_packet = parse_wrapped

    real_compute = PacketSelector.compute

    def compute_wrapped(self, history_tree, past):
        real_compute(self, history_tree, past)
        w = CUR["w"]
        if w is not None:
            try:
                fr = self.forecasting_result
                opts = sorted([pk.node.sender, pk.node.recipient, nt.name()]
                              for fnt in fr.parties_to_packets.values() for nt, pk in fnt.nt_to_packet.items())
                h = [[m.sender, m.recipient, m.msg.symbol.name()] for m in history_tree.protocol_msgs()]
                w.forecasts.append({"h": h, "opts": opts, "complete": len(fr.complete_trees) != 0})
            except Exception as e:  # noqa — the run itself will hit the same exception
                w.forecasts.append({"h": None, "crash": type(e).__name__})
    PacketSelector.compute = compute_wrapped

    # the guard of the fuzzer's send (since bd6395f0); a source without it simply has no "try" events
    real_extends = getattr(ALG.Fandango, "_extends_history", None)
    if real_extends is not None:
        def extends_wrapped(history_tree, candidate):
            verdict = real_extends(history_tree, candidate)
            w = CUR["w"]
            if w is not None:
                try:
                    w.trace.append(["try", history_of(candidate, w.bytes_mode), bool(verdict)])
                    w.tries[bool(verdict)] += 1
                except Exception as e:  # noqa — a candidate whose messages cannot be rendered: recorded, not judged
                    w.tries["unrenderable:" + type(e).__name__] = w.tries.get("unrenderable:" + type(e).__name__, 0) + 1
            return verdict
        ALG.Fandango._extends_history = staticmethod(extends_wrapped)

    sys.modules["c20world"] = types.SimpleNamespace(
        on_send=lambda p, m, r: CUR["w"].on_send(p, m, r) if CUR["w"] else None,
        register=lambda io: _register(io))
    _INSTALLED["done"] = True


def _register(io) -> None:
    w = CUR["w"]
    if w is None or w.io is io:
        return
    w.io = io
    real_received = io.received_msg
    real_get = io.get_received_msgs

    def received_msg():
        w.tick("poll")
        return real_received()

    def get_received_msgs():
        w.tick("poll")
        return real_get()
    io.received_msg = received_msg
    io.get_received_msgs = get_received_msgs


def payload_cps(tree, bytes_mode: bool) -> list[int]:
    v = tree.value()
    if bytes_mode:
        return list(v.to_bytes())
    return [ord(c) for c in str(v)]


def history_of(tree, bytes_mode: bool) -> list:
    return [[m.sender, m.recipient, m.msg.symbol.name(), payload_cps(m.msg, bytes_mode)] for m in tree.protocol_msgs()]


def run_case(spec: str, info: dict, scenario: dict, tape: list[int], nexts: dict) -> dict:
    """one real run of `_generate_io` up to its first yield / exception"""
    from fandango.api import Fandango
    from fandango.language.grammar import FuzzingMode
    install()
    import logging
    from fandango.logger import LOGGER
    LOGGER.disabled = True
    logging.getLogger("fandango").disabled = True
    w = World(info, scenario, tape, nexts)
    CUR["w"] = w
    obs: dict[str, Any] = {"status": None}
    tree = None
    try:
        random.seed(scenario["seed"])
        with warnings.catch_warnings():
            warnings.simplefilter("ignore")
            f = Fandango(spec, use_stdlib=False, use_cache=False)
            f.init_population(population_size=scenario.get("population", 3))
            # max_generations bounds the evolutionary fallback of the fuzzer branch (it would search for ever
            # when no extension of the history satisfies the constraints); the alarm is a last resort
            gen = f.generate_solutions(scenario.get("max_generations", 24), FuzzingMode.IO)
            try:
                signal.signal(signal.SIGALRM, _on_alarm)
                signal.alarm(int(scenario.get("alarm_s", 240)))
                tree = next(gen)
                if w.errors:
                    obs["status"] = "failed"
                    obs["error"] = w.errors[-1]
                else:
                    obs["status"] = "done"
                    w.trace.append(["done"])
            except StepCap:
                obs["status"] = "capped"
            except StopIteration:
                obs["status"] = "empty"
            except Exception as e:  # noqa — the run ended with an error that is not FandangoFailedError
                obs["status"] = "raised"
                obs["error"] = [type(e).__name__, " ".join(str(a) for a in e.args)[:200]]
                tb = e.__traceback__
                while tb is not None:
                    if tb.tb_frame.f_code.co_name == "_generate_io":
                        tree = tb.tb_frame.f_locals.get("history_tree")
                    tb = tb.tb_next
            finally:
                signal.alarm(0)
                try:
                    gen.close()
                except Exception:  # noqa
                    pass
        obs["history"] = history_of(tree, w.bytes_mode) if tree is not None else None
        obs["buffer"] = [[s, r, cps(d)[0]] for s, r, d in w.raw_buffer()] if w.io is not None else []
    finally:
        CUR["w"] = None
    obs.update({"trace": w.trace, "sends": w.sends, "delivered": w.delivered, "forecasts": w.forecasts,
                "errors": w.errors, "fault_done": w.fault_done, "tape_log": w.tape.log, "ticks": w.ticks,
                "peer_hist": [list(x) for x in w.hist], "undelivered": len(w.pending),
                "tries": {str(k): v for k, v in w.tries.items()}})
    # a fresh front end, fresh constraint objects: judge the recorded interaction once more
    if tree is not None:
        try:
            from harness.impl.grammar_io import parse_spec
            with warnings.catch_warnings():
                warnings.simplefilter("ignore")
                _, cons = parse_spec(spec)
            verdicts = []
            for c in cons:
                try:
                    verdicts.append(bool(c.check(tree)))
                except Exception as e:  # noqa
                    verdicts.append("raised:" + type(e).__name__)
            obs["fresh_constraints"] = verdicts
        except Exception as e:  # noqa
            obs["fresh_constraints"] = ["crash:" + type(e).__name__]
    return obs
