"""Process pool for running the real implementation on many cases, each under a hard time limit.

`run_pool(module, cases)` splits `cases` round-robin over N subprocesses
(`python -m harness.impl.pool <module>`), each of which imports `<module>` (which must call
`harness.common.use_repo()` itself or let the worker do it) and answers one JSON line per case with
`module.handle(case) -> jsonable`.  Inside the worker every case runs under `signal.alarm(per_case_s)`
(the real parser diverges on some grammars: a pure-Python loop is interrupted by the alarm); the parent
additionally kills a worker that exceeds `hard_s`.  Results: the list of answers in case order; a case that
timed out is `{"timeout": true}`, one whose worker died `{"killed": true}`, an exception
`{"error": "<Type>: <msg>"}`.
"""
from __future__ import annotations

import importlib
import json
import os
import signal
import subprocess
import sys
import threading
import time
from typing import Any

from harness.common import VERIF, child_env


class _Alarm(Exception):
    pass


def _on_alarm(signum, frame):
    raise _Alarm()


def worker_main(modname: str, per_case_s: int) -> None:
    out = os.fdopen(os.dup(1), "w")
    os.dup2(2, 1)            # whatever the library prints goes to stderr
    sys.stdout = sys.stderr
    from harness.common import use_repo
    use_repo()
    mod = importlib.import_module(modname)
    signal.signal(signal.SIGALRM, _on_alarm)
    for line in sys.stdin:
        line = line.strip()
        if not line:
            continue
        idx, case = json.loads(line)
        t0 = time.time()
        try:
            signal.alarm(per_case_s)
            try:
                res = mod.handle(case)
            finally:
                signal.alarm(0)
        except _Alarm:
            res = {"timeout": True}
        except RecursionError:
            res = {"error": "RecursionError"}
        except Exception as e:  # noqa
            import traceback
            res = {"error": f"{type(e).__name__}: {e}", "trace": traceback.format_exc()[-1500:]}
        if isinstance(res, dict):
            res["_wall"] = round(time.time() - t0, 3)
        out.write(json.dumps([idx, res], default=str) + "\n")
        out.flush()


def run_pool(modname: str, cases: list[Any], nproc: int = 16, per_case_s: int = 20,
             hard_s: int = 900) -> list[dict]:
    n = max(1, min(nproc, len(cases)))
    chunks: list[list[tuple[int, Any]]] = [[] for _ in range(n)]
    for i, c in enumerate(cases):
        chunks[i % n].append((i, c))
    results: list[Any] = [None] * len(cases)
    env = child_env()

    def run_chunk(chunk):
        data = "".join(json.dumps([i, c], default=str) + "\n" for i, c in chunk)
        p = subprocess.Popen([sys.executable, "-m", "harness.impl.pool", modname, str(per_case_s)],
                             cwd=str(VERIF), env=env, stdin=subprocess.PIPE, stdout=subprocess.PIPE,
                             stderr=subprocess.DEVNULL, text=True)
        try:
            out, _ = p.communicate(data, timeout=hard_s)
        except subprocess.TimeoutExpired:
            p.kill()
            out, _ = p.communicate()
        for line in (out or "").splitlines():
            try:
                i, r = json.loads(line)
            except Exception:  # noqa
                continue
            results[i] = r

    threads = [threading.Thread(target=run_chunk, args=(ch,)) for ch in chunks if ch]
    for t in threads:
        t.start()
    for t in threads:
        t.join()
    return [r if r is not None else {"killed": True} for r in results]


if __name__ == "__main__":
    worker_main(sys.argv[1], int(sys.argv[2]))
