"""Adapters around the real protocol-forecasting code (C19): predict, mount, slice."""
from __future__ import annotations

import copy
import json
from typing import Any, Optional

from harness.impl.grammar_io import grammar_to_json, tree_to_json

Msg = tuple  # (sender, recipient|None, "<type>")


def start_tree():
    from fandango.language.symbols import NonTerminal
    from fandango.language.tree import DerivationTree
    return DerivationTree(NonTerminal("<start>"))


def msg_tree(m: Msg, content: Any):
    from fandango.language.symbols import NonTerminal, Terminal
    from fandango.language.tree import DerivationTree
    return DerivationTree(NonTerminal(m[2]), [DerivationTree(Terminal(content))], sender=m[0], recipient=m[1])


def real_predict(fc, tree) -> tuple[dict, bool, Any]:
    """-> ({(sender, recipient, type): ForecastingPacket}, complete?, raw result)"""
    res = fc.predict(tree)
    opts: dict = {}
    for party, fnt in res.parties_to_packets.items():
        for nt, pk in fnt.nt_to_packet.items():
            opts[(pk.node.sender, pk.node.recipient, nt.name())] = pk
            if party != pk.node.sender:
                opts[("!party-key-mismatch", party, nt.name())] = pk
    return opts, len(res.complete_trees) != 0, res


def history_of(tree) -> list:
    return [(m.sender, m.recipient, m.msg.symbol.name()) for m in tree.protocol_msgs()]


def mount(mp, m: Msg, content: Any):
    """mount a message at a forecast mounting path the way `_generate_io` does (on a copy)"""
    t = copy.deepcopy(mp.tree)
    t.append(mp.path[1:-1], msg_tree(m, content))
    return t


def canon_tree(t) -> str:
    return json.dumps(tree_to_json(t), separators=(",", ":"))


def canon_rules(gj: dict) -> list:
    """rules as a sorted list of canonical strings (ids kept)"""
    return sorted(json.dumps(r, separators=(",", ":")) for r in gj["rules"])


def real_slice(spec: str, keep: list[str], ignore_receivers: bool):
    """a fresh grammar object (Grammar is not deep-copyable: it holds the spec's module environment),
    sliced in place by the real `slice_parties`"""
    from fandango.language.parse.slice_parties import slice_parties
    from harness.impl.grammar_io import parse_spec
    g, _ = parse_spec(spec)
    slice_parties(g, set(keep), ignore_receivers=ignore_receivers)
    return g


def content_of(grammar, type_name: str) -> Any:
    """a word of the message's content rule (generated specs use one literal per type)"""
    from fandango.language.symbols import NonTerminal
    from fandango.language.grammar.nodes.terminal import TerminalNode
    node = grammar.rules[NonTerminal(type_name)]
    if isinstance(node, TerminalNode):
        return node.symbol.value()._value
    raise ValueError(f"content rule of {type_name} is not a single literal")


def _ask_parser(grammar, tree, mode):
    from fandango.io.navigation.stategrammarconverter import StateGrammarConverter
    from fandango.language.grammar.parser.iterative_parser import IterativeParser
    from fandango.language.symbols import NonTerminal
    reduced = StateGrammarConverter(grammar.grammar_settings).process(grammar.rules)
    word = "".join(m.msg.symbol.name() for m in tree.protocol_msgs())
    p = IterativeParser(reduced)
    p.new_parse(NonTerminal("<start>"), mode)
    return p.consume(word)


def parser_accepts(grammar, tree) -> bool:
    """the real IterativeParser asked directly: does it accept the history's word of message types in
    ParsingMode.COMPLETE under the reduced (message-level) grammar?  (what predict() relays as `is_complete`,
    without the forecasting code in between)"""
    from fandango.language.grammar import ParsingMode
    for _t, is_complete in _ask_parser(grammar, tree, ParsingMode.COMPLETE):
        if is_complete:
            return True
    return False


def parser_yields_partial_tree(grammar, tree) -> bool:
    """the real IterativeParser asked directly: does the prefix parse (ParsingMode.INCOMPLETE) of the history's
    word of message types yield any partial tree at all?  (predict() walks exactly these trees)"""
    from fandango.language.grammar import ParsingMode
    for _ in _ask_parser(grammar, tree, ParsingMode.INCOMPLETE):
        return True
    return False


class SpineError(Exception):
    """the partial tree does not fit the grammar the way ContinuingNodeVisitor reads it"""


def spine_of(tree, rules: dict) -> list:
    """right spine of a partial derivation tree with control-flow nodes (what the prefix parse hands to
    `PathFinder.forecast`), as a position of the model (lean/Model/Forecast.lean `Pos`, JSON):
    ["msg"] | ["nt",p] | ["alt",i,p] | ["cat",i,p] | ["rep",k,p] | ["rep0"].
    Mirrors how ContinuingNodeVisitor descends: the LAST child at every level, `len(children)` for the number of
    iterations, the first alternative that fits (by controlflow id / symbol; a message also by its parties).  `rules`: {name: IR node JSON} (grammar_to_json)."""

    def cf(node_id: str, trees: list):
        if len(trees) != 1:
            raise SpineError("controlflow entry with %d trees" % len(trees))
        t = trees[0]
        if not t.symbol.is_non_terminal or t.symbol.name() != "<__" + node_id + ">":
            raise SpineError("controlflow symbol mismatch")
        return t.children

    def sp(node: list, trees: list) -> list:
        k = node[0]
        if k == "nt":
            if not trees:
                raise SpineError("nonterminal without a tree")
            t = trees[0]
            if not t.symbol.is_non_terminal:
                raise SpineError("terminal where a nonterminal is expected")
            name = t.symbol.name()
            if node[2] is not None:                       # a message
                if name != node[1] and name != "<_packet_" + node[1][1:]:
                    raise SpineError("message symbol mismatch")
                if t.sender is not None and (t.sender != node[2] or t.recipient != node[3]):
                    # alternatives that are bare messages of one type (`<A:B:m> | <A:C:m>`) are told apart by the
                    # parties the tree node carries (the visitor takes the first; what follows is the same)
                    raise SpineError("message parties mismatch")
                return ["msg"]
            if name != node[1]:
                raise SpineError("symbol mismatch")
            if node[1] not in rules:
                raise SpineError("no rule")
            return ["nt", sp(rules[node[1]], list(t.children))]
        if k == "cat":
            kids = cf(node[1], trees)
            if not kids or len(kids) > len(node[2]):
                raise SpineError("concatenation with %d children" % len(kids))
            i = len(kids) - 1
            return ["cat", i, sp(node[2][i], [kids[i]])]
        if k == "alt":
            kids = cf(node[1], trees)
            if not kids:
                raise SpineError("alternative without a child")
            for i, alt in enumerate(node[2]):
                try:
                    return ["alt", i, sp(alt, [kids[0]])]
                except SpineError:
                    continue
            raise SpineError("alternative mismatch")
        if k == "rep":
            kids = cf(node[1], trees)
            if not kids:
                return ["rep0"]
            return ["rep", len(kids) - 1, sp(node[3], [kids[-1]])]
        raise SpineError("terminal node at message level")

    if not tree.children:
        raise SpineError("start without children")
    if "<start>" not in rules:
        raise SpineError("no start rule")
    return ["nt", sp(rules["<start>"], [tree.children[0]])]


def options_of(res) -> list:
    """the (sender, recipient, type) options of one ForecastingResult"""
    return sorted({(pk.node.sender, pk.node.recipient, nt.name())
                   for fnt in res.parties_to_packets.values() for nt, pk in fnt.nt_to_packet.items()},
                  key=lambda x: (x[0], x[1] or "", x[2]))
