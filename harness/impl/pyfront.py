"""Adapter to the REAL spec front end for C08 / C14 (everything goes through /repo/src).

* `parse_tree(text, parser)`            the ANTLR parse tree via fandango.language.parse.parse_tree
                                        (parser = 'python' | 'cpp' | 'legacy')
* `generic(ctx)`                        that tree as generic JSON for lean/Driver/PyExpr.lean
* `first_ctx(tree, RuleContextClass)`   navigation
* `rebuilt_expression(ctx)`             what the real SearchProcessor builds for an expression ctx
* `ast_json(node)`                      canonical JSON of an `ast` expression (driver's Ast format)
* `front_end(text, parser, run_code)`   the production path: parse_content -> FandangoSpec
                                        (code_text, grammar, constraints), optionally without exec
"""
from __future__ import annotations

import ast
import contextlib
from typing import Any, Iterator, Optional

from harness.common import use_repo

use_repo()

import fandango  # noqa: E402
from antlr4.tree.Tree import TerminalNodeImpl  # noqa: E402
from fandango.language.grammar.grammar import Grammar  # noqa: E402
from fandango.language.parse import parse_tree as _pt_mod  # noqa: E402
from fandango.language.parse.convert import SearchProcessor  # noqa: E402
from fandango.language.parser.FandangoParser import FandangoParser  # noqa: E402

RULES = FandangoParser.ruleNames
SYMBOLIC = FandangoParser.symbolicNames


@contextlib.contextmanager
def parser_choice(name: str) -> Iterator[None]:
    """select the .fan front end the way the CLI / API does: fandango.Fandango.parser"""
    old = fandango.Fandango.parser
    fandango.Fandango.parser = name
    try:
        yield
    finally:
        fandango.Fandango.parser = old


def parse_tree(text: str, parser: str = "python", filename: str = "<verif>"):
    with parser_choice(parser):
        return _pt_mod.parse_tree(filename, text)


def tok_name(t: int) -> str:
    if t == -1:
        return "EOF"
    return SYMBOLIC[t] if 0 <= t < len(SYMBOLIC) else f"T{t}"


def literal_value(kind: str, text: str) -> Optional[list]:
    """the value CPython gives a NUMBER / STRING token (independent of Terminal.clean)"""
    try:
        v = ast.literal_eval(text)
    except Exception:  # noqa
        return ["other", "unreadable"]
    if kind == "NUMBER":
        if isinstance(v, bool) or not isinstance(v, int):
            return [type(v).__name__]
        return ["int", str(v)]
    if isinstance(v, str):
        try:
            return ["str", [ord(c) for c in v]]
        except Exception:  # noqa
            return ["other"]
    return [type(v).__name__]


def generic(ctx) -> list:
    if isinstance(ctx, TerminalNodeImpl):
        sym = ctx.symbol
        name = tok_name(sym.type)
        out = ["t", name, sym.text]
        if name in ("NUMBER", "STRING"):
            out.append(literal_value(name, sym.text))
        return out
    return ["r", RULES[ctx.getRuleIndex()], [generic(c) for c in (ctx.children or [])]]


def leaves(ctx) -> list[tuple[str, str]]:
    """(token type name, text) of the terminal nodes, left to right"""
    out = []
    stack = [ctx]
    while stack:
        n = stack.pop()
        if isinstance(n, TerminalNodeImpl):
            out.append((tok_name(n.symbol.type), n.symbol.text))
        else:
            stack.extend(reversed(n.children or []))
    return out


def first_ctx(tree, cls):
    stack = [tree]
    while stack:
        n = stack.pop()
        if isinstance(n, cls):
            return n
        if not isinstance(n, TerminalNodeImpl):
            stack.extend(reversed(n.children or []))
    return None


def all_ctx(tree, cls) -> list:
    out, stack = [], [tree]
    while stack:
        n = stack.pop()
        if isinstance(n, cls):
            out.append(n)
        if not isinstance(n, TerminalNodeImpl):
            stack.extend(reversed(n.children or []))
    return out


def rebuilt_expression(expr_ctx):
    """(ast, searches, search_map) exactly as GrammarProcessor / ConstraintProcessor obtain it"""
    return SearchProcessor(Grammar.dummy()).visit(expr_ctx)


# ------------------------------------------------------------------------------------------------
# ast -> canonical JSON (the driver's Ast)
# ------------------------------------------------------------------------------------------------

def ast_json(n: Any) -> Any:
    if n is None:
        return None
    t = type(n).__name__
    if isinstance(n, list):
        return ["pylist", [ast_json(x) for x in n]]
    if not isinstance(n, ast.AST):
        return ["notast", type(n).__name__]
    if t == "Name":
        return ["Name", n.id]
    if t == "Constant":
        v = n.value
        if v is None:
            return ["Const", "None"]
        if v is Ellipsis:
            return ["Const", "Ellipsis"]
        if isinstance(v, bool):
            return ["Const", "bool", v]
        if isinstance(v, int):
            return ["Const", "int", str(v)]
        if isinstance(v, str):
            try:
                return ["Const", "str", [ord(c) for c in v]]
            except Exception:  # noqa
                return ["Const", "other"]
        return ["Const", type(v).__name__, repr(v)]
    if t == "BoolOp":
        return ["BoolOp", type(n.op).__name__, [ast_json(x) for x in n.values]]
    if t == "UnaryOp":
        return ["UnaryOp", type(n.op).__name__, ast_json(n.operand)]
    if t == "BinOp":
        return ["BinOp", ast_json(n.left), type(n.op).__name__, ast_json(n.right)]
    if t == "Compare":
        return ["Compare", ast_json(n.left), [type(o).__name__ for o in n.ops], [ast_json(x) for x in n.comparators]]
    if t == "IfExp":
        return ["IfExp", ast_json(n.test), ast_json(n.body), ast_json(n.orelse)]
    if t == "Await":
        return ["Await", ast_json(n.value)]
    if t == "Attribute":
        return ["Attribute", ast_json(n.value), n.attr]
    if t == "Call":
        return ["Call", ast_json(n.func), [ast_json(x) for x in n.args], [ast_json(k) for k in n.keywords]]
    if t == "keyword":
        return ["keyword", n.arg, ast_json(n.value)]
    if t == "Starred":
        return ["Starred", ast_json(n.value)]
    if t == "Subscript":
        return ["Subscript", ast_json(n.value), ast_json(n.slice)]
    if t == "Slice":
        return ["Slice", ast_json(n.lower), ast_json(n.upper), ast_json(n.step)]
    if t == "Tuple":
        return ["Tuple", [ast_json(x) for x in n.elts]]
    if t == "List":
        return ["List", [ast_json(x) for x in n.elts]]
    return ["other", t, ast.dump(n)]


# ------------------------------------------------------------------------------------------------
# the production path
# ------------------------------------------------------------------------------------------------

@contextlib.contextmanager
def no_exec() -> Iterator[None]:
    """FandangoSpec.run_code disabled: translation validation of generated programs must not execute
    them (the text that WOULD be exec'd is still `code_text`)"""
    from fandango.language.parse.spec import FandangoSpec
    old = FandangoSpec.run_code
    FandangoSpec.run_code = lambda self, filename="<input_>": None  # type: ignore
    try:
        yield
    finally:
        FandangoSpec.run_code = old  # type: ignore


def cached_spec(text: str, parser: str = "python", filename: str = "<verif>"):
    """CachedFandangoSpec (code_text + split contexts) without running anything"""
    from fandango.language.parse.spec import CachedFandangoSpec
    tree = parse_tree(text, parser, filename)
    return CachedFandangoSpec(tree, text, filename=filename, used_symbols=set())


def front_end(text: str, parser: str = "python", run_code: bool = False, filename: str = "<verif>"):
    """parse_content: the spec object with .code_text, .grammar, .constraints"""
    from fandango.language.parse.parse_spec import parse_content
    with parser_choice(parser):
        if run_code:
            return parse_content(text, filename=filename, use_cache=False, used_symbols=set())
        with no_exec():
            return parse_content(text, filename=filename, use_cache=False, used_symbols=set())
