"""C01 — every generated tree is a derivation of the spec's grammar.

1. obligations: Props/C01.lean (lake build, axiom audit)
2. correspondence, model (drv_fuzz) vs real code:
   (a) tape replay of every `Grammar.fuzz` call (plain, and the ones made inside evolution runs: initial
       population, refill, mutation with a prefix node): the draws of the real run, typed, are replayed
       through `expand`; the trees must be equal;
   (b) operators on generated (grammar, tree, path, replacement) cases, results compared exactly:
       `replace_multiple` (structure, read-only flags, origin tags), `_delete_repetitions`,
       `_insert_repetitions` (structure), `split_end`, `prefix`, parser `collapse`;
   (c) `Grammar.prime()`: the distance_to_completion of EVERY node (inf included) after every real prime() call —
       from the constructor state, from the primed state again, from mixed states, and on grammars with
       unproductive symbols where the real loop is found beyond the iteration bound the model proves sufficient
       exactly when the model never returns; `primedB` on every grammar used for tape replay;
   (d) termination: every recorded `Grammar.fuzz` call on a generator-free grammar is replayed with the recursion
       bound `G.fuelFor tape` of C01_expand_terminates_partial and must come back `ok` with the same tree; the
       witness of C01_expand_no_budget_bound is run on the real code with scripted draws;
   (e) evolution-level operators: every `SimpleSubtreeCrossover.crossover`, `SimpleMutation.mutate`,
       `PopulationManager.fix_individual` call (inside evolution runs and direct calls on fuzzed trees) is replayed
       on `crossover` / `mutate` / `fixIndividual` of Model/Evo.lean with the recorded draws: results, the
       arguments of the inner `fuzz` call, number of fixes; and the inputs must be left unchanged;
3. the property itself: EVERY tree the real code hands out or keeps in a population — plain fuzzing, evolution
   (every individual that reaches `Evaluator.evaluate_individual`, every emitted solution), generators,
   operator results built from derivations — is judged by the verified checker `validFast`
   (`C01_checker_decides_valid`: = `Valid`); regexes through the CPython `re.fullmatch` oracle.  A tree is
   serialised at the moment it is handed over (`Snaps`, `FuzzCall.tree_json`): what the code does to the object
   afterwards only counts if the object is handed over again.
"""
from __future__ import annotations

import contextlib
import io
import itertools
import json
import random
import re
import signal
import time
from pathlib import Path
from typing import Any, Optional

from harness.common import REPO, MachineryError, Run, driver_ask, lean_check, use_repo
from harness.gen import specgen
from harness.impl import fuzz_io as fio
from harness.impl import grammar_io as gio
from harness.impl.grammar_io import NotModelled

PID = "C01"

TRUSTED = [
    "Lean 4.33.0 kernel; axioms ⊆ {propext, Classical.choice, Quot.sound} (audited per run)",
    "hand-written models lean/Model/IR.lean (Matches/Valid), Model/IRFast.lean (checker), Model/Fuzz.lean "
    "(Node.fuzz, replace_multiple, _delete_repetitions, split_end/prefix, collapse); tied by this run's tape "
    "replay and operator correspondence (generator-bounded)",
    "harness adapters harness/impl/grammar_io.py, fuzz_io.py (grammar/tree -> JSON, draw recording)",
    "CPython re.fullmatch as the regex oracle; exrex as the producer of regex instances",
    "Grammar.prime(): modelled (Model/Prime.lean) and compared node by node with the real objects (inf included); "
    "the distances budgeted expansion replays with are still the real ones, and `primedB` (= they are what the "
    "model's prime() computes) is evaluated on every grammar",
    "hand-written Model/Evo.lean (crossover, mutate, fix_individual and the suggestion classes); tied by operator-level "
    "tape replay of every such call in the evolution runs and of direct calls on fuzzed trees",
    "Grammar.generate (generator value parsed under the symbol): its tree is taken from the run and judged by "
    "the checker, parser soundness itself is C04",
    "computed repetition bounds ({expr}) are constraints (C02): the checker uses the static part of the "
    "declared bounds (lower bound 0 where the lower bound is an expression)",
    "gmutator settings (all 0.0 by default) are out of scope: they deliberately leave the grammar",
]


class Timeout(Exception):
    pass


def _alarm(_sig, _frm):
    raise Timeout()


class limit:
    """wall-clock bound for one call into the real code (fuzz() / prime() / parse() can loop forever)"""

    def __init__(self, seconds: int):
        self.seconds = seconds

    def __enter__(self):
        signal.signal(signal.SIGALRM, _alarm)
        signal.alarm(self.seconds)

    def __exit__(self, *a):
        signal.alarm(0)
        return False


# ------------------------------------------------------------------------------------------------
# state shared by the stages
# ------------------------------------------------------------------------------------------------

class Ctx:
    def __init__(self, run: Run):
        self.run = run
        self.valid_q: list[tuple[dict, dict]] = []     # (request, meta)
        self.expand_q: list[tuple[dict, dict]] = []
        self.op_q: list = []
        self.bound_q: list[tuple[dict, dict]] = []      # expand_bound requests (fuzzStartF with the proved bound)
        self.primed_q: dict[int, dict] = {}             # grammar key -> {"req":…, "fresh": bool, "spec":…}
        self.corr_cases = 0
        self.corr_fail: list[dict] = []

    # ---- property observation
    def queue_valid(self, gj, regexes, trees_json: list, meta: dict, atrees: Optional[list] = None) -> None:
        """`atrees`: the same trees with origin tags / read-only flags (only used to classify a failure)"""
        if not trees_json:
            return
        reqs = fio.valid_fast_requests(gj, regexes, trees_json)
        for i, (q, tj) in enumerate(zip(reqs, trees_json)):
            m = dict(meta)
            m["tree"] = tj
            if atrees is not None:
                m["atree"] = atrees[i]
            self.valid_q.append((q, m))
        if len(self.valid_q) >= 1500:
            self.flush_valid()

    def flush_valid(self) -> None:
        if not self.valid_q:
            return
        answers = driver_ask("drv_fuzz", [q for q, _ in self.valid_q], timeout=900)
        for (q, m), a in zip(self.valid_q, answers):
            origin = m["origin"]
            self.run.count("trees:" + origin)
            size = _size(m["tree"])
            self.run.count("tree_size:" + ("1-5" if size <= 5 else "6-20" if size <= 20 else "21-60" if size <= 60 else "61+"))
            self.run.case(m["tree"], size > 3, None)
            if not a["valid"]:
                cls = classify_invalid(m.get("atree"), a["bad"])
                sig = f"C01/{cls}" if cls else f"C01/invalid-tree:{origin}"
                bad_node = _sub(m["tree"], a["bad"])
                self.run.count("invalid:" + (cls or origin))
                self.run.report(
                    sig,
                    f"{origin}: the tree for {_word(m['tree'])[:80]!r} is not a derivation of the grammar: the children "
                    f"{_kids(bad_node)[:200]} of the {bad_node[1] if bad_node and bad_node[0] == 'n' else '?'} node at "
                    f"path {a['bad']} spell out no expansion of its rule" + (f" [{cls}]" if cls else ""),
                    {"kind": "tree", "origin": origin, "spec": m.get("spec"), "settings": m.get("settings"),
                     "tree": m["tree"], "atree": m.get("atree"), "bad": a["bad"], "class": cls,
                     "relaxed_ids": m.get("relaxed", [])})
        self.valid_q.clear()

    # ---- tape replay
    def queue_expand(self, req: dict, want: Optional[list], meta: dict) -> None:
        m = dict(meta)
        m["want"] = want
        self.expand_q.append((req, m))
        if len(self.expand_q) >= 800:
            self.flush_expand()

    def flush_expand(self) -> None:
        if not self.expand_q:
            return
        answers = driver_ask("drv_fuzz", [q for q, _ in self.expand_q], timeout=900)
        for (q, m), a in zip(self.expand_q, answers):
            self.corr_cases += 1
            self.run.count("replay:" + m["origin"])
            self.run.count("tape_len:" + ("0" if not q["tape"] else "1-5" if len(q["tape"]) <= 5 else "6-30" if len(q["tape"]) <= 30 else "31+"))
            if a["tree"] != m["want"] or a["rest"] != 0:
                self.corr_fail.append({"case": "expand", "origin": m["origin"], "spec": m.get("spec"),
                                       "start": q["start"], "budget": q["budget"], "path": q["path"], "tape": q["tape"],
                                       "impl": m["want"], "model": a["tree"], "rest": a["rest"]})
        self.expand_q.clear()

    # ---- termination: replay with the recursion bound of C01_expand_terminates_partial
    def queue_bound(self, gkey: int, fg: dict, fresh: bool, req: dict, want: Optional[list], meta: dict) -> None:
        if gkey not in self.primed_q:
            self.primed_q[gkey] = {"req": {"op": "primed", "grammar": fg}, "fresh": fresh, "spec": meta.get("spec")}
        m = dict(meta)
        m["want"], m["gkey"] = want, gkey
        self.bound_q.append((req, m))
        if len(self.bound_q) >= 800:
            self.flush_bound()

    def flush_bound(self) -> None:
        if not self.bound_q:
            return
        keys = list(self.primed_q)
        primed = dict(zip(keys, (a["primed"] for a in driver_ask("drv_fuzz", [self.primed_q[k]["req"] for k in keys],
                                                                timeout=900))))
        for k in keys:
            info = self.primed_q[k]
            if "done" in info:
                continue
            info["done"] = True
            # a grammar that went through the front end once carries exactly what the model's prime() computes
            if info["fresh"]:
                self.corr("primed", primed[k], {"spec": info["spec"], "what": "primedB false on a freshly parsed grammar"})
            else:
                self.run.count("primed:" + str(primed[k]).lower() + ":not_fresh")
        answers = driver_ask("drv_fuzz", [q for q, _ in self.bound_q], timeout=900)
        for (q, m), a in zip(self.bound_q, answers):
            if not primed[m["gkey"]]:
                self.run.count("bound_replay:unprimed_grammar")
                continue
            self.corr_cases += 1
            self.run.count("bound_replay:" + a["status"])
            self.run.count("bound_fuel:" + ("<=100" if a["fuel"] <= 100 else "<=1000" if a["fuel"] <= 1000 else ">1000"))
            if a["status"] != "ok" or a["tree"] != m["want"] or a["rest"] != 0:
                self.corr_fail.append({"case": "expand_bound", "origin": m["origin"], "spec": m.get("spec"),
                                       "start": q["start"], "budget": q["budget"], "path": q["path"], "tape": q["tape"],
                                       "impl": m["want"], "model": a["tree"], "status": a["status"], "fuel": a["fuel"]})
        self.bound_q.clear()

    def ask_later(self, req: dict, handler) -> None:
        self.op_q.append((req, handler))
        if len(self.op_q) >= 400:
            self.flush_ops()

    def flush_ops(self) -> None:
        if not self.op_q:
            return
        answers = driver_ask("drv_fuzz", [q for q, _ in self.op_q], timeout=900)
        for (_q, h), a in zip(self.op_q, answers):
            h(a)
        self.op_q.clear()

    def corr(self, case: str, ok: bool, detail: dict) -> None:
        self.corr_cases += 1
        self.run.count("op:" + case)
        if not ok:
            d = dict(detail)
            d["case"] = case
            self.corr_fail.append(d)


def _sub(tj: list, path) -> Optional[list]:
    cur = tj
    for i in path or []:
        if cur[0] != "n" or i >= len(cur[4]):
            return None
        cur = cur[4][i]
    return cur


def _kids(tj) -> str:
    if not tj or tj[0] != "n":
        return "?"
    return "[" + " ".join(k[1] if k[0] == "n" else _show(k) for k in tj[4]) + "]"


def _word(tj: list) -> str:
    if tj[0] == "n":
        return "".join(_word(k) for k in tj[4])
    if tj[0] == "t":
        return "".join(chr(c) for c in tj[1])
    if tj[0] == "b":
        return bytes(tj[1]).decode("latin-1")
    return str(tj[1])


def classify_invalid(atree: Optional[list], bad) -> Optional[str]:
    """narrow class of a failure, from the bookkeeping at the offending node.
    `repetition-insert-splits-iteration`: among the node's children, the repetition indices of one repetition
    execution (id, iteration) do not come in order — new iterations were spliced into an existing one."""
    if atree is None or bad is None:
        return None
    cur = atree
    for i in bad:
        if cur[0] != "n" or i >= len(cur[6]):
            return None
        cur = cur[6][i]
    if cur[0] != "n":
        return None
    seqs: dict[tuple, list[int]] = {}
    for k in cur[6]:
        tags = k[5]
        for rid, it, rep in tags:
            seqs.setdefault((rid, it), []).append(rep)
    for seq in seqs.values():
        if any(a > b for a, b in zip(seq, seq[1:])):
            return "repetition-insert-splits-iteration"
    return None


def _size(tj: list) -> int:
    if tj[0] == "n":
        return 1 + sum(_size(k) for k in tj[4])
    return 1


def _show(tj: list) -> str:
    if tj[0] == "n":
        return tj[1] + "(" + " ".join(_show(k) for k in tj[4]) + ")"
    if tj[0] == "t":
        return repr("".join(chr(c) for c in tj[1]))
    if tj[0] == "b":
        return repr(bytes(tj[1]))
    return str(tj[1])


def all_nodes(tree) -> list:
    out = [tree]
    for c in tree.children:
        out.extend(all_nodes(c))
    return out


# ------------------------------------------------------------------------------------------------
# stage A: plain Grammar.fuzz — validity + tape replay
# ------------------------------------------------------------------------------------------------

def parse_generated(run: Run, rng, preset: str, feats=None):
    info = specgen.gen_spec_info(rng, feats or specgen.feature_presets()[preset])
    try:
        with limit(4):       # check_grammar_types is exponential on some generated specs
            grammar, constraints = gio.parse_spec(info.text)
    except Timeout:
        run.count("spec_timeout")
        return None
    except Exception as e:  # noqa
        run.count("spec_rejected:" + type(e).__name__)
        return None
    for f in info.features_used:
        run.count("feature:" + f)
    return info, grammar, constraints


def record_calls(ctx: Ctx, rec: fio.Recorder, spec: str, origin: str, fg_cache: dict, fresh: bool = True) -> None:
    """queue tape replays for the Grammar.fuzz calls a Recorder saw; `fresh`: the grammar went through the front
    end exactly once (one prime() on freshly constructed nodes)"""
    for call in rec.calls:
        if call.tree is None:
            ctx.run.count("fuzz_raised:" + str(call.error))
            continue
        key = id(call.grammar)
        if key not in fg_cache:
            try:
                fg_cache[key] = fio.fgrammar_json(call.grammar, regexes=rec.table_for(call.grammar))[0]
            except NotModelled as e:
                fg_cache[key] = None
                ctx.run.count("not_modelled:" + str(e)[:40])
        fg = fg_cache[key]
        if fg is None:
            continue
        if call.not_modelled is not None or call.tree_json is None:
            ctx.run.count("not_modelled:" + str(call.not_modelled)[:40])
            continue
        want = call.tree_json       # the tree as Grammar.fuzz returned it
        try:
            req = fio.expand_request(call, fg)
            ctx.queue_expand(req, want, {"origin": origin, "spec": spec})
            if not fg["gens"]:
                breq = {k: v for k, v in req.items() if k != "fuel"}
                breq["op"] = "expand_bound"
                ctx.queue_bound(key, breq["grammar"], fresh, breq, want, {"origin": origin, "spec": spec})
        except NotModelled as e:
            ctx.run.count("not_modelled:" + str(e)[:40])
    rec.calls.clear()


def stage_fuzz(ctx: Ctx, rng, n_grammars: int, per_grammar: int) -> None:
    run = ctx.run
    presets = list(specgen.feature_presets())
    for gi in range(n_grammars):
        preset = presets[gi % len(presets)]
        got = parse_generated(run, rng, preset)
        if got is None:
            continue
        info, grammar, constraints = got
        run.count("grammar:" + preset)
        try:
            gj, regexes, relaxed = fio.static_ir(grammar, constraints)
        except NotModelled as e:
            run.count("not_modelled:" + str(e)[:40])
            continue
        trees, fg_cache = [], {}
        with fio.Recorder() as rec:
            for k in range(per_grammar):
                budget = rng.choice([0, 1, 2, 3, 5, 8, 12, 20, 35, 50, 100, -3])
                start = "<start>" if rng.random() < 0.8 else rng.choice(info.nonterminals)
                random.seed(rng.getrandbits(32))
                try:
                    with limit(5):
                        trees.append(grammar.fuzz(start, budget))
                    run.count("budget:" + ("<=3" if budget <= 3 else "4-20" if budget <= 20 else ">20"))
                except Timeout:
                    run.count("fuzz_timeout")
                except RecursionError:
                    run.count("fuzz_recursion_error")
                except Exception as e:  # noqa
                    run.count("fuzz_raised:" + type(e).__name__)
            record_calls(ctx, rec, info.text, "fuzz" + (":generator" if info.generators else ""), fg_cache)
        try:
            tjs = [gio.tree_to_json(t) for t in trees]
        except NotModelled as e:
            run.count("not_modelled:" + str(e)[:40])
            continue
        ctx.queue_valid(gj, regexes, tjs, {"origin": "fuzz" + (":generator" if info.generators else ""),
                                           "spec": info.text, "relaxed": sorted(relaxed)})
    ctx.flush_expand()
    ctx.flush_bound()
    ctx.flush_valid()


# ------------------------------------------------------------------------------------------------
# stage P: Grammar.prime() — every node's distance_to_completion, model vs real, exact (inf included)
# ------------------------------------------------------------------------------------------------

PRIME_SPECS = [
    # (spec, note)
    '<start> ::= <a>\n<a> ::= <b>*\n<b> ::= <a> "x"\n',                     # C01_prime_not_fixpoint (Star's 0.0 is read)
    '<a> ::= "x" "y" "z"\n<start> ::= <a> | <b>\n<b> ::= <c>\n<c> ::= "q"\n',   # Alternative fixed before its best branch
    '<start> ::= <a>\n<a> ::= <a>*\n',                                       # completable only through the initial 0.0
    '<start> ::= <a>\n<a> ::= ("(" <a> ")")*\n',
    '<start> ::= <x>{3} <y>? (<x> | "k"){0,2}\n<x> ::= <x> "1" | "0"\n<y> ::= <y>? "y"\n',
    '<start> ::= ((<a>+){2}){1,} b"\\x00"\n<a> ::= 0 1 1 0 | b"\\xff"{0,2}\n',
    '<start> ::= (<p> | "a") | <q>?\n<p> ::= <q>* "p"\n<q> ::= "q" <p>\n',
]

# grammars with a node that can never be completed: the real prime() does not return
PRIME_HANG_SPECS = [
    '<start> ::= "a" <b>*\n<b> ::= <b> "x"\n',                                # C01_prime_hangs_on_unproductive_symbol
    '<start> ::= "a" | <b>\n<b> ::= <b> "x"\n',
    '<start> ::= "a"\n<b> ::= <b> "x"\n',
    '<start> ::= "a" <b>{0,2}\n<b> ::= "(" <b> ")"\n',
    '<start> ::= <b>? "a"\n<b> ::= <c>\n<c> ::= <b> | <c> "z"\n',
]

HANG_WRAPPERS = ['<start> ::= <gstart> <zz>*\n', '<start> ::= <gstart> | <zz>\n', '<start> ::= <zz>? <gstart>\n',
                 '<start> ::= <gstart>\n']


def _prime_cases(ctx: Ctx, calls: list, spec: str, kind: str, hung: bool) -> None:
    """compare every recorded prime() call with the model, from the recorded state (and from the model's own
    constructor state when the recorded one is the constructors')"""
    run = ctx.run
    for call in calls:
        if call.not_modelled is not None:
            run.count("not_modelled:" + call.not_modelled[:40])
            continue
        n_nodes = sum(len(r) for r in call.before)
        if call.after is not None:
            want_status = "done"
        elif call.error in (None, "Timeout", "PrimeHang"):
            want_status = "fuel" if (hung or call.error == "PrimeHang") else None
        else:
            want_status = "raised"
        if want_status is None:
            continue
        fresh = call.before == call.fresh
        label = kind + (":fresh" if fresh else ":stale")
        before, after, ir = call.before, call.after, call.ir

        def check(a, label=label, before=before, after=after, ir=ir, want_status=want_status, from_model_init=False):
            ok = a["status"] == want_status and (after is None or a["dist"] == after)
            ctx.corr("prime:" + label + (":model_init" if from_model_init else ""), ok,
                     {"spec": spec, "before": before, "impl": after, "impl_status": want_status,
                      "model": a["dist"], "model_status": a["status"], "bound": a["bound"]})
        ctx.ask_later({"op": "prime", "grammar": ir, "init": before}, check)
        if fresh:
            ctx.ask_later({"op": "prime", "grammar": ir, "init": None},
                          lambda a, check=check: check(a, from_model_init=True))
        if call.after is not None and call.bound is not None:
            # the real loop returned: within the iteration bound the model proves sufficient
            ctx.corr("prime:iterations_within_bound", call.iterations <= call.bound,
                     {"spec": spec, "iterations": call.iterations, "bound": call.bound})
        run.count("prime_nodes:" + ("1-5" if n_nodes <= 5 else "6-20" if n_nodes <= 20 else "21-60" if n_nodes <= 60 else "61+"))
        if after is not None:
            flat = [d for row in after for d in row]
            run.count("prime_result:" + ("has_inf" if None in flat else "all_finite"))


def prime_shipped(ctx: Ctx, rng, n_files: int) -> None:
    """the shipped .fan grammars: every prime() call made while the spec is loaded (stdlib included: several calls,
    not all from the constructor state) against the model from the recorded state"""
    from fandango.language.parse.parse import parse
    import fandango.language.grammar.nodes as nodes
    run = ctx.run
    files = [p for p in shipped_specs()]
    rng.shuffle(files)
    done = 0
    for p in files:
        if done >= n_files:
            break
        try:
            text = p.read_text()
        except Exception:  # noqa
            continue
        if SKIP_PAT.search(text):
            continue
        cap0 = nodes.MAX_REPETITIONS
        hung = False
        with fio.PrimeRecorder() as rec:
            try:
                with limit(15):
                    parse(text, use_cache=False, use_stdlib=True, includes=[str(p.parent)])
            except fio.PrimeHang:
                hung = True
                run.count("prime:shipped_real_loop_exceeded_bound")
            except Timeout:
                run.count("prime:shipped_parse_timeout")
            except BaseException as e:  # noqa  (spec code may call sys.exit)
                run.count("prime:shipped_parse_failed:" + type(e).__name__)
            finally:
                nodes.MAX_REPETITIONS = cap0
        if rec.calls:
            done += 1
            run.count("prime:shipped_file")
        _prime_cases(ctx, rec.calls, str(p.relative_to(REPO)), "shipped", hung)
    ctx.flush_ops()


def stage_prime(ctx: Ctx, rng, n_grammars: int) -> None:
    from fandango.language.grammar.nodes.terminal import TerminalNode
    run = ctx.run
    presets = list(specgen.feature_presets())
    specs: list[tuple[str, str]] = [(s, "corpus") for s in PRIME_SPECS] + [(s, "hang") for s in PRIME_HANG_SPECS]
    for gi in range(n_grammars):
        info = specgen.gen_spec_info(rng, specgen.feature_presets()[presets[gi % len(presets)]])
        if info.generators:
            continue
        if gi % 6 == 5:
            w = HANG_WRAPPERS[(gi // 6) % len(HANG_WRAPPERS)]
            text = w + info.text.replace("<start>", "<gstart>") + rng.choice(
                ['<zz> ::= <zz> "q"\n', '<zz> ::= "(" <zz> ")" | <zz> <zz>\n', '<zz> ::= <zy>\n<zy> ::= "k" <zz>\n'])
            specs.append((text, "hang"))
        else:
            specs.append((info.text, "generated"))
    for spec, kind in specs:
        hung = False
        grammar = None
        with fio.PrimeRecorder() as rec:
            try:
                with limit(4):
                    grammar, _c = gio.parse_spec(spec)
            except fio.PrimeHang:
                hung = True
                run.count("prime:real_loop_exceeded_bound")
            except Timeout:
                # where was it?  only a prime() call that did not come back counts as a hang of prime()
                hung = bool(rec.calls) and rec.calls[-1].after is None and rec.calls[-1].error in (None, "Timeout")
                run.count("prime:parse_timeout" + (":in_prime" if hung else ":elsewhere"))
            except Exception as e:  # noqa
                run.count("prime:spec_rejected:" + type(e).__name__)
        if kind == "hang" and not hung and grammar is not None:
            run.count("prime:hang_spec_returned")
        _prime_cases(ctx, rec.calls, spec, kind, hung)
        if grammar is None:
            continue
        # a second prime() on the primed objects, and one from a mixed state (some nodes back at their
        # constructor values): prime() starts from whatever the objects carry
        try:
            rows = fio.grammar_nodes(grammar)
            fresh = fio.fresh_snapshot(grammar)
        except NotModelled as e:
            run.count("not_modelled:" + str(e)[:40])
            continue
        for variant in ("again", "mixed"):
            if variant == "mixed":
                for row, frow in zip(rows, fresh):
                    for n, f in zip(row, frow):
                        if not isinstance(n, TerminalNode) and rng.random() < 0.5:
                            n.distance_to_completion = float("inf") if f is None else float(f)
            with fio.PrimeRecorder() as rec2:
                try:
                    with limit(4):
                        grammar.prime()
                    h2 = False
                except (Timeout, fio.PrimeHang):
                    h2 = True
                    run.count("prime:reprime_hang")
                except Exception as e:  # noqa
                    h2 = False
                    run.count("prime:reprime_raised:" + type(e).__name__)
            _prime_cases(ctx, rec2.calls, spec, variant, h2)
    ctx.flush_ops()


# ------------------------------------------------------------------------------------------------
# stage B: operators
# ------------------------------------------------------------------------------------------------

def fuzz_some(grammar, rng, n: int, start: str = "<start>") -> list:
    out = []
    for _ in range(n):
        random.seed(rng.getrandbits(32))
        try:
            with limit(5):
                out.append(grammar.fuzz(start, rng.choice([5, 10, 20, 40])))
        except (Timeout, RecursionError, Exception):  # noqa
            pass
    return out


def op_replace(ctx: Ctx, rng, info, grammar, gj, regexes, trees: list) -> None:
    """real replace_multiple vs replM, exactly; result must be a derivation when all inputs are"""
    run = ctx.run
    if len(trees) < 2:
        return
    t1 = rng.choice(trees).deepcopy()
    t2 = rng.choice(trees)
    nodes1 = all_nodes(t1)
    nodes2 = all_nodes(t2)
    # read-only marks on a few subtrees of the individual
    for _ in range(rng.choice([0, 0, 1, 2])):
        rng.choice(nodes1).set_all_read_only(True)
    if rng.random() < 0.15:
        rng.choice(nodes1).read_only = True
    k = rng.choice([1, 1, 1, 2, 3])
    pairs, kinds = [], set()
    for _ in range(k):
        target = rng.choice(nodes1)
        same = [n for n in nodes2 + nodes1 if n.symbol == target.symbol]
        r = rng.random()
        if r < 0.75 and same:
            repl = rng.choice(same)
            kinds.add("same_symbol")
        else:
            repl = rng.choice(nodes2)
            kinds.add("same_symbol" if repl.symbol == target.symbol else "other_symbol")
        if target.read_only:
            kinds.add("read_only_target")
        pairs.append((target, repl))
    if rng.random() < 0.35:
        # a nested pair: a descendant of an already chosen target
        t0 = pairs[0][0]
        desc = all_nodes(t0)[1:]
        if desc:
            d = rng.choice(desc)
            same = [n for n in nodes2 if n.symbol == d.symbol]
            if same:
                pairs.append((d, rng.choice(same)))
                kinds.add("nested")
    try:
        before = fio.atree_json(t1)
        repl_json = [[fio.child_path(a), fio.atree_json(b)] for a, b in pairs]
    except NotModelled as e:
        run.count("not_modelled:" + str(e)[:40])
        return
    try:
        with limit(5):
            res = t1.replace_multiple(grammar, pairs)
        impl = fio.atree_json(res)
    except Exception as e:  # noqa
        run.count("replace_raised:" + type(e).__name__)
        return
    fuel = 50 + 4 * (_asize(before) + sum(_asize(r[1]) for r in repl_json))
    for kd in kinds:
        run.count("replace_kind:" + kd)
    ctx.ask_later({"op": "replace", "tree": before, "repl": repl_json, "cur": [], "fuel": fuel},
                  lambda a: ctx.corr("replace", a["tree"] == impl, {"spec": info.text, "tree": before, "repl": repl_json,
                                                                    "impl": impl, "model": a["tree"]}))
    if fio.atree_json(t1) != before:
        ctx.corr("replace_mutates_input", False, {"spec": info.text, "tree": before})
    # property: inputs are derivations, so the result must be one
    ctx.queue_valid(gj, regexes, [fio.atree_erase(impl)], {"origin": "operator:replace_multiple", "spec": info.text,
                                                          "settings": {"repl": repl_json, "tree": before}})


def _asize(aj: list) -> int:
    return 1 + (sum(_asize(k) for k in aj[6]) if aj[0] == "n" else 0)


def find_rep_node(grammar, rep_id: str):
    for rhs in grammar.rules.values():
        stack = [rhs]
        while stack:
            n = stack.pop()
            if getattr(n, "id", None) == rep_id and hasattr(n, "min"):
                return n
            stack.extend(n.children())
    return None


def op_repetitions(ctx: Ctx, rng, info, grammar, gj, regexes, trees: list) -> None:
    """_delete_repetitions (exact) and _insert_repetitions (structure) vs the model; whole iterations"""
    from fandango.constraints.repetition_bounds import RepetitionBoundsSuggestion
    run = ctx.run
    cands = []
    for t in trees:
        for n in all_nodes(t):
            if n.origin_repetitions and n.parent is not None:
                for tag in n.origin_repetitions:
                    cands.append((n, tag))
    if not cands:
        run.count("repetition_ops:no_tagged_node")
        return
    node, (rep_id, it, _r) = rng.choice(cands)
    # work on a private copy: _insert_repetitions empties and refills the parent in place, and a timeout or an
    # exception in the middle must not corrupt the trees the other operator cases use
    path0 = fio.child_path(node)
    if path0 is None:
        return
    node = node.get_root().deepcopy(copy_parent=False)
    for i in path0:
        node = node.children[i]
    parent = node.parent
    tagged = [c for c in parent.children if any(x[0] == rep_id and x[1] == it for x in c.origin_repetitions)]
    if not tagged:
        return
    reps_present = sorted({x[2] for c in tagged for x in c.origin_repetitions if x[0] == rep_id and x[1] == it})
    # the call site (RepetitionBoundsConstraint.fitness) takes `last_iteration` from find_by_origin, which only
    # reports nonterminal children: the last such child of the highest repetition index
    reported = [c for c in node.get_root().find_by_origin(rep_id)
                if c.parent is parent and any(x[0] == rep_id and x[1] == it for x in c.origin_repetitions)]
    if reported and rng.random() < 0.7:
        top = max(x[2] for c in reported for x in c.origin_repetitions if x[0] == rep_id and x[1] == it)
        last = [c for c in reported if any(x[0] == rep_id and x[1] == it and x[2] == top for x in c.origin_repetitions)][-1]
        run.count("repetition_ops:last_as_call_site")
    else:
        last = tagged[-1]
        run.count("repetition_ops:last_child")
    rep_node = find_rep_node(grammar, rep_id)
    if rep_node is None:
        run.count("repetition_ops:node_not_found")
        return
    sugg = RepetitionBoundsSuggestion(ending_rep_tree=last, starting_rep_value=last, ending_rep_value=last,
                                      bound_len=len(reps_present), goal_len=0, iter_id=it, repetition_id=rep_id,
                                      repetition_node=rep_node)
    # ---- delete
    nr = rng.randint(0, len(reps_present) + 1)
    try:
        before = fio.atree_json(parent)
        with limit(5):
            _t, copy_parent = sugg._delete_repetitions(nr_to_delete=nr, rep_iteration=it)
        impl = fio.atree_json(copy_parent)
    except NotModelled as e:
        run.count("not_modelled:" + str(e)[:40])
        return
    except Exception as e:  # noqa
        run.count("delete_raised:" + type(e).__name__)
        return
    impl_del = impl
    ctx.ask_later({"op": "delete", "tree": before, "id": rep_id, "iter": it, "nr": nr},
                  lambda a: ctx.corr("delete_repetitions", a["tree"] == impl_del,
                                     {"spec": info.text, "tree": before, "id": rep_id, "iter": it, "nr": nr,
                                      "impl": impl_del, "model": a["tree"]}))
    run.count("delete_nr:" + ("0" if nr == 0 else "some" if nr < len(reps_present) else "all+"))
    left = sorted({x[2] for c in copy_parent.children for x in c.origin_repetitions if x[0] == rep_id and x[1] == it})
    if len(left) >= int(rep_node.min) and _counts_reliable(rep_node):
        # the count stays within the static bounds, so the copy must still be a derivation of the parent's symbol
        ctx.queue_valid(gj, regexes, [fio.atree_erase(impl)],
                        {"origin": "operator:_delete_repetitions", "spec": info.text,
                         "settings": {"tree": before, "id": rep_id, "iter": it, "nr": nr}})
    # ---- insert
    nr_ins = rng.randint(1, 3)
    try:
        with fio.Recorder() as rec:
            random.seed(rng.getrandbits(32))
            with limit(5):
                _t, copy_parent = sugg._insert_repetitions(nr_to_insert=nr_ins, rep_iteration=it, grammar=grammar)
            tape = list(rec.loose_tape)
            table = rec.table_for(grammar)
        impl = fio.atree_erase(fio.atree_json(copy_parent))
        fg, _ = fio.fgrammar_json(grammar, regexes=table)
    except NotModelled as e:
        run.count("not_modelled:" + str(e)[:40])
        return
    except Timeout:
        run.count("insert_timeout")
        return
    except Exception as e:  # noqa
        run.count("insert_raised:" + type(e).__name__)
        return
    idx = next(i for i, c in enumerate(parent.children) if c is last)
    start_rep = 0
    for ref in last.origin_repetitions:
        if ref[0] == rep_id and ref[1] == it:
            start_rep = ref[2] + 1
    keys = fio._TermKeys()
    rep_json = fio.fnode_json(rep_node, table, keys)
    # NB terminal keys inside `rep_json` only matter relative to each other (Concatenation's `==`)
    path = [n.symbol.name() for n in parent.get_path()]
    impl_ins = impl

    def on_insert(a):
        ctx.corr("insert_repetitions", a["tree"] == impl_ins and a["rest"] == 0,
                 {"spec": info.text, "tree": before, "id": rep_id, "iter": it, "nr": nr_ins, "index": idx, "tape": tape,
                  "impl": impl_ins, "model": a["tree"]})

    ctx.ask_later({"op": "insert", "grammar": fg, "rep": rep_json, "path": path, "start_rep": start_rep,
                   "nr": nr_ins, "tape": tape, "fuel": 2000, "tree": before, "index": idx, "id": rep_id, "iter": it},
                  on_insert)
    mx = rep_node.internal_max
    last_rep = max(x[2] for x in last.origin_repetitions if x[0] == rep_id and x[1] == it)
    if _counts_reliable(rep_node) and (mx is None or len(reps_present) + nr_ins <= mx) \
            and last_rep == reps_present[-1] and reps_present == list(range(len(reps_present))):
        # appended after the last iteration, count within the static bounds: the copy must be a derivation
        ctx.queue_valid(gj, regexes, [impl], {"origin": "operator:_insert_repetitions", "spec": info.text,
                                              "settings": {"tree": before, "id": rep_id, "iter": it, "nr": nr_ins}},
                        [fio.atree_json(copy_parent)])


def _counts_reliable(rep_node) -> bool:
    """iterations can be counted from the tags only if no iteration can be empty"""
    return _never_empty(rep_node.node)


def _never_empty(node) -> bool:
    from fandango.language.grammar.nodes.alternative import Alternative
    from fandango.language.grammar.nodes.concatenation import Concatenation
    from fandango.language.grammar.nodes.repetition import Repetition
    if isinstance(node, Alternative):
        return all(_never_empty(n) for n in node.alternatives)
    if isinstance(node, Concatenation):
        return any(_never_empty(n) for n in node.nodes)
    if isinstance(node, Repetition):
        return node.min > 0 and _never_empty(node.node)
    return True


def op_split(ctx: Ctx, rng, info, trees: list) -> None:
    if not trees:
        return
    t = rng.choice(trees)
    node = rng.choice(all_nodes(t))
    try:
        before = fio.atree_json(t)
        path = fio.child_path(node)
        se = node.split_end()
        impl_se = fio.atree_json(se.get_root())
        if node.parent is not None:
            pf = node.prefix()
            impl_pf = fio.atree_json(pf.get_root())
        else:
            impl_pf = None
    except NotModelled as e:
        ctx.run.count("not_modelled:" + str(e)[:40])
        return
    reqs = [{"op": "split_end", "tree": before, "path": path}]
    if impl_pf is not None:
        reqs.append({"op": "prefix", "tree": before, "path": path})
    ctx.ask_later(reqs[0], lambda a: ctx.corr("split_end", a["tree"] == impl_se,
                                              {"spec": info.text, "tree": before, "path": path, "impl": impl_se,
                                               "model": a["tree"]}))
    if impl_pf is not None:
        ctx.ask_later(reqs[1], lambda a: ctx.corr("prefix", a["tree"] == impl_pf,
                                                  {"spec": info.text, "tree": before, "path": path, "impl": impl_pf,
                                                   "model": a["tree"]}))
    if fio.atree_json(t) != before:
        ctx.corr("split_end_mutates_input", False, {"spec": info.text, "tree": before})


def op_collapse(ctx: Ctx, rng, info, grammar, gj, regexes, trees: list) -> None:
    """parse a generated word with control-flow nodes kept, collapse; vs model and vs the checker"""
    run = ctx.run
    small = [t for t in trees if t.size() <= 25]
    if not small:
        return
    t = rng.choice(small)
    try:
        word = str(t) if info.mode == "text" else bytes(t)
    except Exception:  # noqa
        run.count("collapse:no_word")
        return
    try:
        with limit(2):
            cf = grammar.parse(word, "<start>", include_controlflow=True)
    except Timeout:
        run.count("collapse:parse_timeout")
        return
    except Exception as e:  # noqa
        run.count("collapse:parse_raised:" + type(e).__name__)
        return
    if cf is None:
        run.count("collapse:unparsed")
        return
    try:
        cfj = gio.tree_to_json(cf)
        impl = gio.tree_to_json(grammar.collapse(cf))
    except NotModelled as e:
        run.count("not_modelled:" + str(e)[:40])
        return
    ctx.ask_later({"op": "collapse", "tree": cfj},
                  lambda a: ctx.corr("collapse", a["trees"] == [impl],
                                     {"spec": info.text, "tree": cfj, "impl": impl, "model": a["trees"]}))
    run.count("collapse:controlflow_nodes" if json.dumps(cfj).count('"<__') else "collapse:flat")
    ctx.queue_valid(gj, regexes, [impl], {"origin": "operator:collapse(parse)", "spec": info.text,
                                          "settings": {"word": repr(word)}})


def _drive(gen):
    """run a generator to its return value"""
    try:
        while True:
            next(gen)
    except StopIteration as e:
        return e.value


def op_evo(ctx: Ctx, rng, info, grammar, gj, regexes, trees: list, rounds: int) -> None:
    """direct calls of SimpleSubtreeCrossover.crossover / SimpleMutation.mutate / PopulationManager.fix_individual on
    fuzzed trees (read-only marks, synthetic failing trees and repetition suggestions), recorded and replayed on
    Model/Evo.lean by record_evo; results of crossover / mutate are judged by the verified checker"""
    from fandango.constraints.failing_tree import (ApplyAllSuggestions, ApplyFirstSuggestion, FailingTree,
                                                   NopSuggestion)
    from fandango.constraints.repetition_bounds import RepetitionBoundsSuggestion
    from fandango.evolution.crossover import SimpleSubtreeCrossover
    from fandango.evolution.mutation import SimpleMutation
    from fandango.evolution.population import PopulationManager
    run = ctx.run
    if grammar.generators or not trees:
        return
    outs: list = []
    with fio.Recorder(evo=True) as rec:
        for _ in range(rounds):
            # ---- crossover
            t1, t2 = rng.choice(trees).deepcopy(copy_parent=False), rng.choice(trees).deepcopy(copy_parent=False)
            for t in (t1, t2):
                if rng.random() < 0.3:
                    rng.choice(all_nodes(t)).set_all_read_only(True)
            random.seed(rng.getrandbits(32))
            try:
                with limit(5):
                    res = SimpleSubtreeCrossover().crossover(grammar, t1, t2)
                if res is not None:
                    outs.extend([("operator:crossover", res[0]), ("operator:crossover", res[1])])
            except Exception as e:  # noqa
                run.count("crossover_raised:" + type(e).__name__)
            # ---- mutate
            ind = rng.choice(trees).deepcopy(copy_parent=False)
            nodes = all_nodes(ind)
            if rng.random() < 0.3:
                rng.choice(nodes).set_all_read_only(True)
            failing = [FailingTree(rng.choice(nodes), None) for _ in range(rng.choice([0, 1, 1, 2, 3]))]

            def evaluate(_ind, failing=failing):
                return 0.0, failing, NopSuggestion()
                yield  # noqa  (a generator, like Evaluator.evaluate_individual)

            random.seed(rng.getrandbits(32))
            try:
                with limit(5):
                    m = _drive(SimpleMutation().mutate(ind, grammar, evaluate, rng.choice([5, 20, 50])))
                outs.append(("operator:mutate", m))
            except (Timeout, RecursionError):
                run.count("mutate_timeout")
            except Exception as e:  # noqa
                run.count("mutate_raised:" + type(e).__name__)
            # ---- fix_individual with a repetition suggestion built on the tree's own tags
            ind = rng.choice(trees).deepcopy(copy_parent=False)
            cands = [(n, tag) for n in all_nodes(ind) if n.parent is not None and n.symbol.is_non_terminal
                     for tag in n.origin_repetitions]
            suggs: list = [NopSuggestion()]
            if cands:
                node, (rep_id, it, _r) = rng.choice(cands)
                rep_node = find_rep_node(grammar, rep_id)
                same = [c for c in node.parent.children if any(x[0] == rep_id and x[1] == it for x in c.origin_repetitions)]
                reps = sorted({x[2] for c in same for x in c.origin_repetitions if x[0] == rep_id and x[1] == it})
                if rep_node is not None:
                    others = all_nodes(ind)
                    sg = RepetitionBoundsSuggestion(
                        ending_rep_tree=same[-1] if rng.random() < 0.7 else node,
                        starting_rep_value=rng.choice(others), ending_rep_value=rng.choice(others),
                        bound_len=len(reps), goal_len=rng.randint(0, len(reps) + 2), iter_id=it,
                        repetition_id=rep_id, repetition_node=rep_node)
                    sg.allow_repetition_full_delete = rng.random() < 0.5
                    suggs.append(sg)
            rng.shuffle(suggs)
            top = rng.choice([ApplyAllSuggestions(suggs), ApplyFirstSuggestion(suggs), suggs[-1], None])
            random.seed(rng.getrandbits(32))
            try:
                with limit(5):
                    PopulationManager(grammar, "<start>", False).fix_individual(ind, top)
            except (Timeout, RecursionError):
                run.count("fix_timeout")
            except Exception as e:  # noqa
                run.count("fix_raised:" + type(e).__name__)
        record_evo(ctx, rec, info.text)
    tjs = []
    for origin, t in outs:
        try:
            ctx.queue_valid(gj, regexes, [gio.tree_to_json(t)], {"origin": origin, "spec": info.text},
                            [fio.atree_json(t)])
        except NotModelled as e:
            run.count("not_modelled:" + str(e)[:40])


OPS_SPECS = [
    # iterations with several children, ending in a terminal / a nonterminal / nested repetitions
    '<start> ::= "[" (<a> ","){1,4} "]"\n<a> ::= "a" | "b" <a>?\n',
    '<start> ::= ("," <a>){2,} "."\n<a> ::= r"[0-9]" | "x"\n',
    '<start> ::= (<a> ":" <b> ";")+ <b>\n<a> ::= "k"{1,2}\n<b> ::= "v" | <a>\n',
    '<start> ::= ((<a> "-"){2} "/"){1,3}\n<a> ::= "a" | "aa"\n',
    '<start> ::= <a>{2,5} (<a> | "z")*\n<a> ::= "a" <b>?\n<b> ::= "b"+\n',
]


def stage_ops(ctx: Ctx, rng, n_grammars: int, per_grammar: int) -> None:
    run = ctx.run
    presets = ["default", "repetitions", "alternatives", "recursive", "regex", "binary", "tiny"]
    for gi in range(n_grammars + len(OPS_SPECS)):
        if gi < len(OPS_SPECS):
            with limit(8):
                grammar, constraints = gio.parse_spec(OPS_SPECS[gi])
            info = specgen.SpecInfo(text=OPS_SPECS[gi], nonterminals=[n.name() for n in grammar.rules], mode="text",
                                    python="", rules={}, generators={})
            got = (info, grammar, constraints)
        else:
            got = parse_generated(run, rng, presets[gi % len(presets)])
        if got is None:
            continue
        info, grammar, constraints = got
        try:
            gj, regexes, _ = fio.static_ir(grammar, constraints)
        except NotModelled:
            continue
        trees = fuzz_some(grammar, rng, 6)
        if not trees:
            continue
        for _ in range(per_grammar * (3 if gi < len(OPS_SPECS) else 1)):
            op_replace(ctx, rng, info, grammar, gj, regexes, trees)
            op_repetitions(ctx, rng, info, grammar, gj, regexes, trees)
            op_split(ctx, rng, info, trees)
        if info.mode in ("text", "bytes") and gi % 2 == 0:
            op_collapse(ctx, rng, info, grammar, gj, regexes, trees)
        op_evo(ctx, rng, info, grammar, gj, regexes, trees, per_grammar * (2 if gi < len(OPS_SPECS) else 1))
    ctx.flush_ops()
    ctx.flush_valid()


# ------------------------------------------------------------------------------------------------
# stage C: evolution — every individual of every population
# ------------------------------------------------------------------------------------------------

COMPUTED_WRAPPERS = [
    ('<start> ::= <cnt> ":" <gstart>{{int(<cnt>)}}\n<cnt> ::= "0" | "1" | "2" | "3"\n', "exact"),
    ('<start> ::= <cnt> ":" (<gstart> ","){{int(<cnt>)}} "."\n<cnt> ::= r"[0-4]"\n', "exact_group"),
    ('<start> ::= <cnt> ":" <gstart>{{1,int(<cnt>)}}\n<cnt> ::= "1" | "2" | "3"\n', "max"),
    ('<start> ::= <cnt> ":" <gstart>{{int(<cnt>),}} "!"\n<cnt> ::= "0" | "1" | "2"\n', "min"),
    # iterations of DIFFERENT width (optional part in the body): a repair that cuts by children, not by whole
    # iterations, leaves a partial iteration behind (seeded change C01-2)
    ('<start> ::= <cnt> ":" ("[" <gstart> ("=" <cnt>)? "]"){{int(<cnt>)}} ";"\n<cnt> ::= r"[0-4]"\n', "exact_varwidth"),
    ('<start> ::= <cnt> ":" (<gstart> ("," <gstart>)*){{int(<cnt>)}} "."\n<cnt> ::= r"[0-3]"\n', "exact_varwidth_star"),
]


def literal_for(value: Any) -> Optional[str]:
    if isinstance(value, str):
        if any(ord(c) < 32 or c in '"\\' for c in value):
            return None
        return '"' + value + '"'
    return None


def make_evolution_case(run: Run, rng, gi: int, force: Optional[str] = None):
    """(spec text, kind) — a generated grammar plus constraints that force the search operators to work"""
    kind = force or ["equal_literal", "equal_two", "computed_rep", "len_gt", "generators", "startswith", "computed_rep",
                     "equal_literal"][gi % 8]
    feats = specgen.feature_presets()["generators" if kind == "generators" else
                                       rng.choice(["default", "repetitions", "alternatives", "recursive", "regex", "tiny"])]
    feats = specgen.with_overrides(feats, mode="text", n_rules=(1, 4))
    info = specgen.gen_spec_info(rng, feats)
    text = info.text
    nts = info.nonterminals
    if kind == "computed_rep":
        wrapper, wk = COMPUTED_WRAPPERS[(gi // 2) % len(COMPUTED_WRAPPERS)] if force else rng.choice(COMPUTED_WRAPPERS)
        text = text.replace("<start>", "<gstart>")
        text = wrapper.replace("{{", "{").replace("}}", "}") + text
        kind += ":" + wk
        return text, kind
    try:
        with limit(8):
            grammar, _ = gio.parse_spec(text)
    except (Timeout, Exception):  # noqa
        return None
    cons = []
    if kind in ("equal_literal", "generators"):
        x = rng.choice(nts[1:] or nts)
        vals = []
        for t in fuzz_some(grammar, rng, 2, x):
            try:
                vals.append(str(t))
            except Exception:  # noqa
                pass
        lit = literal_for(rng.choice(vals)) if vals else None
        if rng.random() < 0.25:
            lit = '"@@no such word@@"'
        if lit is not None:
            cons.append(f"where str({x}) == {lit}" if rng.random() < 0.5 else f"where {x} == {lit}")
    if kind == "equal_two" and len(nts) >= 2:
        a, b = rng.sample(nts[1:] if len(nts) > 2 else nts, 2) if len(nts) > 2 else (nts[0], nts[1])
        cons.append(rng.choice([f"where str({a}) == str({b})", f"where {a} == {b}",
                                f"where str({a}) == str({a})[::-1]"]))
    if kind == "len_gt":
        cons.append(f"where len(str({rng.choice(nts)})) >= {rng.randint(2, 9)}")
    if kind == "startswith":
        pre = rng.choice(["a", "x", "0", "ab"])
        cons.append(f'where str({rng.choice(nts)}).startswith("{pre}")')
    if rng.random() < 0.3:
        cons.append(f"where len(str(<start>)) <= {rng.randint(6, 30)}")
    return text + "\n".join(cons) + ("\n" if cons else ""), kind


class Snaps:
    """trees judged AS THEY WERE when the real code handed them over (an individual reaching
    Evaluator.evaluate_individual, an emitted solution, the population a run ends with): serialised at that moment,
    distinct by structure.  A reference would show later in-place edits — e.g. `_insert_repetitions` empties the
    parent before its fuzz call and does not restore it when that call raises (RecursionError), which truncates an
    individual that was handed over intact and is never looked at again because the run ends with the exception."""

    def __init__(self):
        self.by_key: dict[str, tuple] = {}
        self.not_modelled: list[str] = []

    def add(self, tree) -> Optional[str]:
        try:
            tj = gio.tree_to_json(tree)
            key = json.dumps(tj)
            if key not in self.by_key:
                self.by_key[key] = (tj, fio.atree_json(tree))
            return key
        except NotModelled as e:
            self.not_modelled.append(str(e))
            return None


def run_evolution(spec: str, seed: int, settings: dict, generations: int, want: int, seconds: int):
    """one bounded evolution run; returns (grammar, constraints, snapshots of the individuals seen, snapshots of the
    solutions, recorder, error, not-modelled notes); a snapshot is (tree json, atree json)"""
    from fandango.evolution.algorithm import Fandango
    from fandango.evolution.evaluation import Evaluator
    with limit(8):
        grammar, constraints = gio.parse_spec(spec)
    snaps = Snaps()
    o_eval = Evaluator.evaluate_individual

    def evaluate_individual(self, individual):
        snaps.add(individual)
        return o_eval(self, individual)

    sol_keys: list[str] = []
    err = None
    Evaluator.evaluate_individual = evaluate_individual
    rec = fio.Recorder(evo=True)
    try:
        # the production exception path prints every swallowed exception to stderr: keep the log readable
        with rec, contextlib.redirect_stderr(io.StringIO()):
            with limit(seconds):
                try:
                    fan = Fandango(grammar, constraints, random_seed=seed, **settings)
                    for s in itertools.islice(fan.generate(max_generations=generations), want):
                        k = snaps.add(s)
                        if k is not None:
                            sol_keys.append(k)
                    for t in fan.population:
                        snaps.add(t)
                except Timeout:
                    err = "timeout"
                except RecursionError:
                    err = "RecursionError"
                except Exception as e:  # noqa
                    err = type(e).__name__
    finally:
        Evaluator.evaluate_individual = o_eval
    sk = set(sol_keys)
    sols = [snaps.by_key[k] for k in dict.fromkeys(sol_keys)]
    inds = [v for k, v in snaps.by_key.items() if k not in sk]
    return grammar, constraints, inds, sols, rec, err, snaps.not_modelled


def record_evo(ctx: Ctx, rec: fio.Recorder, spec: str) -> None:
    """operator-level tape replay: every SimpleSubtreeCrossover.crossover / SimpleMutation.mutate /
    PopulationManager.fix_individual call of the run against `crossover` / `mutate` / `fixIndividual` of
    Model/Evo.lean on the same inputs and the same recorded draws"""
    run = ctx.run
    fgs: dict[int, Any] = {}
    for ev in rec.evo_calls:
        op = ev.op
        if ev.error is not None:
            run.count(f"evo_raised:{op}:{ev.error}")
            continue
        if ev.not_modelled is not None:
            run.count(f"evo_not_modelled:{op}:{ev.not_modelled[:40]}")
            continue
        g = ev.grammar
        if g.generators:
            run.count(f"evo_not_modelled:{op}:generators")
            continue
        if id(g) not in fgs:
            try:
                fgs[id(g)] = fio.fgrammar_json(g, regexes=rec.table_for(g))[0]
            except NotModelled as e:
                fgs[id(g)] = None
                run.count("not_modelled:" + str(e)[:40])
        fg = fgs[id(g)]
        if fg is None:
            continue
        try:
            if op == "crossover":
                fuel = 100 + 4 * (_asize(ev.tree) + _asize(ev.tree2))
                if ev.out is None:
                    want = {"status": "nothing", "c1": None, "c2": None}
                    req = {"op": "crossover", "p1": ev.tree, "p2": ev.tree2, "sym": "", "k1": 0, "k2": 0, "fuel": fuel}
                    if ev.draws:
                        raise NotModelled("crossover returned None after drawing")
                else:
                    if len(ev.draws) != 3 or any(d[0] is None for d in ev.draws):
                        raise NotModelled("crossover: unexpected draws")
                    want = {"status": "ok", "c1": ev.out[0], "c2": ev.out[1]}
                    req = {"op": "crossover", "p1": ev.tree, "p2": ev.tree2, "sym": ev.draws[0][1].name(),
                           "k1": ev.draws[1][0], "k2": ev.draws[2][0], "fuel": fuel}
                run.count("crossover:" + want["status"])
                ctx.ask_later(req, lambda a, want=want, req=req: ctx.corr(
                    "evo:crossover", a == want, {"spec": spec, "req": req, "impl": want, "model": a}))
                ctx.corr("evo:crossover_mutates_input", ev.inputs_after == [ev.tree, ev.tree2], {"spec": spec})
            elif op == "mutate":
                if ev.failing is None:
                    run.count("evo_not_modelled:mutate:no_failing_trees_seen")
                    continue
                fuel = 400 + 16 * _size(ev.out) + 4 * _asize(ev.tree)
                base = {"op": "mutate", "grammar": fg, "tree": ev.tree, "failing": ev.failing,
                        "max_nodes": ev.max_nodes, "fuel": fuel}
                if ev.same:
                    if ev.draws:
                        raise NotModelled("mutate returned the individual after drawing")
                    req = dict(base, i=0, j=0, tape=[])
                    want = {"status": "same", "tree": None, "rest": 0, "point": None, "fuzz_args": None}
                else:
                    if len(ev.draws) != 2 or any(d[0] is None for d in ev.draws) or len(ev.fuzz_calls) != 1:
                        raise NotModelled("mutate: unexpected draws")
                    call = ev.fuzz_calls[0]
                    if call.cap < 0:
                        raise NotModelled("open repetitions with different caps")
                    req = dict(base, i=ev.draws[0][0], j=ev.draws[1][0], tape=call.tape, grammar=dict(fg, cap=call.cap))
                    want = {"status": "ok", "tree": ev.out, "rest": 0, "fuzz_args": [call.start, call.path, call.budget]}
                run.count("mutate:" + want["status"])

                def on_mut(a, want=want, req=req):
                    got = {k: a[k] for k in want}
                    ctx.corr("evo:mutate", got == want, {"spec": spec, "req": {k: v for k, v in req.items() if k != "grammar"},
                                                         "impl": want, "model": a})
                ctx.ask_later(req, on_mut)
                ctx.corr("evo:mutate_mutates_input", ev.inputs_after == [ev.tree], {"spec": spec})
            else:
                keys = fio._TermKeys()
                sj = None if ev.suggestion is None else fio.sugg_json(ev.sugg_pre, ev, rec.table_for(g), keys)
                fuel = 2000 + 4 * _asize(ev.tree)
                req = {"op": "fix", "grammar": dict(fg, cap=ev.cap), "tree": ev.tree, "sugg": sj, "tape": ev.tape,
                       "fuel": fuel}
                want = {"status": "ok", "tree": ev.out[0], "fixes": ev.out[1], "rest": 0}
                kinds = _sugg_kinds(sj)
                for kd in kinds:
                    run.count("fix_leaf:" + kd)
                run.count("fix:" + ("no_replacements" if ev.out[1] == 0 else "replacements"))

                def on_fix(a, want=want, req=req):
                    got = {k: a[k] for k in want}
                    ctx.corr("evo:fix_individual", got == want,
                             {"spec": spec, "req": {k: v for k, v in req.items() if k != "grammar"}, "impl": want, "model": a})
                ctx.ask_later(req, on_fix)
                ctx.corr("evo:fix_mutates_input", ev.inputs_after == [ev.tree], {"spec": spec})
        except NotModelled as e:
            run.count(f"evo_not_modelled:{op}:{str(e)[:40]}")
    rec.evo_calls.clear()


def _sugg_kinds(sj) -> set:
    if sj is None:
        return {"none"}
    if sj[0] in ("all", "first"):
        out = {sj[0]}
        for s in sj[1]:
            out |= _sugg_kinds(s)
        return out
    if sj[0] == "rep":
        return {"rep:insert" if sj[5] > sj[4] else "rep:full_delete" if sj[5] == 0 and sj[8] else
                "rep:noop" if (sj[5] or 1) == sj[4] else "rep:delete"}
    if sj[0] == "given":
        return {"given:" + ("pairs" if sj[1] else "empty")}
    return {sj[0]}


def stage_evolution(ctx: Ctx, rng, n_runs: int, seconds: int, force: Optional[str] = None) -> None:
    import fandango.language.grammar.nodes as nodes
    run = ctx.run
    for gi in range(n_runs):
        case = make_evolution_case(run, rng, gi, force)
        if case is None:
            run.count("evolution:spec_rejected")
            continue
        spec, kind = case
        settings = {"population_size": rng.choice([4, 6, 8, 10]), "max_nodes": rng.choice([15, 30, 60]),
                    "mutation_rate": rng.choice([0.2, 0.6, 1.0]), "crossover_rate": rng.choice([0.8, 1.0]),
                    "diversity_weight": rng.choice([0.0, 1.0])}
        seed = rng.getrandbits(30)
        cap0 = nodes.MAX_REPETITIONS
        try:
            grammar, constraints, inds, sols, rec, err, notes = run_evolution(
                spec, seed, settings, rng.choice([2, 3, 5]), 12, seconds)
        except Timeout:
            run.count("evolution:spec_timeout")
            continue
        except Exception as e:  # noqa
            run.count("evolution:spec_rejected:" + type(e).__name__)
            continue
        finally:
            nodes.MAX_REPETITIONS = cap0          # the adaptive tuner raises the global (C18): undo per run
        run.count("evolution:" + kind.split(":")[0])
        run.count("evolution_end:" + (err or "ok"))
        run.count("evolution_solutions:" + ("0" if not sols else "1+"))
        for note in notes:
            run.count("not_modelled:" + note[:40])
        try:
            gj, regexes, relaxed = fio.static_ir(grammar, constraints)
            meta = {"spec": spec, "settings": dict(settings, seed=seed, kind=kind), "relaxed": sorted(relaxed)}
            tj_sol, at_sol = [x[0] for x in sols], [x[1] for x in sols]
            tj_ind, at_ind = [x[0] for x in inds], [x[1] for x in inds]
        except NotModelled as e:
            run.count("not_modelled:" + str(e)[:40])
            continue
        ctx.queue_valid(gj, regexes, tj_sol, dict(meta, origin="evolution:solution"), at_sol)
        ctx.queue_valid(gj, regexes, tj_ind, dict(meta, origin="evolution:individual"), at_ind)
        record_evo(ctx, rec, spec)
        record_calls(ctx, rec, spec, "evolution:Grammar.fuzz", {})
    ctx.flush_expand()
    ctx.flush_bound()
    ctx.flush_ops()
    ctx.flush_valid()


# ------------------------------------------------------------------------------------------------
# stage D: the shipped .fan grammars
# ------------------------------------------------------------------------------------------------

SKIP_PAT = re.compile(r"Party|socket|subprocess|urllib|requests|os\.system|smtplib|ftplib|open\(|input\(|sys\.stdin|"
                      r"include\(|time\.sleep|threading")


def shipped_specs() -> list[Path]:
    out = []
    for p in sorted(REPO.rglob("*.fan")):
        s = str(p)
        if "/.git/" in s or "/node_modules/" in s or "/.venv/" in s:
            continue
        out.append(p)
    return out


def stage_shipped(ctx: Ctx, rng, per_file_seconds: int, deadline: float) -> None:
    from fandango.language.parse.parse import parse
    import fandango.language.grammar.nodes as nodes
    run = ctx.run
    for p in shipped_specs():
        if time.time() > deadline:
            run.count("shipped:skipped_for_time")
            continue
        try:
            text = p.read_text()
        except Exception:  # noqa
            continue
        if SKIP_PAT.search(text):
            run.count("shipped:skipped_io")
            continue
        cap0 = nodes.MAX_REPETITIONS
        try:
            with limit(per_file_seconds):
                grammar, constraints = parse(text, use_cache=False, use_stdlib=True, includes=[str(p.parent)])
                if grammar is None or "<start>" not in grammar:
                    run.count("shipped:no_start")
                    continue
        except Timeout:
            run.count("shipped:parse_timeout")
            continue
        except BaseException as e:  # noqa  (spec code may call sys.exit)
            run.count("shipped:parse_failed:" + type(e).__name__)
            continue
        finally:
            nodes.MAX_REPETITIONS = cap0
        run.count("shipped:parsed")
        rel = str(p.relative_to(REPO))
        try:
            gj, regexes, relaxed = fio.static_ir(grammar, constraints)
        except NotModelled as e:
            run.count("shipped:not_modelled:" + str(e)[:30])
            continue
        trees, fg_cache = [], {}
        with fio.Recorder() as rec:
            for budget in (0, 5, 20, 60):
                random.seed(rng.getrandbits(32))
                try:
                    with limit(per_file_seconds):
                        trees.append(grammar.fuzz("<start>", budget))
                except Timeout:
                    run.count("shipped:fuzz_timeout")
                except BaseException as e:  # noqa
                    run.count("shipped:fuzz_raised:" + type(e).__name__)
            record_calls(ctx, rec, rel, "shipped:Grammar.fuzz", fg_cache, fresh=False)
        # a short evolution run with the spec's own constraints (protocol specs: IO mode is C19/C20's business)
        from fandango.evolution.algorithm import Fandango
        from fandango.evolution.evaluation import Evaluator
        from fandango.language.grammar import FuzzingMode
        snaps = Snaps()
        for t in trees:
            snaps.add(t)
        if grammar.fuzzing_mode == FuzzingMode.IO:
            run.count("shipped:io_mode_fuzz_only")
            try:
                tjs = [gio.tree_to_json(t) for t in trees]
                ctx.queue_valid(gj, regexes, tjs, {"origin": "shipped", "spec": rel, "relaxed": sorted(relaxed)})
            except NotModelled as e:
                run.count("shipped:not_modelled:" + str(e)[:30])
            continue
        o_eval = Evaluator.evaluate_individual

        def evaluate_individual(self, individual, _snaps=snaps):
            _snaps.add(individual)
            return o_eval(self, individual)

        Evaluator.evaluate_individual = evaluate_individual
        try:
            with contextlib.redirect_stderr(io.StringIO()), limit(per_file_seconds):
                fan = Fandango(grammar, constraints, random_seed=rng.getrandbits(30), population_size=5, max_nodes=60)
                for s in itertools.islice(fan.generate(max_generations=2), 5):
                    snaps.add(s)
            run.count("shipped:evolution_ok")
        except Timeout:
            run.count("shipped:evolution_timeout")
        except BaseException as e:  # noqa
            run.count("shipped:evolution_raised:" + type(e).__name__)
        finally:
            Evaluator.evaluate_individual = o_eval
            nodes.MAX_REPETITIONS = cap0
        for note in snaps.not_modelled:
            run.count("shipped:not_modelled:" + note[:30])
        tjs = [v[0] for v in snaps.by_key.values()]
        ats = [v[1] for v in snaps.by_key.values()]
        ctx.queue_valid(gj, regexes, tjs, {"origin": "shipped", "spec": rel, "relaxed": sorted(relaxed)}, ats)
    ctx.flush_expand()
    ctx.flush_bound()
    ctx.flush_valid()


# ------------------------------------------------------------------------------------------------
# corpus, replay, main
# ------------------------------------------------------------------------------------------------

CORPUS_SPECS = [
    # early stop at min, nested repetitions, option/star/plus, regex, bits, recursion through ? and *
    '<start> ::= <a>{2,4} "x"? (<b> | "y")+\n<a> ::= "a" <b>*\n<b> ::= r"[0-9]{2}" | "b" <start>?\n',
    '<start> ::= ((<a>+){2}){1,} b"\\x00"\n<a> ::= 0 1 1 0 0 0 0 1 | b"\\xff"{0,2}\n',
    '<start> ::= <a> <b> <a> "k" <a>\n<a> ::= "a" | "aa" <b>?\n<b> ::= ("b" | "c"){3}\n',
    '<start> ::= <x>{3}\n<x> ::= <x> "1" | "0"\n',
    '<start> ::= <n> <item>{int(<n>)}\n<n> ::= "0" | "1" | "2" | "3"\n<item> ::= "i" r"[a-c]"?\n',
]


def stage_corpus(ctx: Ctx, rng) -> None:
    corpus_spine(ctx)
    for spec in CORPUS_SPECS:
        try:
            with limit(8):
                grammar, constraints = gio.parse_spec(spec)
            gj, regexes, relaxed = fio.static_ir(grammar, constraints)
        except Exception as e:  # noqa
            raise MachineryError(f"corpus spec no longer parses: {e!r}")
        trees, fg_cache = [], {}
        with fio.Recorder() as rec:
            for budget in (0, 1, 3, 6, 10, 25, 60):
                for _ in range(3):
                    random.seed(rng.getrandbits(32))
                    try:
                        with limit(5):
                            trees.append(grammar.fuzz("<start>", budget))
                    except Exception:  # noqa
                        ctx.run.count("fuzz_raised:corpus")
            record_calls(ctx, rec, spec, "fuzz", fg_cache)
        ctx.queue_valid(gj, regexes, [gio.tree_to_json(t) for t in trees],
                        {"origin": "fuzz", "spec": spec, "relaxed": sorted(relaxed)})
    ctx.flush_expand()
    ctx.flush_bound()
    ctx.flush_valid()


SPINE_SPEC = '<start> ::= <a>\n<a> ::= ("(" <a> ")")*\n'


def corpus_spine(ctx: Ctx) -> None:
    """the witness of C01_expand_no_budget_bound on the real Grammar.fuzz: with the scripted draws
    (randint -> 2, inner randint -> 0) x k, randint -> 0 the Star along the spine is entered with the SAME budget
    48 at every level (k + 1 levels at max_nodes = 50); the run is also tape-replayed like any other fuzz call"""
    import fandango.language.grammar.nodes.repetition as R
    with limit(8):
        grammar, _ = gio.parse_spec(SPINE_SPEC)
    for k in (3, 40):
        draws = iter([2, 0] * k + [0])
        budgets: list[int] = []
        o_fuzz, o_randint = R.Repetition.fuzz, random.randint

        def fuzz(self, parent, grammar, max_nodes=100, in_message=False, *a, _o=o_fuzz, **kw):
            budgets.append(int(max_nodes))
            return _o(self, parent, grammar, max_nodes, in_message, *a, **kw)

        R.Repetition.fuzz = fuzz
        random.randint = lambda a, b, _d=draws: next(_d)
        err = None
        try:
            with fio.Recorder() as rec:
                with limit(10):
                    grammar.fuzz("<start>", 50)
        except (Timeout, Exception) as e:  # noqa  (the scripted draws no longer fit the code: a disagreement, not a crash)
            err = type(e).__name__
        finally:
            R.Repetition.fuzz, random.randint = o_fuzz, o_randint
        ctx.corr("spine:budget_constant_at_every_level", err is None and budgets[0::2] == [48] * (k + 1),
                 {"spec": SPINE_SPEC, "k": k, "budgets": budgets[:12], "error": err})
        record_calls(ctx, rec, SPINE_SPEC, "fuzz:spine", {})


class _ReplayRun:
    """stand-in for Run while re-running a scenario: collects reports, prints nothing"""

    def __init__(self):
        self.reports: list[tuple[str, str]] = []
        self.counters: dict[str, int] = {}

    def count(self, key: str, n: int = 1) -> None:
        self.counters[key] = self.counters.get(key, 0) + n

    def case(self, *a, **k) -> None:
        pass

    def report(self, signature: str, what: str, replay: dict, no_input: bool = False) -> None:
        self.reports.append((signature, what))


def replay(path: str) -> int:
    """re-run the recorded scenario on the CURRENT code; the verdict is about the current code"""
    use_repo()
    rp = json.load(open(path))
    if rp.get("kind") != "tree":
        print("replay: this file names a broken obligation / correspondence case, there is no failing input:")
        print(json.dumps({k: rp.get(k) for k in ("what", "broken_obligations")}, indent=1)[:3000])
        for c in rp.get("correspondence", [])[:3]:
            print(json.dumps(c)[:1500])
        return 1
    spec, origin = rp["spec"], rp["origin"]
    shipped = "\n" not in spec and spec.endswith(".fan")
    if shipped:
        from fandango.language.parse.parse import parse
        p = REPO / spec
        grammar, constraints = parse(p.read_text(), use_cache=False, use_stdlib=True, includes=[str(p.parent)])
    else:
        grammar, constraints = gio.parse_spec(spec)
    gj, regexes, _ = fio.static_ir(grammar, constraints)
    a = driver_ask("drv_fuzz", fio.valid_fast_requests(gj, regexes, [rp["tree"]]))[0]
    print(f"recorded tree {_show(rp['tree'])[:200]}: valid={a['valid']} bad={a['bad']} (as recorded; now re-running)")
    rr = _ReplayRun()
    ctx = Ctx(rr)  # type: ignore[arg-type]
    rng = random.Random(rp.get("seed", 0))
    st = rp.get("settings") or {}
    if origin.startswith("evolution") and "seed" in st:
        settings = {k: v for k, v in st.items() if k not in ("seed", "kind")}
        _g, _c, inds, sols, _rec, err, _notes = run_evolution(spec, st["seed"], settings, 5, 12, 60)
        tj = [x[0] for x in inds + sols]
        at = [x[1] for x in inds + sols]
        ctx.queue_valid(gj, regexes, tj, {"origin": origin, "spec": spec}, at)
        print(f"re-run: {len(inds)} individuals, {len(sols)} solutions, end={err or 'ok'}")
    elif origin.startswith("operator"):
        info = specgen.SpecInfo(text=spec, nonterminals=[n.name() for n in grammar.rules], mode="text", python="",
                                rules={}, generators={})
        trees = fuzz_some(grammar, rng, 8)
        for _ in range(150):
            op_replace(ctx, rng, info, grammar, gj, regexes, trees)
            op_repetitions(ctx, rng, info, grammar, gj, regexes, trees)
        for _ in range(10):
            op_collapse(ctx, rng, info, grammar, gj, regexes, trees)
        ctx.flush_ops()
        print(f"re-run: 150 rounds of the tree operators on {len(trees)} fuzzed trees")
    else:
        trees = []
        for k in range(300):
            random.seed(rng.getrandbits(32))
            try:
                with limit(5):
                    trees.append(grammar.fuzz("<start>", [0, 1, 3, 5, 8, 12, 20, 50, 100][k % 9]))
            except Exception:  # noqa
                pass
        ctx.queue_valid(gj, regexes, [gio.tree_to_json(t) for t in trees], {"origin": origin, "spec": spec},
                        [fio.atree_json(t) for t in trees])
        print(f"re-run: {len(trees)} fuzz() calls")
    ctx.flush_valid()
    for sig, what in rr.reports[:5]:
        print("  FAILS:", sig, "-", what[:300])
    if ctx.corr_fail:
        print(f"  model/implementation disagreements: {len(ctx.corr_fail)} (e.g. {ctx.corr_fail[0]['case']})")
    bad = bool(rr.reports)
    print("replay:", "property violated" if bad else "no violation on the current tree")
    return 1 if bad else 0


def main(tier: str) -> int:
    run = Run(PID, tier, "proof")
    use_repo()
    lean = lean_check("Props.C01", ["drv_fuzz"])
    ctx = Ctx(run)
    quick = tier == "quick"
    t0 = time.time()
    stage_corpus(ctx, run.rng("corpus"))
    stage_prime(ctx, run.rng("prime"), 40 if quick else 900)
    prime_shipped(ctx, run.rng("prime-shipped"), 15 if quick else 10 ** 6)
    run.coverage["t_prime_s"] = round(time.time() - t0, 1)
    stage_fuzz(ctx, run.rng("fuzz"), 60 if quick else 900, 8 if quick else 12)
    run.coverage["t_fuzz_s"] = round(time.time() - t0, 1)
    stage_ops(ctx, run.rng("ops"), 35 if quick else 500, 3 if quick else 4)
    run.coverage["t_ops_s"] = round(time.time() - t0, 1)
    stage_evolution(ctx, run.rng("evolution"), 40 if quick else 500, 6 if quick else 10)
    run.coverage["t_evolution_s"] = round(time.time() - t0, 1)
    if not quick:
        stage_shipped(ctx, run.rng("shipped"), 15, t0 + 22 * 60)
        run.coverage["t_shipped_s"] = round(time.time() - t0, 1)

    run.coverage["traces_validated_against_impl"] = ctx.corr_cases
    run.coverage["correspondence_disagreements"] = len(ctx.corr_fail)
    run.coverage["disagreement_samples"] = [json.loads(json.dumps(c)[:4000]) if len(json.dumps(c)) < 4000
                                            else {"case": c["case"], "spec": c.get("spec")} for c in ctx.corr_fail[:5]]
    if (not lean.ok or ctx.corr_fail) and not run.violations and not run.known_hits:
        # failing-input search: a disagreement of the repair / replace operators with the model is looked for in what
        # the search EMITS - evolution runs on computed-repetition specs (all wrappers in turn, incl. iterations of
        # different width), every individual judged by the verified checker
        stage_evolution(ctx, run.rng("search-after-disagreement"), 36 if quick else 120, 6 if quick else 10,
                        force="computed_rep")
        run.coverage["t_search_s"] = round(time.time() - t0, 1)
    if (not lean.ok or ctx.corr_fail) and not run.violations and not run.known_hits:
        what = []
        if not lean.ok:
            what.append("proof obligations of Props/C01.lean no longer check: " + json.dumps(lean.broken)[:600])
        if ctx.corr_fail:
            kinds = sorted({c["case"] for c in ctx.corr_fail})
            what.append(f"model/implementation correspondence broken on {len(ctx.corr_fail)} cases ({', '.join(kinds)}), "
                        f"e.g. " + json.dumps(ctx.corr_fail[0])[:500])
        run.report("C01/unproved", "; ".join(what),
                   {"broken_obligations": lean.broken, "correspondence": ctx.corr_fail[:10]}, no_input=True)
    return run.finish(
        lean,
        rule="type-directed grammars (alternatives, groups, *, +, ?, {n}, {n,m}, {n,}, nested repetitions, skippable "
             "recursion, str/bytes/bit literals, str/bytes regexes, generators) x budgets {-3..100} x seeds; operator "
             "cases on real trees (replace_multiple with same/other symbol, read-only targets, nested paths; "
             "_delete/_insert_repetitions; split_end/prefix; collapse of control-flow parses); evolution runs with "
             "equality / length / computed-repetition constraints capturing every evaluated individual; "
             "a case is non-trivial when the tree has > 3 nodes; distinct by tree",
        trusted_base=TRUSTED)
