"""C02 — emitted solutions satisfy every hard constraint.

1. obligations: translators (T-cons, T-fitness) + Props/C02.lean + axiom audit
2. correspondence of the emission model: the real `Evaluator.evaluate_individual`, driven with stub
   constraints that return chosen (solved, total) / value lists or raise, against the exact-arithmetic
   model (drv_cons `emit`): emitted or not, fitness within float rounding of the exact value
3. the property on the real code: generated specs (grammar x constraint programs over the modelled atom
   language, incl. computed repetitions `{int(<n>)}` and atoms that raise on part of the language) ->
   real `Fandango(spec).fuzz(...)` with several seeds; EVERY emitted tree is re-judged
     (i)   by the Lean reference semantics `denote` (drv_cons) for every where/extra constraint,
     (ii)  by an oracle computed from the output string for the computed repetition bounds,
     (iii) by the constraints of a brand-new `Fandango` object parsed from the same text (no shared
           state), on the emitted tree and — for unambiguous words — by re-parsing the emitted string.
   An emitted tree that any judge rejects is the violation.
"""
from __future__ import annotations

import json
import logging
import signal
import time
from fractions import Fraction
from typing import Any, Optional

from harness import translate_cons
from harness.common import VERIF, MachineryError, Run, driver_ask, lean_check, use_repo
from harness.gen import cons as G
from harness.impl import cons as I

PID = "C02"

TRUSTED = [
    "Lean 4.33.0 kernel; axioms ⊆ {propext, Classical.choice, Quot.sound} (audited per run)",
    "models lean/Model/Constraint.lean (fitness() of every constraint class; tied by C07's and this run's "
    "correspondence) and lean/Model/EmitExact.lean (_evaluate_constraints + acceptance test in EXACT rational "
    "arithmetic; tied by the stub-driven differential of the real evaluate_individual)",
    "binary64: proved for the GENERATED formula over Model/Float53 (round-to-nearest-even over exact rationals, no "
    "subnormals/overflow) under (h+r)*2^B <= 2^50, 2^B >= every per-constraint denominator (C02_accept_iff_float, "
    "C02_emit_sound_float; C02_float_bound_is_needed: a total of 2^53 defeats it); the float model is tied "
    "bit-exactly to CPython by C03's operand / evaluator correspondence and this run's stub differential",
    "translators harness/translate_cons.py, harness/translate_fitness.py",
    "RepetitionBoundsConstraint: fitness modelled as a function of the repetition groups found; finding the groups "
    "(origin tags) is not modelled — emitted trees are judged by an oracle computed from the output string",
    "constraints outside the modelled atom language are judged only by a fresh Fandango object (a test, not a proof)",
]


class Timeout(BaseException):  # not an Exception: constraint evaluation must not swallow it
    pass


def _alarm(signum, frame):  # noqa: ANN001
    raise Timeout()


def quiet() -> None:
    """exceptions inside constraint evaluation are expected here: keep them out of the log and cheap"""
    import fandango.constraints.comparison as cmpmod
    import fandango.constraints.expression as exprmod
    import fandango.evolution.evaluation as evalmod

    def silent(e, msg=None):  # noqa: ANN001
        return None
    exprmod.print_exception = silent
    cmpmod.print_exception = silent
    evalmod.print_exception = silent


# ------------------------------------------------------------------------------------------------
# (2) stub-driven differential of Evaluator.evaluate_individual
# ------------------------------------------------------------------------------------------------

def make_stub_classes():
    from fandango.constraints.constraint import Constraint
    from fandango.constraints.failing_tree import NopSuggestion
    from fandango.constraints.fitness import ConstraintFitness, DistanceAwareConstraintFitness
    from fandango.constraints.repetition_bounds import RepetitionBoundsConstraint

    def build(outcome):
        if outcome is None:
            raise ValueError("stub constraint raises")
        if "values" in outcome:
            return DistanceAwareConstraintFitness([1.0 if b else 0.0 for b in outcome["values"]], NopSuggestion(),
                                                  success=outcome["success"])
        return ConstraintFitness(outcome["solved"], outcome["total"], outcome["success"], NopSuggestion())

    class StubHard(Constraint):
        def __init__(self, outcome):
            super().__init__()
            self.outcome = outcome

        def fitness(self, tree, scope=None, local_variables=None):
            return build(self.outcome)

        def accept(self, visitor):
            pass

        def format_as_spec(self):
            return "stub"

        def invert(self):
            return self

    class StubRep(RepetitionBoundsConstraint):
        def __init__(self, outcome):  # noqa: super().__init__ needs a grammar node; the evaluator only calls fitness()
            Constraint.__init__(self)
            self.outcome = outcome

        def fitness(self, tree, scope=None, local_variables=None):
            return build(self.outcome)

        def format_as_spec(self):
            return "stub-rep"

    return StubHard, StubRep


def gen_outcome(rng, satisfied_bias: float) -> Optional[dict]:
    r = rng.random()
    if r < 0.06:
        return None
    sat = rng.random() < satisfied_bias
    if rng.random() < 0.3:
        n = rng.choice([1, 1, 2, 3, 5, 8])
        vals = [True] * n if sat else [rng.random() < 0.6 for _ in range(n)]
        return {"values": vals, "success": all(vals)}
    total = rng.choice([1, 1, 2, 3, 4, 6, 7, 10, 13, 100, 1000, 2 ** 10 + 1, 2 ** 20 - 1, 2 ** 20])
    solved = total if sat else rng.choice([0, total - 1, rng.randint(0, total)])
    return {"solved": solved, "total": total, "success": solved == total}


def stub_differential(run: Run, rng, n_cases: int, corr: list) -> None:
    from fandango.evolution.evaluation import Evaluator
    from fandango.language.symbols import NonTerminal, Terminal
    from fandango.language.tree import DerivationTree
    StubHard, StubRep = make_stub_classes()
    cases = []
    for i in range(n_cases):
        h = rng.choice([0, 1, 1, 2, 2, 3, 4, 5, 6, 7, 9, 12])
        r = rng.choice([0, 0, 1, 1, 2, 3, 5, 6])
        bias = rng.choice([1.0, 1.0, 0.95, 0.8, 0.5])
        hard = [gen_outcome(rng, bias) for _ in range(h)]
        rep = [gen_outcome(rng, bias) for _ in range(r)]
        order = rng.random() < 0.5          # declaration order of the two classes is irrelevant to the evaluator
        cons = [StubHard(o) for o in hard] + [StubRep(o) for o in rep]
        if order:
            cons = [StubRep(o) for o in rep] + [StubHard(o) for o in hard]
        ev = Evaluator(None, cons, 1.0, 5, 1.0)
        tree = DerivationTree(NonTerminal("<s>"), [DerivationTree(Terminal(str(i)))])
        gen = ev.evaluate_individual(tree)
        emitted = []
        try:
            while True:
                emitted.append(next(gen))
        except StopIteration as stop:
            fitness = stop.value[0]
        # second evaluation of the same tree: served from the cache, nothing is yielded again
        again = list(ev.evaluate_individual(tree))
        cases.append({"hard": hard, "rep": rep, "emit": len(emitted) == 1, "fitness": fitness, "again": len(again)})
    answers = driver_ask("drv_cons", [{"op": "emit", "hard": c["hard"], "rep": c["rep"], "seen": False} for c in cases])
    for c, a in zip(cases, answers):
        exact = Fraction(int(a["fitness"]["num"]), int(a["fitness"]["den"]))
        all_sat = all(o is not None and o["success"] for o in c["hard"] + c["rep"])
        run.case({"hard": c["hard"], "rep": c["rep"]}, nontrivial=bool(c["hard"] or c["rep"]) and not all_sat,
                 sample=({"stub_hard": c["hard"][:3], "stub_rep": c["rep"][:3], "emitted": c["emit"]}
                         if run.evaluations in (5, 17) else None))
        run.count(f"stub:h={min(len(c['hard']), 9)}")
        run.count("stub:emitted" if c["emit"] else "stub:not-emitted")
        if any(o is None for o in c["hard"] + c["rep"]):
            run.count("stub:with-exception")
        bad = None
        if c["emit"] != a["emit"]:
            bad = f"real evaluate_individual {'emits' if c['emit'] else 'does not emit'}, the model says emit={a['emit']}"
        elif abs(Fraction(c["fitness"]) - exact) > Fraction(1, 10 ** 12):
            bad = f"real fitness {c['fitness']!r} is not the exact value {exact} (up to rounding)"
        elif c["again"] != 0:
            bad = "the second evaluation of the same tree yielded it again"
        if bad:
            corr.append({"kind": "stub", "what": bad, "hard": c["hard"], "rep": c["rep"]})
            if c["emit"] and not all_sat:
                run.report("C02/emitted-unsatisfied-stub",
                           f"Evaluator.evaluate_individual yields a tree although a constraint reports failure: {bad}",
                           {"kind": "stub", "hard": c["hard"], "rep": c["rep"]})


# ------------------------------------------------------------------------------------------------
# (3) end-to-end: specs -> fuzz -> judges
# ------------------------------------------------------------------------------------------------

class Spec:
    def __init__(self, gtext: str, programs: list[list], extra: list[list], rep: Optional[dict], origin: str):
        self.gtext, self.programs, self.extra, self.rep, self.origin = gtext, programs, extra, rep, origin

    def where_text(self) -> str:
        return "".join("where " + G.cons_text(p) + "\n" for p in self.programs)

    def text(self) -> str:
        return self.gtext + self.where_text()

    def extra_texts(self) -> list[str]:
        return [G.cons_text(p) for p in self.extra]


def cp(s: str) -> list[int]:
    return [ord(c) for c in s]


def corpus_specs() -> list[Spec]:
    out = []
    g1 = '<start> ::= <x> <x>\n<x> ::= "a" | "1"\n'
    out.append(Spec(g1, [["cmp", ["i", "==", ["int", ["ph", 0]], ["lit", 1]], [["rule", "<x>"]]]], [], None, "corpus:F1"))
    g2 = '<start> ::= <a> <a>\n<a> ::= <b>\n<b> ::= "y" | "q"\n'
    inner = ["all", False, ["nt", "<b>"], ["star", ["attr", ["rule", "<a>"], ["rule", "<b>"]]],
             ["cmp", ["s", "==", ["str", ["ph", 0]], ["lit", cp("y")]], [["rule", "<b>"]]]]
    out.append(Spec(g2, [["all", False, ["nt", "<a>"], ["star", ["attr", ["rule", "<start>"], ["rule", "<a>"]]], inner]],
                    [], None, "corpus:F2"))
    # an expression atom that raises on part of the language, as an extra (command-line) constraint
    g3 = '<start> ::= <x> <x> <x>\n<x> ::= "a" | "1" | "2"\n'
    out.append(Spec(g3, [["expr", ["cmp", ["i", "<=", ["int", ["ph", 0]], ["lit", 1]]], [["rule", "<x>"]]]],
                    [["cmp", ["s", "!=", ["str", ["ph", 0]], ["lit", cp("a")]], [["item", ["rule", "<start>"], [["idx", 0]]]]]],
                    None, "corpus:expr-raises"))
    # computed repetitions nested in their own elements / in another computed repetition (seeded change C02-2:
    # find_by_origin stopped at the outermost tagged node, nested counts were never compared)
    for gtext, kind in REP_TEMPLATES:
        if kind in ("nested", "rows"):
            out.append(Spec(gtext, [], [], {"kind": kind}, "corpus:rep-" + kind))
    # float comparisons whose two sides are a sub-ulp apart while the comparison is FALSE (0.1 + 0.2 <= 0.3,
    # 0.7 / 10 >= 0.07): a distance-aware score would round to 1.0 (seeded change C02-3); judged by plain Python
    out.append(Spec('<start> ::= <a> ";" <b>\n<a> ::= "0.1" | "0.2" | "0.25" | "0.15"\n<b> ::= "0.2" | "0.1" | "0.05" | "0.15"\n'
                    'where float(str(<a>)) + float(str(<b>)) <= 0.3\n', [], [], {"kind": "float_sum"}, "corpus:float-tie"))
    out.append(Spec('<start> ::= <a>\n<a> ::= "0.7" | "0.8" | "0.6" | "0.07"\n'
                    'where float(str(<a>)) / 10 >= 0.07\n', [], [], {"kind": "float_div"}, "corpus:float-tie"))
    return out


REP_TEMPLATES = [
    # (grammar text, kind, where-programs).  <n>/<m> are one character; every <item> is one character.
    ('<start> ::= <n> <item>{int(<n>)}\n<n> ::= "1" | "2" | "3" | "a"\n<item> ::= "x" | "y"\n', "exact"),
    ('<start> ::= <n> <m> <item>{int(<n>), int(<m>)}\n<n> ::= "0" | "1" | "2"\n<m> ::= "2" | "3" | "b"\n<item> ::= "x" | "y" | "7"\n', "range"),
    ('<start> ::= <n> <item>{int(<n>)} <tail>\n<n> ::= "2" | "3" | "0"\n<item> ::= "x" | "1"\n<tail> ::= "." | "!"\n', "exact-tail"),
    # a computed repetition INSIDE its own elements (recursive grammar): every nested occurrence has its own count
    ('<start> ::= <list>\n<list> ::= <n> <item>{int(<n>)}\n<n> ::= "0" | "1" | "2" | "3"\n'
     '<item> ::= <letter> | "(" <list> ")"\n<letter> ::= "x" | "y"\n', "nested"),
    # computed repetitions inside the elements of another computed repetition (two repetition nodes)
    ('<start> ::= <n> <row>{int(<n>)}\n<row> ::= <m> <item>{int(<m>)} ";"\n<n> ::= "1" | "2" | "3"\n'
     '<m> ::= "0" | "1" | "2"\n<item> ::= "x" | "y"\n', "rows"),
]


def rep_oracle(kind: str, out: str) -> bool:
    """the computed repetition bound, re-evaluated from the output string alone"""
    try:
        if kind == "exact":
            return len(out) - 1 == int(out[0])
        if kind == "exact-tail":
            return len(out) - 2 == int(out[0])
        if kind == "range":
            return int(out[0]) <= len(out) - 2 <= int(out[1])
        if kind == "float_sum":
            a, b = out.split(";")
            return float(a) + float(b) <= 0.3
        if kind == "float_div":
            return float(out) / 10 >= 0.07
        if kind == "nested":
            def plist(i: int) -> int:
                n = int(out[i])
                i += 1
                for _ in range(n):
                    if out[i] == "(":
                        i = plist(i + 1)
                        if out[i] != ")":
                            raise ValueError
                        i += 1
                    elif out[i] in "xy":
                        i += 1
                    else:
                        raise ValueError
                return i
            return plist(0) == len(out)
        if kind == "rows":
            i = 1
            for _ in range(int(out[0])):
                m = int(out[i])
                if out[i + 1:i + 1 + m].strip("xy") or out[i + 1 + m] != ";":
                    return False
                i += m + 2
            return i == len(out)
    except (ValueError, IndexError):
        return False
    raise AssertionError(kind)


def gen_specs(rng, n_plain: int, n_rep: int) -> list[Spec]:
    out = []
    for _ in range(n_plain):
        g = G.gen_grammar(rng)
        progs = []
        for _ in range(rng.choice([1, 1, 2, 3])):
            for _try in range(20):
                p = G.gen_text_program(rng, g, False, rng.choice([0, 0, 1, 1, 2]))
                if G.text_expressible(p) and not escapes_statically(p):
                    progs.append(p)
                    break
        extra = []
        if rng.random() < 0.35:
            for _try in range(20):
                p = G.gen_text_program(rng, g, False, rng.choice([0, 0, 1]))
                if G.text_expressible(p) and not escapes_statically(p):
                    extra.append(p)
                    break
        if progs:
            out.append(Spec(G.grammar_text(g), progs, extra, None, "generated:plain"))
    for _ in range(n_rep):
        gtext, kind = rng.choice(REP_TEMPLATES)
        nts = ["<start>", "<item>", "<n>"]
        progs = []
        for _ in range(0 if kind in ("nested", "rows") else rng.choice([0, 1, 1, 2])):
            for _try in range(20):
                p = G.gen_text_program(rng, nts, False, rng.choice([0, 0, 1]))
                if G.text_expressible(p) and not escapes_statically(p):
                    progs.append(p)
                    break
        out.append(Spec(gtext, progs, [], {"kind": kind}, "generated:repetition"))
    return out


def escapes_statically(p: list) -> bool:
    """multi-slice selectors (`<a>[0, 1]`) always raise TypeError out of fitness(): nothing can be emitted,
    the spec is a waste of search time"""
    return '["idx", 0], ["idx", 1]' in json.dumps(p)


def run_spec(run: Run, spec: Spec, seeds: list[int], budget_s: float, corr: list) -> int:
    """fuzz the spec; judge every emitted tree.  Returns the number of emitted trees."""
    from fandango import Fandango
    text = spec.text()
    try:
        Fandango(text, use_stdlib=False, use_cache=False, logging_level=logging.CRITICAL)
    except Exception as e:  # noqa: BLE001 — the front end refuses the spec (static checks): nothing to fuzz
        run.count("spec:rejected-by-front-end")
        return 0
    emitted_total = 0
    for seed in seeds:
        fan = Fandango(text, use_stdlib=False, use_cache=False, logging_level=logging.CRITICAL)
        signal.signal(signal.SIGALRM, _alarm)
        signal.alarm(max(2, int(budget_s)))
        sols: list = []
        try:
            fan.fuzz(desired_solutions=6, max_generations=12, population_size=12, random_seed=seed,
                     extra_constraints=spec.extra_texts() or None,
                     solution_callback=lambda s, i: sols.append(s))
        except Timeout:
            run.count("fuzz:time-limit")
        except Exception as e:  # noqa: BLE001
            run.count("fuzz:raised:" + type(e).__name__)
        finally:
            signal.alarm(0)
        run.count("fuzz:runs")
        if not sols:
            run.count("fuzz:no-solution")
            continue
        emitted_total += len(sols)
        judge_solutions(run, spec, seed, sols, corr)
    return emitted_total


def judge_solutions(run: Run, spec: Spec, seed: int, sols: list, corr: list) -> None:
    from fandango import Fandango
    text = spec.text()
    fresh = Fandango(text, use_stdlib=False, use_cache=False, logging_level=logging.CRITICAL)
    fresh_cons = list(fresh.constraints)
    if spec.extra:
        fresh_cons += fresh._parse_extra_constraints(spec.extra_texts(), "<start>")
    reqs, owners = [], []
    tjs = []
    for si, s in enumerate(sols):
        tj = I.tree_json(s)
        tjs.append(tj)
        for p in spec.programs + spec.extra:
            reqs.append({"op": "eval", "tree": tj, "cons": p})
            owners.append((si, p))
    answers = driver_ask("drv_cons", reqs) if reqs else []
    verdict: dict[int, list] = {}
    for (si, p), a in zip(owners, answers):
        verdict.setdefault(si, []).append((p, a["denote"]))
    for si, s in enumerate(sols):
        out = str(s)
        run.case({"spec": text, "extra": spec.extra_texts(), "out": out}, nontrivial=True,
                 sample={"spec": text, "extra": spec.extra_texts(), "seed": seed, "emitted": out})
        run.count("emitted:" + spec.origin.split(":")[1])
        replay = {"kind": "e2e", "spec": text, "extra": spec.extra_texts(), "programs": spec.programs + spec.extra,
                  "rep": spec.rep, "seed": seed, "emitted": out, "tree": tjs[si]}
        # (i) the reference semantics
        for p, d in verdict.get(si, []):
            if not d:
                sig = "C02/emitted-violates-constraint"
                run.report(sig, f"fuzz(seed={seed}) emitted {out!r}, which violates `{G.cons_text(p)}` "
                                f"(documented meaning, Lean `denote`)", dict(replay, violated=p))
        # (ii) the computed repetition bounds, from the string
        if spec.rep and not rep_oracle(spec.rep["kind"], out):
            run.report("C02/emitted-violates-repetition-bound",
                       f"fuzz(seed={seed}) emitted {out!r}, whose repetition count is outside the computed bounds "
                       f"({spec.rep['kind']})", replay)
        # (iii) a brand-new Fandango object
        try:
            ok_tree = all(c.check(s) for c in fresh_cons)
        except Exception as e:  # noqa: BLE001 — "a constraint whose evaluation raises is not satisfied"
            ok_tree = False
        if not ok_tree:
            run.report("C02/fresh-evaluator-rejects",
                       f"fuzz(seed={seed}) emitted {out!r}, which the constraints of a brand-new Fandango object reject",
                       replay)
        if not spec.extra:
            try:
                forest = list(fresh.grammar.parse_forest(out))
                if len(forest) == 1:
                    run.count("reparse:unambiguous")
                    if not list(fresh.parse(out)):
                        run.report("C02/fresh-parse-rejects",
                                   f"fuzz(seed={seed}) emitted {out!r}, which a brand-new Fandango object does not "
                                   f"accept when it parses the string", replay)
                else:
                    run.count("reparse:ambiguous-or-none")
            except Exception as e:  # noqa: BLE001
                run.count("reparse:raised:" + type(e).__name__)


def replay(path: str) -> int:
    use_repo()
    quiet()
    rp = json.load(open(path))
    if rp.get("no_failing_input_found"):
        print("replay: this file records broken proof obligations / correspondence without a failing input:")
        print(json.dumps({k: rp[k] for k in rp if k in ("what", "broken_obligations", "correspondence")}, indent=1)[:3000])
        return 1
    if rp.get("kind") == "stub":
        run = Run(PID, "quick", "proof")
        corr: list = []
        from fandango.evolution.evaluation import Evaluator
        from fandango.language.symbols import NonTerminal
        from fandango.language.tree import DerivationTree
        StubHard, StubRep = make_stub_classes()
        ev = Evaluator(None, [StubHard(o) for o in rp["hard"]] + [StubRep(o) for o in rp["rep"]], 1.0, 5, 1.0)
        emitted = list(ev.evaluate_individual(DerivationTree(NonTerminal("<s>"))))
        a = driver_ask("drv_cons", [{"op": "emit", "hard": rp["hard"], "rep": rp["rep"]}])[0]
        print("hard:", rp["hard"], "rep:", rp["rep"], "-> real emits:", bool(emitted), " model:", a)
        bad = bool(emitted) and not all(o is not None and o["success"] for o in rp["hard"] + rp["rep"])
        print("replay:", "property violated" if bad else "no violation on the current tree")
        return 1 if bad else 0
    from fandango import Fandango
    fan = Fandango(rp["spec"], use_stdlib=False, use_cache=False, logging_level=logging.CRITICAL)
    sols: list = []
    signal.signal(signal.SIGALRM, _alarm)
    signal.alarm(120)
    try:
        fan.fuzz(desired_solutions=6, max_generations=12, population_size=12, random_seed=rp["seed"],
                 extra_constraints=rp.get("extra") or None, solution_callback=lambda s, i: sols.append(s))
    except Timeout:
        pass
    finally:
        signal.alarm(0)
    outs = [str(s) for s in sols]
    print("spec:", rp["spec"].replace("\n", " ; "), " extra:", rp.get("extra"), " seed:", rp["seed"])
    print("emitted now:", outs, " recorded:", rp["emitted"])
    bad = False
    for s in sols:
        tj = I.tree_json(s)
        ans = driver_ask("drv_cons", [{"op": "eval", "tree": tj, "cons": p} for p in rp["programs"]]) if rp["programs"] else []
        for p, a in zip(rp["programs"], ans):
            if not a["denote"]:
                print(f"FAILS: emitted {str(s)!r} violates `{G.cons_text(p)}`")
                bad = True
        if rp.get("rep") and not rep_oracle(rp["rep"]["kind"], str(s)):
            print(f"FAILS: emitted {str(s)!r} is outside its computed repetition bounds")
            bad = True
    print("replay:", "property violated" if bad else "no violation on the current tree")
    return 1 if bad else 0


def main(tier: str) -> int:
    run = Run(PID, tier, "proof")
    use_repo()
    quiet()
    gen = translate_cons.regenerate()
    refusals = list(gen["refusals"])
    try:
        from harness import translate_fitness
        gf = translate_fitness.regenerate()
        refusals += list(gf.get("refusals", []))
    except ImportError:
        pass
    lean = lean_check("Props.C02", ["drv_cons"])
    for r in refusals:
        lean.broken.append({"module": "Generated", "reason": "translator refused: " + str(r)})
    rng = run.rng("cases")
    corr: list = []
    t0 = time.time()
    stub_differential(run, rng, 3000 if tier == "quick" else 40000, corr)
    run.coverage["stub_cases"] = run.evaluations
    # end-to-end
    # fixed case counts (the time cap is only a safety net against a pathological spec)
    n_batches, cap = (10, 170) if tier == "quick" else (150, 1350)
    specs = corpus_specs()
    emitted = 0
    n_specs = 0
    seeds_for = (lambda: [rng.randint(0, 10 ** 6) for _ in range(2)])
    for sp in specs:
        emitted += run_spec(run, sp, [0, 1, 2], 20, corr)
        n_specs += 1
    for _ in range(n_batches):
        for sp in gen_specs(rng, 6, 2):
            seeds = seeds_for()
            if time.time() - t0 >= cap:
                run.count("spec:skipped-time-cap")
                continue
            emitted += run_spec(run, sp, seeds, 8 if sp.rep is None else 14, corr)
            n_specs += 1
            run.count("spec:" + sp.origin.split(":")[1])
    run.coverage["specs"] = n_specs
    run.coverage["emitted_trees_judged"] = emitted
    run.coverage["traces_validated_against_impl"] = run.evaluations
    run.coverage["correspondence_disagreements"] = len(corr)
    run.coverage["disagreement_samples"] = corr[:5]
    run.coverage["generated_config"] = gen["constants"]
    if emitted == 0:
        raise MachineryError("no spec produced a solution: the end-to-end part of the check did not run")
    if (not lean.ok or corr) and not run.violations:
        what = []
        if not lean.ok:
            what.append("proof obligations of Props/C02.lean no longer check: " + json.dumps(lean.broken)[:600])
        if corr:
            what.append(f"emission model/implementation correspondence broken on {len(corr)} cases, e.g. "
                        + json.dumps(corr[0])[:500])
        run.report("C02/unproved", "; ".join(what),
                   {"broken_obligations": lean.broken, "correspondence": corr[:20]}, no_input=True)
    return run.finish(
        lean,
        rule="(a) 3000+ stub configurations of Evaluator.evaluate_individual: 0-12 hard x 0-6 repetition-bounds "
             "constraints returning chosen (solved,total<=2^20) / value lists / raising, biased to all- and "
             "nearly-all-satisfied; non-trivial = not all satisfied. (b) specs: random grammars x 1-3 generated "
             "constraint programs (quantifier chains over DNF of expr/cmp atoms, half-numeric terminals so int() "
             "raises) + optional extra constraint, and computed-repetition templates {int(<n>)} / {int(<n>),int(<m>)} "
             "with non-numeric alternatives; fuzz(population 12, <=12 generations, 2-3 seeds); every emitted tree is a case",
        trusted_base=TRUSTED)
