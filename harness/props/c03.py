"""C03 — a tree that satisfies all constraints is accepted as a solution.

1. obligations: harness/translate_fitness.py regenerates lean/Generated/Fitness.lean from the current
   source of Evaluator.evaluate_individual / _evaluate_constraints / ConstraintFitness.fitness, then
   Props/C03.lean is built and audited (`#print axioms`).
2. correspondence
   a. Float53 (lean/Model/Float53.lean) vs CPython floats: random operand pairs for + - * /, int->float,
      sum(); compared as exact integer ratios.
   b. the generated class mean / formula / acceptance test + the memo-table model (Model/Emit.lean)
      vs the REAL `Evaluator.evaluate_individual`, driven with stub constraints that return chosen
      ConstraintFitness / DistanceAwareConstraintFitness objects (or raise): for ALL (h, r) in the tier's
      range, an all-satisfied tree (evaluated twice) and a partially satisfied tree; plus every
      declaration order of small constraint multisets.
3. the property on the real code (oracle independent of the model): for every (h, r) the
   all-satisfied tree IS yielded by the first evaluate_individual and NOT by the second; end-to-end
   specs with h trivially true `where` constraints and r computed repetitions: the known solution is
   yielded when evaluated, and in a bounded fuzz() run every evaluated tree on which all real
   constraint objects report success was yielded at its first evaluation.
4. failing-input search = the exhaustive (h, r) scan of 3 (ordered by h + r, so the replay is minimal).
"""
from __future__ import annotations

import contextlib
import io
import itertools
import json
import math
from typing import Any, Optional

from harness import translate_fitness
from harness.common import LEAN, VERIF, MachineryError, Run, _Lock, _run, driver_ask, lean_check, use_repo

PID = "C03"
ONE = ["1", "1"]

TRUSTED = [
    "Lean 4.33.0 kernel; axioms ⊆ {propext, Classical.choice, Quot.sound} (audited per run); `decide +kernel` "
    "for closed witnesses and the two Float cross-check tables",
    "hand-written binary64 model lean/Model/Float53.lean (normal range, no -0.0/inf/nan/subnormals), tied by this "
    "run's operand-pair correspondence with CPython and by two kernel-`Float` tables",
    "translator harness/translate_fitness.py (Python ast -> Generated/Fitness.lean); its reading of the statement "
    "order (cache lookup, arithmetic, acceptance test, cache write) is checked by the evaluator correspondence",
    "hand-written memo-table model lean/Model/Emit.lean (trees identified with their hash keys), tied by the "
    "stub-constraint correspondence against the real Evaluator",
    "`satisfies` is taken at the fitness level: each constraint object's fitness(tree) reports solved == total "
    "(or all values 1.0); that the constraint classes report this exactly when the tree satisfies the "
    "constraint is C02/C07's subject",
    "soft constraints (tdigest scores) are a parameter of the model; C03 has none (s = 0)",
]


# ------------------------------------------------------------------------------------------------
# ratios
# ------------------------------------------------------------------------------------------------

def ratio(x: float) -> list[str]:
    n, d = float(x).as_integer_ratio()
    return [str(n), str(d)]


def ratio_of_json(j: Any) -> tuple[int, int]:
    return int(j[0]), int(j[1])


# ------------------------------------------------------------------------------------------------
# 2a. Float53 vs CPython
# ------------------------------------------------------------------------------------------------

def gen_double(rng) -> float:
    k = rng.random()
    if k < 0.18:
        x = float(rng.randint(0, 64))
    elif k < 0.40:
        n = rng.randint(1, 300)
        x = rng.randint(0, 2 * n) / n
    elif k < 0.50:
        x = float(rng.randint(0, 2 ** 53))
    elif k < 0.60:
        e = rng.randint(-80, 80)
        x = math.ldexp(1.0, e) * rng.choice([1.0, 1.0 + 2.0 ** -52, 1.0 - 2.0 ** -53, 1.5])
    else:
        x = math.ldexp(float(rng.randint(2 ** 52, 2 ** 53 - 1)), rng.randint(-80, 80) - 52)
    if rng.random() < 0.25:
        x = -x
    return x


def ulp(x: float) -> float:
    return math.ulp(x)


def gen_pair(rng, op: str) -> tuple[float, float]:
    a = gen_double(rng)
    if rng.random() < 0.15 and a != 0.0:
        # rounding ties and near-ties
        u = ulp(abs(a))
        if op in ("add", "sub"):
            b = rng.choice([u / 2, -u / 2, 1.5 * u, u / 2 + u / 2 ** 30, u / 4, 3 * u / 4]) * rng.choice([1, 1, 2, 3])
            return a, b
        if op == "mul":
            return a, rng.choice([1.5, 3.0, 1.0 + 2.0 ** -26, 0.1, 1.0 + 2.0 ** -52, 5.0, 7.0])
        return a, rng.choice([3.0, 7.0, 10.0, 49.0, 1.0 + 2.0 ** -52, 6.0])
    b = gen_double(rng)
    return a, b


def py_arith(op: str, a: float, b: float) -> float:
    if op == "add":
        return a + b
    if op == "sub":
        return a - b
    if op == "mul":
        return a * b
    return a / b


def normal_or_zero(x: float) -> bool:
    return x == 0.0 or (math.isfinite(x) and abs(x) >= 2.0 ** -1022)


def check_arith(run: Run, n_per_op: int, failures: list) -> None:
    rng = run.rng("arith")
    for op in ("add", "sub", "mul", "div"):
        pairs = []
        while len(pairs) < n_per_op:
            a, b = gen_pair(rng, op)
            if op == "div" and b == 0.0:
                continue
            pairs.append((a, b))
        reqs = []
        for i in range(0, len(pairs), 1000):
            chunk = pairs[i:i + 1000]
            reqs.append({"op": "arith_batch", "f": op,
                         "pairs": [ratio(a) + ratio(b) for a, b in chunk]})
        answers = driver_ask("drv_fit", reqs)
        got = [r for ans in answers for r in ans["rs"]]
        for (a, b), g in zip(pairs, got):
            want = py_arith(op, a, b)
            run.evaluations += 1
            run.count(f"arith:{op}")
            if isinstance(g, dict):
                run.count("arith:model_out_of_range")
                if normal_or_zero(want):
                    failures.append({"kind": "arith", "op": op, "a": a.hex(), "b": b.hex(), "impl": want.hex(),
                                     "model": "out_of_range"})
                continue
            if not normal_or_zero(want):
                run.count("arith:impl_out_of_range")
                continue
            if ratio_of_json(g) != want.as_integer_ratio():
                failures.append({"kind": "arith", "op": op, "a": a.hex(), "b": b.hex(), "impl": want.hex(),
                                 "model": g})
            if want == 0.0:
                run.count("arith:zero_result")
    # int -> float
    ns = [0, 1, 2 ** 53 - 1, 2 ** 53, 2 ** 53 + 1, 2 ** 53 + 2, 2 ** 53 + 3, 2 ** 54 - 1, 2 ** 54 + 2, 2 ** 54 + 6, 10 ** 22,
          10 ** 23]
    ns += [rng.randint(0, 2 ** rng.randint(1, 80)) for _ in range(300)]
    ans = driver_ask("drv_fit", [{"op": "ofnat", "n": str(n)} for n in ns])
    for n, a in zip(ns, ans):
        run.evaluations += 1
        run.count("arith:ofnat")
        if ratio_of_json(a["r"]) != float(n).as_integer_ratio():
            failures.append({"kind": "ofnat", "n": str(n), "impl": float(n).hex(), "model": a["r"]})
    # sum()
    pool = [1.0, 1.0, 0.5, 0.1, 0.2, 0.3, 1 / 3, 2 / 3, 0.0, 0.9, 1e-3, 0.7, 1e16, -1e16, 3.0, 1e-17, 0.25]
    lists = [[], [1.0], [0.1, 0.2, 0.3], [1e16, 1.0, -1e16], [1.0] * 50, [0.1] * 10]
    for _ in range(400):
        lists.append([rng.choice(pool) if rng.random() < 0.8 else gen_double(rng) for _ in range(rng.randint(0, 9))])
    ans = driver_ask("drv_fit", [{"op": "sum", "vals": [ratio(v) for v in vs]} for vs in lists])
    for vs, a in zip(lists, ans):
        run.evaluations += 1
        run.count("arith:sum")
        want = float(sum(vs))
        if ratio_of_json(a["r"]) != want.as_integer_ratio():
            failures.append({"kind": "sum", "vals": [v.hex() for v in vs], "impl": want.hex(), "model": a["r"]})


# ------------------------------------------------------------------------------------------------
# 2b / 3. the real Evaluator with stub constraints
# ------------------------------------------------------------------------------------------------

_CUR: list = [None]          # outcomes of the tree being evaluated, indexed by stub idx
_CLS: dict = {}


def stub_classes():
    if _CLS:
        return _CLS
    from fandango.constraints.constraint import Constraint
    from fandango.constraints.repetition_bounds import RepetitionBoundsConstraint

    class _Mixin:
        def fitness(self, tree, scope=None, local_variables=None):  # noqa
            o = _CUR[0][self.idx]
            if o is None:
                raise RuntimeError("stub constraint raises")
            return o

        def accept(self, visitor):  # noqa
            pass

        def format_as_spec(self):  # noqa
            return f"stub{self.idx}"

        def invert(self):  # noqa
            return self

    class StubHard(_Mixin, Constraint):
        def __init__(self, idx):
            Constraint.__init__(self)
            self.idx = idx

    class StubRep(_Mixin, RepetitionBoundsConstraint):
        def __init__(self, idx):
            Constraint.__init__(self)     # not RepetitionBoundsConstraint.__init__: no grammar node needed
            self.idx = idx

    _CLS.update(hard=StubHard, rep=StubRep)
    return _CLS


_GRAMMAR: list = []


def tiny_grammar():
    if not _GRAMMAR:
        from fandango.language.parse.parse import parse
        g, _ = parse('<start> ::= "a"\n', use_stdlib=False, use_cache=False)
        _GRAMMAR.append(g)
    return _GRAMMAR[0]


def make_tree(label: str):
    from fandango.language.tree import DerivationTree
    from fandango.language.symbols import NonTerminal, Terminal
    return DerivationTree(NonTerminal("<start>"), [DerivationTree(Terminal(label))])


_OUTCOME_CACHE: dict = {}


def real_outcome(spec: tuple):
    """spec -> the object the stub's fitness() returns (None = raise)"""
    if spec in _OUTCOME_CACHE:
        return _OUTCOME_CACHE[spec]
    from fandango.constraints.fitness import ConstraintFitness, DistanceAwareConstraintFitness
    from fandango.constraints.failing_tree import NopSuggestion
    if spec[0] == "cf":
        o = ConstraintFitness(spec[1], spec[2], spec[1] == spec[2] and spec[2] > 0, NopSuggestion())
    elif spec[0] == "da":
        vals = [float.fromhex(v) for v in spec[1]]
        o = DistanceAwareConstraintFitness(vals, NopSuggestion(), success=all(v == 1.0 for v in vals))
    elif spec[0] == "raise":
        o = None
    else:
        raise AssertionError(spec)
    _OUTCOME_CACHE[spec] = o
    return o


_MODEL_CACHE: dict = {}


def model_outcome(spec: tuple) -> list:
    o = _MODEL_CACHE.get(spec)
    if o is None:
        if spec[0] == "cf":
            o = ["cf", spec[1], spec[2]]
        elif spec[0] == "da":
            o = ["da", [ratio(float.fromhex(v)) for v in spec[1]]]
        else:
            o = ["raise"]
        _MODEL_CACHE[spec] = o
    return o


SAT_SPECS = [("cf", 1, 1), ("cf", 1, 1), ("cf", 2, 2), ("cf", 3, 3), ("cf", 7, 7), ("cf", 49, 49), ("cf", 1000, 1000),
             ("da", (1.0.hex(),)), ("da", (1.0.hex(),) * 3), ("da", (1.0.hex(),) * 10)]
DA_VALUES = [1.0, 1.0, 0.0, 0.5, 1 / 3, 0.9, 0.1, 0.75, 2 / 3, 0.999]


def gen_unsat(rng) -> tuple:
    k = rng.random()
    if k < 0.45:
        t = rng.randint(1, 12)
        return ("cf", rng.randint(0, t - 1), t)
    if k < 0.55:
        return ("cf", 0, 0)
    if k < 0.9:
        vs = tuple(rng.choice(DA_VALUES).hex() for _ in range(rng.randint(1, 6)))
        if all(float.fromhex(v) == 1.0 for v in vs):
            vs = vs + ((0.5).hex(),)
        return ("da", vs)
    return ("raise",)


def rle(items: list) -> list:
    """run-length encode consecutive equal model outcomes: ["rep", n, C]"""
    out: list = []
    for it in items:
        if out and (out[-1][2] is it or out[-1][2] == it):
            out[-1][1] += 1
        else:
            out.append(["rep", 1, it])
    return [g[2] if g[1] == 1 else g for g in out]


class Case:
    """one evaluator: declared kinds (in declaration order) and a sequence of trees to evaluate"""

    def __init__(self, kinds: list[str], trees: list[tuple[str, list[tuple]]]):
        self.kinds = kinds          # "h" | "r" per declared constraint
        self.trees = trees          # (label, per-declared-constraint spec)

    def to_json(self) -> dict:
        return {"kinds": "".join(self.kinds), "trees": [[lbl, [list(s) if s[0] != "da" else ["da", list(s[1])] for s in specs]]
                                                        for lbl, specs in self.trees]}

    @staticmethod
    def from_json(j: dict) -> "Case":
        def sp(s):
            return ("da", tuple(s[1])) if s[0] == "da" else tuple(s)
        return Case(list(j["kinds"]), [(lbl, [sp(s) for s in specs]) for lbl, specs in j["trees"]])

    def model_request(self) -> dict:
        seq = []
        keys: dict[str, int] = {}
        for lbl, specs in self.trees:
            k = keys.setdefault(lbl, len(keys))
            hard = [model_outcome(s) for s, kd in zip(specs, self.kinds) if kd == "h"]
            rep = [model_outcome(s) for s, kd in zip(specs, self.kinds) if kd == "r"]
            seq.append({"key": str(k), "hard": rle(hard), "rep": rle(rep), "s": 0, "softMean": ONE})
        return {"op": "eval", "expected": ONE, "seq": seq}

    def run_real(self, expected: float = 1.0) -> list[dict]:
        from fandango.evolution.evaluation import Evaluator
        cls = stub_classes()
        cons = [cls["hard"](i) if kd == "h" else cls["rep"](i) for i, kd in enumerate(self.kinds)]
        ev = Evaluator(tiny_grammar(), cons, expected, 5, 1.0)
        h, r = self.kinds.count("h"), self.kinds.count("r")
        if (len(ev._hard_constraints), len(ev._repetition_bounds_constraints), len(ev._soft_constraints)) != (h, r, 0):
            raise MachineryError("Evaluator did not classify the stub constraints as declared")
        objs: dict[str, Any] = {}
        out = []
        sink = io.StringIO()
        for lbl, specs in self.trees:
            tree = objs.setdefault(lbl, make_tree(lbl))
            _CUR[0] = [real_outcome(s) for s in specs]
            gen = ev.evaluate_individual(tree)
            yielded = []
            err = None
            res = None
            with contextlib.redirect_stderr(sink):
                try:
                    while True:
                        yielded.append(next(gen))
                except StopIteration as stop:
                    res = stop.value
                except Exception as e:  # noqa  evaluate_individual itself raised
                    err = type(e).__name__
            if err is not None:
                out.append({"emitted": len(yielded) > 0, "fitness": ["0", "1"], "n_yielded": len(yielded),
                            "same_tree": all(y is tree for y in yielded), "error": err})
                continue
            fit = res[0]
            if isinstance(fit, int):
                fit = float(fit)
            out.append({"emitted": len(yielded) > 0, "fitness": ratio(fit), "n_yielded": len(yielded),
                        "same_tree": all(y is tree for y in yielded)})
        _CUR[0] = None
        return out


def sat_specs(rng, n: int, plain: bool) -> list[tuple]:
    """n satisfied outcomes; flavours come in up to 4 blocks (keeps the model request run-length small)"""
    if plain or n == 0:
        return [("cf", 1, 1)] * n
    cuts = sorted(rng.randint(0, n) for _ in range(rng.randint(0, 3)))
    out: list[tuple] = []
    prev = 0
    for c in cuts + [n]:
        out += [rng.choice(SAT_SPECS)] * (c - prev)
        prev = c
    return out


def is_sat(spec: tuple) -> bool:
    if spec[0] == "cf":
        return spec[1] == spec[2] and spec[2] > 0
    if spec[0] == "da":
        return len(spec[1]) > 0 and all(float.fromhex(v) == 1.0 for v in spec[1])
    return False


def hr_case(rng, h: int, r: int, interleave: bool) -> Case:
    kinds = ["h"] * h + ["r"] * r
    if interleave:
        rng.shuffle(kinds)
    n = h + r
    sat = sat_specs(rng, n, plain=rng.random() < 0.5)
    trees = [("sat", sat), ("sat", sat)]
    if n > 0 and (n <= 128 or n % 3 == 0):
        part = list(sat)
        for _ in range(rng.choice([1, 1, 2, 3])):
            part[rng.randrange(n)] = gen_unsat(rng)
        trees.append(("part", part))
    return Case(kinds, trees)


def compare_case(run: Run, case: Case, real: list[dict], model: dict, corr_failures: list, tag: str) -> None:
    """correspondence + the property on one evaluator"""
    steps = model["steps"]
    h, r = case.kinds.count("h"), case.kinds.count("r")
    for i, ((lbl, specs), re_, mo) in enumerate(zip(case.trees, real, steps)):
        run.count(f"{tag}:trees")
        if re_.get("error") or \
                (re_["emitted"], ratio_of_json(re_["fitness"])) != (mo["emitted"], ratio_of_json(mo["fitness"])):
            corr_failures.append({"kind": "evaluator", "case": case.to_json(), "step": i,
                                  "impl": {"emitted": re_["emitted"], "fitness": re_["fitness"], "error": re_.get("error")},
                                  "model": {"emitted": mo["emitted"], "fitness": mo["fitness"]}})
        if re_["n_yielded"] > 1 or not re_["same_tree"]:
            run.report("C03/yield-shape", f"evaluate_individual yielded {re_['n_yielded']} objects / not the evaluated tree",
                       {"kind": "case", "case": case.to_json()})
    # the property, with an oracle that does not use the model
    seen: set[str] = set()
    for (lbl, specs), re_ in zip(case.trees, real):
        first = lbl not in seen
        seen.add(lbl)
        all_sat = all(is_sat(s) for s in specs)
        if all_sat and first:
            run.count(f"{tag}:satisfied_first_seen")
            if not re_["emitted"]:
                n, d = ratio_of_json(re_["fitness"])
                sig = "C03/raises" if re_.get("error") else "C03/rounding" if n < d else "C03/not-emitted"
                how = f"evaluate_individual raised {re_['error']}" if re_.get("error") else f"fitness {n / d!r} = {n}/{d}"
                run.report(sig, f"h={h} hard and r={r} repetition-bounds constraints, all satisfied "
                                f"(declared {''.join(case.kinds)[:40]}): {how}, the tree is NOT "
                                f"yielded by its first evaluate_individual",
                           {"kind": "case", "case": case.to_json(), "h": h, "r": r, "spec": e2e_spec(h, r) if h + r <= 40 else None})
                run.count(f"{tag}:satisfied_not_emitted")
        elif all_sat and not first:
            run.count(f"{tag}:satisfied_second_seen")
            if re_["emitted"]:
                run.report("C03/emitted-twice", f"h={h}, r={r}: the satisfied tree is yielded again on its second evaluation",
                           {"kind": "case", "case": case.to_json(), "h": h, "r": r})


def run_cases(run: Run, cases: list[Case], corr_failures: list, tag: str) -> None:
    for i in range(0, len(cases), 1500):
        chunk = cases[i:i + 1500]
        reals = [c.run_real() for c in chunk]
        models = driver_ask("drv_fit", [c.model_request() for c in chunk], timeout=900)
        for c, re_, mo in zip(chunk, reals, models):
            h, r = c.kinds.count("h"), c.kinds.count("r")
            run.case([tag, "".join(c.kinds), c.to_json()["trees"][-1]], h + r >= 2,
                     {"h": h, "r": r, "declared": "".join(c.kinds)[:32],
                      "impl": [(x["emitted"], x["fitness"]) for x in re_]} if (h, r) in ((1, 5), (3, 2)) else None)
            compare_case(run, c, re_, mo, corr_failures, tag)


# ------------------------------------------------------------------------------------------------
# end-to-end specs
# ------------------------------------------------------------------------------------------------

WHERE_FORMS = ['where int(<n>) + {i} == {j}', 'where str(<n>) == "1"', 'where len(str(<n>)) + {i} == {j}',
               'where int(<n>) == 1 and len(str(<start>)) + {i} > {i}']


def e2e_spec(h: int, r: int) -> str:
    s = "<start> ::= <n>" + "".join(f" <a{i}>{{int(<n>)}}" for i in range(r)) + '\n<n> ::= "1"\n'
    for i in range(r):
        s += f'<a{i}> ::= "{chr(97 + i % 26)}"\n'
    for i in range(h):
        s += WHERE_FORMS[i % len(WHERE_FORMS)].format(i=i, j=i + 1) + "\n"
    return s


def e2e_word(h: int, r: int) -> str:
    return "1" + "".join(chr(97 + i % 26) for i in range(r))


def all_success(ev, tree) -> Optional[bool]:
    """the real constraint objects' own verdicts (`.success`), independent of the float arithmetic.
    Each constraint is asked with an empty memo table (a cache hit would `copy` the cached fitness, and
    deep-copying a non-trivial repair suggestion fails)."""
    ok = True
    for c in ev._hard_constraints + ev._repetition_bounds_constraints:
        saved = c.cache
        c.cache = {}
        try:
            ok = bool(c.fitness(tree).success) and ok
        except Exception:  # noqa
            return None
        finally:
            c.cache = saved
    return ok


def e2e_one(run: Run, h: int, r: int, seed: int, do_fuzz: bool) -> list[str]:
    """returns violation messages"""
    import logging
    import random
    from fandango import Fandango
    bad: list[str] = []
    sink = io.StringIO()
    with contextlib.redirect_stderr(sink):
        fan = Fandango(e2e_spec(h, r), logging_level=logging.CRITICAL)
        random.seed(seed)
        records: list = []
        # (1) the known solution, parsed and evaluated directly
        trees = list(fan.grammar.parse_forest(e2e_word(h, r)))
        if not trees:
            raise MachineryError(f"e2e: the known solution of spec(h={h}, r={r}) does not parse")
        fan.init_population(population_size=6)       # a fresh FandangoStrategy (fuzz() would build another one)
        ev = fan.fandango.evaluator
        if (len(ev._hard_constraints), len(ev._repetition_bounds_constraints), len(ev._soft_constraints)) != (h, r, 0):
            run.count("e2e:class_sizes_differ")
            return bad
        orig = ev.evaluate_individual

        seen: set = set()

        def canon(t):
            # the harness's own notion of "the same tree" (symbols, parties, shape), independent of
            # DerivationTree.__hash__ and of whatever key the evaluator uses for its caches
            sym = t.symbol
            return (type(sym).__name__, repr(getattr(sym, "_value", None) if hasattr(sym, "_value") else str(sym)),
                    str(sym), t.sender, t.recipient, tuple(canon(c) for c in t._children))

        def wrapped(individual):
            key = (canon(individual.get_root()), canon(individual))
            first = key not in seen
            seen.add(key)
            gen = orig(individual)
            yielded = 0
            try:
                while True:
                    x = next(gen)
                    yielded += 1
                    yield x
            except StopIteration as stop:
                res = stop.value
            except Exception as e:  # noqa  evaluate_individual itself raised
                if first:
                    records.append((individual, yielded, f"raised {type(e).__name__}", all_success(ev, individual)))
                raise
            if first:
                records.append((individual, yielded, res[0], all_success(ev, individual)))
            return res

        ev.evaluate_individual = wrapped
        try:
            if do_fuzz:
                list(itertools.islice(fan.generate_solutions(max_generations=3), 3))     # ALWAYS bounded
        except Exception:  # noqa  recorded by `wrapped` when it came from evaluate_individual
            run.count("e2e:fuzz_raised")
        for t in trees:
            fan.grammar.populate_sources(t)
            try:
                for _ in wrapped(t):
                    pass
            except Exception:  # noqa
                run.count("e2e:evaluate_raised")
    n_sat = 0
    for tree, yielded, fit, ok in records:
        run.count("e2e:trees_evaluated")
        if ok is None:
            run.count("e2e:verdict_unavailable")
        if ok:
            n_sat += 1
            run.count("e2e:satisfied_trees")
            if yielded != 1:
                bad.append(("C03/raises: " if isinstance(fit, str) else "C03/rounding: " if fit < 1.0 else "C03/not-emitted: ") + f"spec(h={h}, r={r}): tree {str(tree)!r} satisfies all {h}+{r} constraints (every constraint "
                           f"object reports success) but was not yielded at its first evaluation; fitness {fit!r}")
    if n_sat == 0:
        # the parsed known solution is either in the records or was evaluated during the fuzz run
        run.count("e2e:no_satisfied_tree_seen")
    return bad


# ------------------------------------------------------------------------------------------------
# replay
# ------------------------------------------------------------------------------------------------

TWIN_SPECS = [
    # (spec, word whose derivation satisfies the bounds, word from which the violating same-shaped twin is built)
    ('<start> ::= <n> <item>{int(<n>)} <item>*\n<n> ::= "1" | "2" | "3"\n<item> ::= "x"\n', "1xx", "2xx"),
    ('<start> ::= <n> <a>{int(<n>)} <a>?\n<n> ::= "1" | "2"\n<a> ::= "a"\n', "1aa", "2aa"),
    ('<start> ::= <n> <item>{int(<n>)} <rest>\n<rest> ::= <item>*\n<n> ::= "1" | "2"\n<item> ::= "x" | "y"\n'
     'where str(<start>) != "zz"\n', "1xy", "2xy"),
]


def tag_twin_probe(run: Run) -> list:
    """evaluate (on ONE real Evaluator) the twin `replace(<n> of `big` := <n> of `good`)` - same text and shape as the
    parse of `good`, but carrying the origin tags of `big`, so its repetition bound is violated - and then the parse of
    `good`, which satisfies everything and is seen for the first time: it must be yielded."""
    import logging
    from fandango import Fandango
    from fandango.evolution.evaluation import Evaluator
    out = []
    for spec, good, big in TWIN_SPECS:
        try:
            f = Fandango(spec, use_stdlib=False, use_cache=False, logging_level=logging.CRITICAL)
            ev = Evaluator(f.grammar, list(f.constraints), 1.0, 5, 1.0)
            t_good, t_big = f.grammar.parse(good), f.grammar.parse(big)
            if t_good is None or t_big is None:
                run.count("twin:spec-does-not-parse")
                continue
            twin = t_big.replace(f.grammar, t_big.children[0], t_good.children[0])

            def evaluate(t):
                g = ev.evaluate_individual(t)
                ys = []
                try:
                    while True:
                        ys.append(next(g))
                except StopIteration as stop:
                    return ys, stop.value[0]
            ys1, fit1 = evaluate(twin)
            sat_twin = all_success(ev, twin)
            sat_good = all_success(ev, t_good)
            ys2, fit2 = evaluate(t_good)
        except Exception as e:  # noqa: BLE001
            run.count("twin:raised:" + type(e).__name__)
            continue
        run.case(["twin", spec, good], True)
        if str(twin) != str(t_good) or sat_good is not True:
            run.count("twin:not-a-twin")
            continue
        run.count("twin:probes")
        run.count("twin:first-tree-violates" if sat_twin is False else "twin:first-tree-satisfies")
        if not any(y is t_good for y in ys2):
            out.append((f"C03/first-seen-not-yielded-after-twin: the parse of {good!r} satisfies every hard constraint and "
                        f"repetition bound and is evaluated for the first time, but it is not yielded (fitness {fit2!r}) "
                        f"after a structurally equal tree with the origin tags of {big!r} (fitness {fit1!r}, bounds "
                        f"{'violated' if sat_twin is False else 'satisfied'}) was evaluated by the same Evaluator",
                        {"kind": "twin", "spec": spec, "good": good, "big": big}))
    return out


def replay(path: str) -> int:
    use_repo()
    rp = json.load(open(path))
    kind = rp.get("kind")
    bad: list[str] = []
    if kind == "case":
        case = Case.from_json(rp["case"])
        real = case.run_real()
        seen: set[str] = set()
        for (lbl, specs), re_ in zip(case.trees, real):
            first = lbl not in seen
            seen.add(lbl)
            n, d = ratio_of_json(re_["fitness"])
            print(f"tree {lbl!r}: fitness {n}/{d} = {n / d!r} emitted={re_['emitted']}"
                  + (f" RAISED {re_['error']}" if re_.get("error") else ""))
            if all(is_sat(s) for s in specs):
                if first and not re_["emitted"]:
                    bad.append(f"all {len(specs)} constraints satisfied, first evaluation, not yielded (fitness {n / d!r})")
                if not first and re_["emitted"]:
                    bad.append("yielded again on the second evaluation")
        if rp.get("spec"):
            print("a spec that realises these counts:\n" + rp["spec"])
            bad += e2e_one(Run(PID, "quick", "proof"), rp["h"], rp["r"], 0, True)
    elif kind == "e2e":
        bad += e2e_one(Run(PID, "quick", "proof"), rp["h"], rp["r"], rp.get("fuzz_seed", 0), True)
    elif kind == "twin":
        bad += [m for m, _ in tag_twin_probe(Run(PID, "quick", "proof"))]
    elif kind == "unproved":
        gen = translate_fitness.regenerate()
        lean = lean_check("Props.C03", ["drv_fit"])
        print("translator refusals:", gen["refusals"])
        print("broken obligations:", json.dumps(lean.broken)[:1500])
        for c in rp.get("correspondence", [])[:5]:
            print("recorded correspondence disagreement:", json.dumps(c)[:400])
        if gen["refusals"] or not lean.ok:
            bad.append("the proof obligations of Props/C03.lean do not check against the current source")
        if rp.get("correspondence"):
            fails: list = []
            for c in rp["correspondence"]:
                if c.get("kind") == "evaluator":
                    case = Case.from_json(c["case"])
                    mo = driver_ask("drv_fit", [case.model_request()])[0]
                    re_ = case.run_real()
                    for i, (a, b) in enumerate(zip(re_, mo["steps"])):
                        if (a["emitted"], ratio_of_json(a["fitness"])) != (b["emitted"], ratio_of_json(b["fitness"])):
                            fails.append(i)
            if fails:
                bad.append("model and implementation still disagree on the recorded evaluator case(s)")
    else:
        print("unknown replay kind", kind)
        return 2
    for b in bad:
        print("FAILS:", b)
    print("replay:", "property violated" if bad else "no violation on the current tree")
    return 1 if bad else 0


# ------------------------------------------------------------------------------------------------
# main
# ------------------------------------------------------------------------------------------------

def order_cases(rng, n_max: int, sets_per_n: int) -> list[Case]:
    """every declaration order of small constraint multisets (distinct fitness values, both classes)"""
    cases = []
    for n in range(1, n_max + 1):
        for _ in range(sets_per_n if n < 6 else max(1, sets_per_n // 4)):
            kinds = [rng.choice("hr") for _ in range(n)]
            part = [gen_unsat(rng) if rng.random() < 0.7 else rng.choice(SAT_SPECS) for _ in range(n)]
            sat = [rng.choice(SAT_SPECS) for _ in range(n)]
            for perm in itertools.permutations(range(n)):
                cases.append(Case([kinds[i] for i in perm],
                                  [("part", [part[i] for i in perm]), ("sat", [sat[i] for i in perm]),
                                   ("part", [part[i] for i in perm])]))
    return cases


def main(tier: str) -> int:
    run = Run(PID, tier, "proof")
    use_repo()
    gen = translate_fitness.regenerate()
    lean = lean_check("Props.C03", ["drv_fit"])
    for ref in gen["refusals"]:
        lean.broken.append({"module": "Generated.Fitness", "reason": "translator refused: " + ref})
    run.coverage["generated_formula"] = gen["formula"]
    run.coverage["acceptance_test"] = gen["emit"]
    model_usable = not gen["refusals"] and lean.ok
    if not gen["refusals"] and not lean.ok:
        # the theorems broke but the generated definitions may still compile: rebuild the driver alone so
        # that the correspondence still runs against the *current* formula (never against a stale binary)
        with _Lock():
            rc, _log = _run(["lake", "build", "drv_fit"], LEAN, 900)
        model_usable = rc == 0
        run.count("driver_rebuilt_after_broken_obligations" if rc == 0 else "driver_does_not_build")
    if not model_usable:
        # the driver links against Generated/Fitness.lean; without it only the real code can be examined
        run.count("model_unavailable")
    corr_failures: list = []
    quick = tier == "quick"

    # ---- 2a. arithmetic
    if model_usable:
        check_arith(run, 6000 if quick else 60000, corr_failures)

    # ---- 2b + 3. all (h, r), ordered by h + r so the first violation is minimal
    rng = run.rng("cases")
    hi = 128 if quick else 160
    pairs = sorted(((h, r) for h in range(hi + 1) for r in range(hi + 1)), key=lambda p: (p[0] + p[1], p[0]))
    if not quick:
        r2 = run.rng("sampled")
        pairs += [(r2.randint(0, 1024), r2.randint(0, 1024)) for _ in range(2500)]
        pairs += [(0, 2 ** 14), (2 ** 14, 0), (1, 2 ** 15 - 1), (12345, 54321)]
    cases = [hr_case(rng, h, r, interleave=(i % 3 != 0)) for i, (h, r) in enumerate(pairs)]
    # corpus: the pairs the pre-fix arithmetic lost, in plain form
    corpus_pairs = [(1, 5), (0, 49), (5, 1), (2, 7), (3, 11), (1, 2), (0, 0), (1, 0), (0, 1)]
    cfile = VERIF / "corpus" / "C03" / "hr_pairs.json"
    if cfile.exists():
        corpus_pairs += [tuple(p) for p in json.loads(cfile.read_text())["pairs"] if tuple(p) not in corpus_pairs]
    corpus = [Case(["h"] * h + ["r"] * r, [("sat", [("cf", 1, 1)] * (h + r))] * 2) for h, r in corpus_pairs]
    if model_usable:
        run_cases(run, corpus, corr_failures, "corpus")
        run_cases(run, cases, corr_failures, "hr")
        run_cases(run, order_cases(run.rng("orders"), 4 if quick else 6, 12 if quick else 16), corr_failures, "orders")
    else:
        # failing-input search on the real code alone
        for c in corpus + cases:
            real = c.run_real()
            fake = {"steps": [{"emitted": x["emitted"], "fitness": x["fitness"]} for x in real]}
            run.case(["hr-impl-only", "".join(c.kinds)], len(c.kinds) >= 2)
            compare_case(run, c, real, fake, [], "hr-impl-only")
    run.coverage["hr_range"] = f"all (h, r) in [0,{hi}]^2 (partially satisfied tree: all with h + r <= 128, every third beyond)" + ("" if quick else " + 2500 sampled pairs in [0,1024]^2 + 4 large")

    # ---- 3b. end-to-end specs
    e2e_pairs = [(1, 5), (0, 3), (3, 0), (2, 7)] if quick else \
        [(1, 5), (0, 3), (3, 0), (2, 7), (5, 1), (3, 11), (0, 0), (4, 4), (1, 2), (7, 2), (2, 13), (6, 6), (1, 9), (9, 1)]
    for i, (h, r) in enumerate(e2e_pairs):
        run.case(["e2e", h, r], True)
        for msg in e2e_one(run, h, r, run.seed * 1000 + i, True):
            run.report(msg.split(":")[0], msg.split(": ", 1)[1], {"kind": "e2e", "h": h, "r": r, "fuzz_seed": run.seed * 1000 + i,
                                             "spec": e2e_spec(h, r)})
    # ---- 3c. "the first time it is seen", with a history: a tree that satisfies everything is evaluated AFTER a
    # structurally equal tree (same symbols and shape, other origin tags) that violates a repetition bound
    for msg, rp in tag_twin_probe(run):
        run.report(msg.split(":")[0], msg.split(": ", 1)[1], rp)
    if run.counters.get("e2e:satisfied_trees", 0) < len(e2e_pairs):
        raise MachineryError("end-to-end: fewer satisfied trees were observed than specs were run (vacuous)")

    # ---- verdict on broken obligations / correspondence
    run.coverage["traces_validated_against_impl"] = run.evaluations
    run.coverage["correspondence_disagreements"] = len(corr_failures)
    run.coverage["disagreement_samples"] = corr_failures[:5]
    if (not lean.ok or corr_failures) and not run.violations and not run.known_hits:
        what = []
        if not lean.ok:
            what.append("proof obligations of Props/C03.lean no longer check against the current source: "
                        + json.dumps(lean.broken)[:700])
        if corr_failures:
            what.append(f"model/implementation correspondence broken on {len(corr_failures)} cases, e.g. "
                        + json.dumps(corr_failures[0])[:500])
        run.report("C03/unproved", "; ".join(what),
                   {"kind": "unproved", "broken_obligations": lean.broken, "correspondence": corr_failures[:20],
                    "searched": run.coverage["hr_range"]}, no_input=True)
    return run.finish(
        lean,
        rule="(2a) operand pairs for + - * / (small ints, k/n, ints < 2^53, powers of two and neighbours, random 53-bit "
             "mantissas with exponents in [-80, 80], 15% rounding ties / near ties), int->float, sum(); (2b) one real "
             "Evaluator per (h, r) with stub constraints in random declaration order: an all-satisfied tree (flavours: "
             "ConstraintFitness n/n, DistanceAware all-ones) twice + a tree with 1-3 unsatisfied / raising constraints; "
             "all permutations of small constraint multisets; (3) bounded end-to-end fuzz runs. A case is non-trivial "
             "when h + r >= 2",
        trusted_base=TRUSTED)
