"""C04 — parsing is sound: every yielded tree derives exactly the input.

1. obligations: Props/C04.lean (built, axiom-audited): the verified checker's verdict is a language witness, a
   valid tree holds no helper symbol, chart soundness of the Earley model (every policy / prediction order / scanner),
   helper collapsing preserves derivations, the model parser is sound (trees valid, rooted at the requested start,
   leaves tile the input; with the alignment guard the source has now: payload leaves on cell boundaries), the API
   filter; and, labelled OLD, the machine-checked witness that the scanner before /repo a33087ac was NOT sound for
   payload terminals off the byte boundary (replayed on the implementation: it must yield no tree now).
2. the property on the real code (independent of the model parser), on generated (grammar, start, input):
   `Grammar.parse_forest` in COMPLETE mode in a worker; EVERY yielded tree is
     (a) judged by the verified derivation checker `validB` (drv_ir; sound and complete for `Valid`),
     (b) serialised (str / bytes / bits) and compared with the input,
     (c) searched for helper symbols `<__…>` / `<*…*>`; its root must be the requested start symbol.
3. correspondence: the same case through the Lean Earley model (drv_earley, the variant of the parser that
   harness/translate_earley.py reads from the source, the recorded prediction order, CPython `re.match` as greedy
   oracle): same outcome and the same forest.
4. API level: generated specs with constraints; `Fandango(spec).parse(w)`: every yielded tree must be a tree of
   the unfiltered forest, pass (a)–(c) and satisfy every constraint under the Lean reference semantics `denote`
   (drv_cons) — so an input outside the constrained language yields nothing.
"""
from __future__ import annotations

import ast
import json
import re
from pathlib import Path
from typing import Any, Optional

from harness.common import VERIF, MachineryError, Run, driver_ask, lean_check, use_repo
from harness.gen import cons as G
from harness.gen import earley_cases as gen
from harness.impl import earley_io as eio
from harness.impl import grammar_io as gio
from harness.impl.pool import run_pool

PID = "C04"
CORPUS = VERIF / "corpus" / "C04"
SIG_MISALIGNED = "C04/payload-terminal-scanned-off-byte-boundary"
SIG_WIDE = "C04/bits-of-wide-character"

TRUSTED = [
    "Lean 4.33.0 kernel; axioms ⊆ {propext, Classical.choice, Quot.sound} (audited per run); `decide` only for the "
    "finite witnesses",
    "hand-written model lean/Model/Earley.lean of iterative_parser.py (one-shot COMPLETE mode; shared with C06), tied per run "
    "by the forest comparison of this check (and the per-column state comparison of C06); prefix mode, incomplete "
    "states, computed repetitions, generators are not modelled",
    "translator harness/translate_earley.py: which variant of the parser the source is (admission policy, {n,} compilation, "
    "completing predict, the three scanner guards) — pinned source shapes, anything else is refused",
    "harness/impl/grammar_io.py (real grammar -> IR JSON, real tree -> tree JSON); the IR handed to the checker has its "
    "literals coerced to the input's type through Latin-1, as `Terminal.check` compares them",
    "regexes: CPython `re.fullmatch` (checker oracle) and `re.match` (greedy length oracle of the model)",
    "constraints: the atom language of lean/Model/Constraint.lean (`denote`); arbitrary Python in constraints is not modelled",
    "harness/impl/earley_io.py observe_tree: str(tree) / bytes(tree) / tree.to_bits() are the serialisation (C09's subject)",
]

C04_CORNERS = [
    # (spec, mode, words)  — bits / bytes column arithmetic, multi-byte literals, mixed str/bytes
    ('<start> ::= <b>{4} b"a" <b>{4}\n<b> ::= 0 | 1\n', "bits", [b"a\x7f", b"aa", b"\x6a\x1f"]),
    ('<start> ::= <b>* "a" <b>*\n<b> ::= 0 | 1\n', "bits", [b"a", b"aa", b"a\x00", b"\x00a"]),
    ('<start> ::= 0 b"a" 1 1 1 1 1 1 1\n', "bits", [b"a\x7f", b"\x30\xff"]),
    ('<start> ::= <byte> b"\\xc3\\xa9" <byte>\n<byte> ::= <bit>{8}\n<bit> ::= 0 | 1\n', "bits", [b"A\xc3\xa9B", b"A\xc3B", b"\xc3\xa9"]),
    ('<start> ::= "é€" <x> "日本"\n<x> ::= "a" | "é"\n', "text", ["é€a日本", "é€é日本", "é€日本", "e€a日本"]),
    ('<start> ::= <b>{8}\n<b> ::= 0 | 1\n', "text", ["a", "š", "ab"]),
    ('<start> ::= <b>{8} "š"\n<b> ::= 0 | 1\n', "text", ["aš", "šš"]),
    ('<start> ::= "ab" b"c" "d"\n', "bytes", [b"abcd", b"abd"]),
    ('<start> ::= b"ab" "c" b"d"\n', "text", ["abcd", "abc"]),
    ('<start> ::= ("ab" | "a") ("b" | "bc") "c"?\n', "text", ["abc", "abbc", "ab", "abcc"]),
    ('<start> ::= <x>{2,3} "x"\n<x> ::= "ab" | "a" | "b"\n', "text", ["abx", "ababx", "ax", "aaaax", "abbx"]),
    ('<start> ::= (<d> ","){1,3} <d>\n<d> ::= r"[0-9]+"\n', "text", ["1,2", "12,3,4", "1,", "1,2,3,4,5"]),
    ('<start> ::= <a> | <c>\n<a> ::= "x" <c> | "x"\n<c> ::= "y" | "xy"\n', "text", ["xy", "x", "y", "xxy"]),
]


# ------------------------------------------------------------------------------------------------
# small helpers
# ------------------------------------------------------------------------------------------------

def patterns_of(real: dict) -> list:
    return [ast.literal_eval(p) for p in real.get("regexes", [])]


def coerce_grammar(gj: dict, as_bytes: bool) -> dict:
    """literals in the type of the input (Latin-1), as `Terminal.check` compares them"""
    def node(n):
        t = n[0]
        if t == "lit":
            kind, payload = n[1][0], n[1][1]
            if kind == "t" and as_bytes and all(c < 256 for c in payload):
                return ["lit", ["b", list(payload)]]
            if kind == "b" and not as_bytes:
                return ["lit", ["t", list(payload)]]
            return n
        if t in ("alt", "cat"):
            return [t, n[1], [node(c) for c in n[2]]]
        if t == "rep":
            return [t, n[1], n[2], node(n[3]), n[4], n[5]]
        return n
    return {"rules": [[name, node(body)] for name, body in gj["rules"]]}


def oracle_pairs(patterns: list, trees: list) -> list:
    """[[regexId, leaf]] accepted by re.fullmatch, pattern coerced to the leaf's type through Latin-1"""
    leaves = set()
    for tj in trees:
        leaves.update(x for x in gio.tree_leaves(tj) if x[0] != "i")
    out = []
    for rid, pat in enumerate(patterns):
        for tag, payload in sorted(leaves, key=repr):
            try:
                if tag == "b":
                    p = pat if isinstance(pat, bytes) else pat.encode("latin-1")
                    ok = re.fullmatch(p, bytes(payload)) is not None
                else:
                    p = pat if isinstance(pat, str) else pat.decode("latin-1")
                    ok = re.fullmatch(p, "".join(chr(c) for c in payload)) is not None
            except (re.error, ValueError, UnicodeError):
                ok = False
            if ok:
                out.append([rid, [tag, list(payload)]])
    return out


def leaf_offsets(tj: list) -> list[tuple[int, str, int]]:
    """(bit offset, tag, cells) of every leaf, left to right"""
    out, off = [], 0
    for tag, payload in gio.tree_leaves(tj):
        if tag == "i":
            out.append((off, tag, 1))
            off += 1
        else:
            out.append((off, tag, len(payload)))
            off += 8 * len(payload)
    return out


def misaligned_payload(tj: list) -> bool:
    return any(tag != "i" and off % 8 for off, tag, _ in leaf_offsets(tj))


def bit_over_wide_cell(tj: list, cells: list[int]) -> bool:
    """some bit leaf lies over a cell (code point) above 255"""
    return any(tag == "i" and off // 8 < len(cells) and cells[off // 8] > 255 for off, tag, _ in leaf_offsets(tj))


def mixed_bits_nonascii_text(tj: list) -> bool:
    """bit leaves next to a text leaf with a code point >= 0x80: the str view of such a tree is the Latin-1 reading of
    its UTF-8 bytes (C09; the class of C05/nonascii-text-next-to-binary) — there is no str to compare the input with"""
    ls = list(gio.tree_leaves(tj))
    return any(tag == "i" for tag, _ in ls) and any(tag == "t" and any(c >= 0x80 for c in p) for tag, p in ls)


def has_bits(tj: list) -> bool:
    return any(tag == "i" for _, tag, _ in leaf_offsets(tj))


def current_variant(lean) -> dict:
    """the variant of the parser the source is now (C06's translator; regenerates lean/Generated/Earley.lean).  A refused
    translation is a broken obligation of this check, too; the model then runs as the code was last understood."""
    from harness import translate_earley as te
    info = te.regenerate()
    for rf in info["refusals"]:
        lean.broken.append({"module": "Generated.Earley", "reason": "translator refused: " + rf})
    return info.get("variant") or {"policy": info.get("policy") or "acyclic", "cap": None, "predDone": True,
                                   "aligned": True, "wideGuard": True, "emptyRegex": True}


# ------------------------------------------------------------------------------------------------
# grammar-level cases
# ------------------------------------------------------------------------------------------------

def make_tasks(run: Run, tier: str, variant: dict) -> list[dict]:
    rng = run.rng("cases")
    quick = tier == "quick"
    n_grammars = 100 if quick else 1300
    per = 5 if quick else 8
    max_cells = 6 if quick else 10
    cap_s = 8.0 if quick else 15.0
    grammars: list[dict] = []

    def add(spec: str, mode: str, tags: set, origin: str, words: Optional[list] = None):
        try:
            grammar, _ = eio.parse_spec_guarded(spec, 5.0)
            gj, regexes = gio.grammar_to_json(grammar)
            from fandango.language.grammar import nodes as nodes_mod
            cap = int(getattr(nodes_mod, "MAX_REPETITIONS", 20))
        except Exception as e:  # noqa
            run.count(f"gen_spec_error:{type(e).__name__}")
            return
        grammars.append({"spec": spec, "mode": mode, "tags": set(tags), "origin": origin, "words": words,
                         "gj": gj, "regexes": regexes, "cap": cap})

    if CORPUS.exists():
        for f in sorted(CORPUS.glob("*.json")):
            c = json.loads(f.read_text())
            if c.get("kind", "grammar") == "grammar":
                add(c["spec"], c.get("mode", "text"), {"corpus"}, "corpus", [eio.word_of(c["word"])])
    for spec, mode, words in C04_CORNERS:
        add(spec, mode, {"c04corner"}, "corner", words)
    for spec, mode in gen.HANDWRITTEN + gen.corner_specs():
        ws = [b"ab", b"a", b"", b"a\x00", b"ab\x00", b"abc"] if mode != "text" else ["ab", "aab", "b", "", "a", "abc", "yxy"]
        add(spec, mode, {"handwritten"}, "handwritten", ws[: (4 if quick else 7)])
    for i in range(n_grammars):
        if rng.random() < 0.55:
            spec, mode, tags = gen.stress_spec(rng)
            add(spec, mode, tags, "stress")
        else:
            spec, mode, tags = gen.preset_spec(rng)
            add(spec, mode, tags, "shared")
    comp = driver_ask("drv_earley", [{"op": "compile", "grammar": g["gj"], "cap": variant["cap"]} for g in grammars])
    # words of the language from the REAL fuzzer (worker processes; Grammar.fuzz can be slow on odd grammars)
    fz_cases = []
    for g in grammars:
        names = [n for n, _ in g["gj"]["rules"]]
        g["all_starts"] = rng.random() < 0.3 and len(names) > 1
        g["starts"] = names if g["all_starts"] else (["<start>"] if "<start>" in names else names[:1])
        fz_cases.append({"op": "fuzzwords", "spec": g["spec"], "starts": g["starts"], "n": 2 if quick else 3,
                         "seed": rng.randrange(1 << 30), "binary": g["mode"] != "text", "max_cells": max_cells + 2})
    fz = run_pool("harness.impl.c04_real", fz_cases, nproc=12, per_case_s=20, hard_s=400 if quick else 1500)
    tasks: list[dict] = []
    n_eps = 0
    for g, c, f in zip(grammars, comp, fz):
        eps = bool(c["epscycle"])
        if eps:
            # a grammar with a same-span self-derivation: its forest is finite under the covering cut of `complete`, but
            # the chart can be huge (C06: finite explosions) — a few are kept, with a short wall-clock cap
            n_eps += 1
            if n_eps > (12 if quick else 80):
                run.count("gen:epscycle_skipped")
                continue
        fuzz_by_start: dict[str, list] = {}
        for st, wj in (f.get("words") or []):
            fuzz_by_start.setdefault(st, []).append(eio.word_of(wj))
        if "words" not in f:
            run.count("fuzzwords:" + ("timeout" if f.get("timeout") else "error"))
        for start in g["starts"]:
            ins: list[tuple[Any, str]]
            if g["words"] is not None:
                ins = [(w, "given") for w in g["words"]]
            else:
                ins = gen.inputs_for(g["gj"], g["regexes"].patterns, start, g["mode"], rng,
                                     per if not g["all_starts"] else max(2, per // 2), max_cells)
            fw = fuzz_by_start.get(start, [])
            alpha = gen.alphabet_of(g["gj"], g["mode"] != "text")
            for w in fw:
                ins.append((w, "fuzzer"))
            if fw:
                for w in gen.near_misses(rng.choice(fw), alpha, rng, 2):
                    ins.append((w, "near_miss_of_fuzzed"))
            # the other input type (Terminal.check coerces through Latin-1), only without bit terminals
            if "bits" not in g["tags"] and g["mode"] in ("text", "bytes") and rng.random() < 0.12 and ins:
                w, o = rng.choice(ins)
                try:
                    w2 = w.encode("latin-1") if isinstance(w, str) else w.decode("latin-1")
                    ins.append((w2, "other_type:" + o.split(":")[0]))
                except UnicodeError:
                    pass
            seen = set()
            for w, worigin in ins:
                key = (type(w).__name__, w)
                if key in seen or len(w) > max_cells + 2:
                    continue
                seen.add(key)
                tasks.append({"id": len(tasks), "spec": g["spec"], "start": start, "word": eio.word_json(w),
                              "cap_s": 3.0 if eps else cap_s, "max_trees": 200, "modes": False,
                              "eps_pre": eps, "mode": g["mode"],
                              "tags": sorted(g["tags"]) + [g["origin"], "in:" + worigin.split(":")[0], "mode:" + g["mode"],
                                                           "start:" + ("<start>" if start == "<start>" else "other")]})
    return tasks


def replay_dict(t: dict, extra: Optional[dict] = None) -> dict:
    d = {"kind": "grammar", "spec": t["spec"], "start": t["start"], "word": t["word"], "mode": t.get("mode", "text"),
         "cap_s": max(20.0, float(t.get("cap_s", 5.0))), "max_trees": t.get("max_trees", 200)}
    if extra:
        d.update(extra)
    return d


def valid_requests(real: dict, word: dict) -> list[dict]:
    trees = real.get("forest") or []
    if not trees:
        return []
    gj = coerce_grammar(real["grammar"], word["kind"] == "bytes")
    oracle = oracle_pairs(patterns_of(real), trees)
    return [{"op": "valid", "grammar": gj, "oracle": oracle, "tree": tj} for tj in trees]


def judge_trees(run: Run, t: dict, real: dict, verdicts: list[dict]) -> int:
    """the property on every yielded tree of one case; returns the number of trees judged"""
    word = eio.word_of(t["word"])
    for i, (tj, o, v) in enumerate(zip(real["forest"], real["out"], verdicts)):
        run.count("trees:judged")
        where = f"start {t['start']} input {word!r} grammar {t['spec'].strip()!r}"
        rd = replay_dict(t, {"tree": tj, "tree_index": i})
        if not v["valid"]:
            run.report("C04/invalid-tree", f"parse_forest yields a tree that is NOT a derivation of the grammar (verified "
                       f"checker: first bad node at path {v['bad']}): {where}; tree {json.dumps(tj)[:400]}", rd)
        if o.get("root") != t["start"]:
            run.report("C04/wrong-root", f"yielded tree is rooted at {o.get('root')}, requested {t['start']}: {where}", rd)
        if o.get("helpers"):
            run.report("C04/helper-symbol", f"helper symbols {o['helpers']} inside a yielded tree: {where}", rd)
        if t["word"]["kind"] == "str" and not o.get("value_ok") and mixed_bits_nonascii_text(tj) \
                and not misaligned_payload(tj) and not bit_over_wide_cell(tj, t["word"]["cells"]):
            run.count("value:str_view_of_bits_next_to_nonascii_text_not_compared")
        elif not o.get("value_ok") or o.get("bits_ok") is False:
            got = o.get("value_exc") or o.get("value")
            what = (f"yielded tree does not serialise to the input (got {got!r}, bits_ok={o.get('bits_ok')}): {where}; "
                    f"leaves {[(a, b) for a, b in gio.tree_leaves(tj)][:12]}")
            if misaligned_payload(tj):
                run.count("finding:misaligned_payload")
                if run.counters["finding:misaligned_payload"] <= 3:      # a few witnesses per finding on the console
                    run.report(SIG_MISALIGNED, what + " — a text/bytes terminal was matched at a column that is not a "
                           "multiple of 8 against the whole cell", rd)
            elif t["word"]["kind"] == "str" and bit_over_wide_cell(tj, t["word"]["cells"]):
                run.count("finding:bits_of_wide_character")
                if run.counters["finding:bits_of_wide_character"] <= 3:
                    run.report(SIG_WIDE, what + " — bit terminals read the low 8 bits of a code point above 255", rd)
            else:
                run.report("C04/value-differs", what, rd)
        else:
            run.count("trees:sound")
    return len(real["forest"])


def grammar_phase(run: Run, tier: str, corr: list, variant: dict) -> None:
    run.coverage["variant"] = variant
    tasks = make_tasks(run, tier, variant)
    reals = eio.run_pool(tasks, workers=14, backstop_s=120.0)
    # (0) the compiled helper-rule tables (the prediction order the model is given only orders alternatives)
    bad_tables, n_tables = eio.compile_corr(tasks, reals, variant["cap"])
    corr.extend(bad_tables)
    run.count("corr:compiled_tables_compared", n_tables)
    run.count("corr:compiled_tables_equal", n_tables - len(bad_tables))
    # (a) the verified checker on every real tree
    vreqs, vwhere = [], []
    for i, (t, r) in enumerate(zip(tasks, reals)):
        if "forest" in r and r.get("status") in ("ok", "truncated"):
            rs = valid_requests(r, t["word"])
            vreqs.extend(rs)
            vwhere.extend([i] * len(rs))
    vans = driver_ask("drv_ir", vreqs, timeout=1500) if vreqs else []
    per_case: dict[int, list] = {}
    for i, a in zip(vwhere, vans):
        per_case.setdefault(i, []).append(a)
    # (d) the model parser on the same case
    mreqs, mwhere = [], []
    for i, (t, r) in enumerate(zip(tasks, reals)):
        if "grammar" not in r:
            continue
        st = r["status"]
        if st == "ok" or st == "exc:IndexError":
            m = r.get("meter", {})
            if m.get("adds", 0) > 6000:
                run.count("corr:skipped_big")
                continue
            mreqs.append(eio.model_request(r, t, variant, 40 * (m.get("adds", 0) + m.get("completes", 0)) + 5000))
            mwhere.append(i)
    mans = driver_ask("drv_earley", mreqs, timeout=1500) if mreqs else []
    model: dict[int, dict] = dict(zip(mwhere, mans))
    for i, (t, r) in enumerate(zip(tasks, reals)):
        st = r["status"]
        for tag in t["tags"]:
            run.count("tag:" + tag)
        run.count("real:" + (st if st.startswith("exc:") else st.split(":")[0]))
        if "grammar" not in r:
            continue
        ncells = len(t["word"]["cells"])
        run.count(f"cells:{min(ncells, 12)}")
        run.count("kind:" + t["word"]["kind"])
        nt = len(r.get("forest") or [])
        run.count("forest:" + ("0" if nt == 0 else "1" if nt == 1 else "2-5" if nt <= 5 else ">5"))
        run.case([t["spec"], t["start"], t["word"]], ncells > 0 and (nt > 0 or any(len(c) > 1 for c in (r.get("cols") or [[]])[1:])),
                 {"spec": t["spec"], "start": t["start"], "word": t["word"], "real": st, "trees": nt})
        if st in ("ok", "truncated") and nt:
            judge_trees(run, t, r, per_case.get(i, []))
            if len(per_case.get(i, [])) != nt:
                raise MachineryError("checker answers missing")
        if st.startswith("exc:") and st != "exc:IndexError":
            # an exception escaping parse_forest is not a soundness matter (no tree is yielded); counted, and a
            # disagreement with the model (which only knows IndexError) is recorded
            corr.append({"case": replay_dict(t), "what": f"real parser raised {st}, not modelled"})
            continue
        mp = model.get(i)
        if mp is None:
            continue
        want = "raised" if st.startswith("exc:") else "done"
        if mp["status"] == "fuel":
            corr.append({"case": replay_dict(t), "what": "model ran out of fuel, real finished", "steps": mp["steps"]})
        elif mp["status"] != want:
            corr.append({"case": replay_dict(t), "what": f"real {st}, model {mp['status']}"})
        elif st == "ok":
            if eio.canon_forest(mp["forest"]) != eio.canon_forest(r["forest"]):
                a, b = eio.canon_forest(mp["forest"]), eio.canon_forest(r["forest"])
                corr.append({"case": replay_dict(t), "what": "forests differ", "model": len(a), "real": len(b),
                             "model_only": [x for x in a if x not in b][:2], "real_only": [x for x in b if x not in a][:2]})
            else:
                run.count("corr:forest_equal")
                if nt:
                    run.count("corr:forest_equal_nonempty")
        else:
            run.count("corr:raised_equal")


# ------------------------------------------------------------------------------------------------
# API level
# ------------------------------------------------------------------------------------------------

def cp(s: str) -> list[int]:
    return [ord(c) for c in s]


def api_corpus() -> list[dict]:
    out = []
    g1 = '<start> ::= <x> <x>\n<x> ::= "a" | "1"\n'
    out.append({"gtext": g1, "programs": [["cmp", ["i", "==", ["int", ["ph", 0]], ["lit", 1]], [["rule", "<x>"]]]],
                "words": ["aa", "a1", "11", "1a", "1"], "origin": "corpus:F1"})
    g2 = '<start> ::= <a> <a>\n<a> ::= <b>\n<b> ::= "y" | "q"\n'
    inner = ["all", False, ["nt", "<b>"], ["star", ["attr", ["rule", "<a>"], ["rule", "<b>"]]],
             ["cmp", ["s", "==", ["str", ["ph", 0]], ["lit", cp("y")]], [["rule", "<b>"]]]]
    out.append({"gtext": g2, "programs": [["all", False, ["nt", "<a>"], ["star", ["attr", ["rule", "<start>"], ["rule", "<a>"]]], inner]],
                "words": ["yy", "yq", "qy", "qq"], "origin": "corpus:F2"})
    g3 = '<start> ::= <x> | <y>\n<x> ::= "ab" | "a"\n<y> ::= "a" "b"?\n'
    out.append({"gtext": g3, "programs": [["cmp", ["s", "==", ["str", ["ph", 0]], ["lit", cp("ab")]], [["rule", "<x>"]]]],
                "words": ["ab", "a", "b"], "origin": "corpus:ambiguous"})
    return out


def escapes_statically(p: list) -> bool:
    return '["idx", 0], ["idx", 1]' in json.dumps(p)


def api_specs(run: Run, tier: str) -> list[dict]:
    rng = run.rng("api")
    quick = tier == "quick"
    out = api_corpus()
    for _ in range(45 if quick else 450):
        g = G.gen_grammar(rng)
        progs = []
        for _ in range(rng.choice([1, 1, 2, 3])):
            for _try in range(20):
                p = G.gen_text_program(rng, g, False, rng.choice([0, 0, 1, 1, 2]))
                if G.text_expressible(p) and not escapes_statically(p):
                    progs.append(p)
                    break
        if not progs:
            continue
        words = []
        for _ in range(4 if quick else 6):
            w = G.word_of(G.derive(rng, g))
            if len(w) <= 14:
                words.append(w)
        alpha = sorted({ord(c) for t in G.TERMINALS for c in t})
        base = list(words) or ["x"]
        for w in gen.near_misses(rng.choice(base), alpha, rng, 2):
            words.append(w)
        words.extend(gen.random_words(alpha, rng, 1, False, 4))
        out.append({"gtext": G.grammar_text(g), "programs": progs, "words": sorted(set(words)), "origin": "generated"})
    return out


def api_phase(run: Run, tier: str, corr: list) -> None:
    specs = api_specs(run, tier)
    cases = []
    for s in specs:
        s["spec"] = s["gtext"] + "".join("where " + G.cons_text(p) + "\n" for p in s["programs"])
        # every other spec: each word is first parsed to exhaustion WITH control-flow nodes on the same object — what
        # the plain request then yields must still be free of helper symbols (seeded change C04-1: the parse cache
        # keeping the control-flow form under a key that does not say so)
        cases.append({"op": "api", "spec": s["spec"], "words": [eio.word_json(w) for w in s["words"]], "max_trees": 40,
                      "history": len(cases) % 2 == 1})
    quick = tier == "quick"
    answers = run_pool("harness.impl.c04_real", cases, nproc=12, per_case_s=60 if quick else 120,
                       hard_s=400 if quick else 1500)
    judge_api(run, specs, answers, corr)


def judge_api(run: Run, specs: list[dict], answers: list[dict], corr: list) -> None:
    creqs, cwhere = [], []
    vreqs, vwhere = [], []
    gjs: dict[int, Any] = {}
    for si, (s, a) in enumerate(zip(specs, answers)):
        if "items" not in a:
            run.count("api:" + ("timeout" if a.get("timeout") else "killed" if a.get("killed") else "error"))
            continue
        try:
            grammar, _ = gio.parse_spec(s["gtext"])
            gjs[si] = gio.grammar_to_json(grammar)[0]
        except Exception:  # noqa
            run.count("api:grammar_error")
            continue
        for wi, it in enumerate(a["items"]):
            for ti, tj in enumerate(it.get("yielded") or []):
                vreqs.append({"op": "valid", "grammar": gjs[si], "oracle": [], "tree": tj})
                vwhere.append((si, wi, ti))
                for p in s["programs"]:
                    creqs.append({"op": "eval", "tree": tj, "cons": p})
                    cwhere.append((si, wi, ti, "y"))
            for ti, tj in enumerate(it.get("forest") or []):
                for p in s["programs"]:
                    creqs.append({"op": "eval", "tree": tj, "cons": p})
                    cwhere.append((si, wi, ti, "f"))
    cans = driver_ask("drv_cons", creqs, timeout=1500) if creqs else []
    vans = driver_ask("drv_ir", vreqs, timeout=900) if vreqs else []
    den: dict[tuple, list] = {}
    for key, a in zip(cwhere, cans):
        den.setdefault(key, []).append(bool(a["denote"]))
    val = dict(zip(vwhere, vans))
    for si, (s, a) in enumerate(zip(specs, answers)):
        if "items" not in a or si not in gjs:
            continue
        for wi, it in enumerate(a["items"]):
            word = eio.word_of(it["word"])
            st = it["status"]
            run.count("api:" + (st if st.startswith("exc:") else st.split(":")[0]))
            if st not in ("ok", "truncated"):
                continue
            yielded = it.get("yielded") or []
            forest = it.get("forest") or []
            fkeys = {json.dumps(t) for t in forest}
            sat_forest = sum(1 for ti in range(len(forest)) if all(den.get((si, wi, ti, "f"), [])))
            run.count("api:forest_trees", len(forest))
            run.count("api:forest_trees_satisfying", sat_forest)
            run.count("api:word_" + ("accepted" if yielded else "rejected_by_grammar" if not forest else "rejected_by_constraints"))
            run.case(["api", s["spec"], word], len(word) > 0 and bool(forest),
                     {"spec": s["spec"], "word": word, "forest": len(forest), "yielded": len(yielded)})
            rd = {"kind": "api", "spec": s["spec"], "gtext": s["gtext"], "programs": s["programs"], "word": it["word"]}
            for ti, (tj, o) in enumerate(zip(yielded, it.get("obs") or [])):
                run.count("api:trees_judged")
                ds = den.get((si, wi, ti, "y"), [])
                bad = [G.cons_text(p) for p, d in zip(s["programs"], ds) if not d]
                where = f"input {word!r} spec {s['spec'].strip()!r}"
                if bad:
                    run.report("C04/api-yields-unsatisfying-tree",
                               f"Fandango.parse yields a tree that violates `{bad[0]}` (documented meaning, Lean `denote`): "
                               f"{where}; tree {json.dumps(tj)[:300]}", dict(rd, tree=tj, violated=bad))
                if not val[(si, wi, ti)]["valid"]:
                    run.report("C04/api-invalid-tree", f"Fandango.parse yields a tree that is not a derivation: {where}", dict(rd, tree=tj))
                if not o.get("value_ok") or o.get("helpers") or o.get("root") != "<start>":
                    run.report("C04/api-value-differs", f"Fandango.parse yields a tree with serialisation/root/helper defect {o}: {where}",
                               dict(rd, tree=tj))
                if json.dumps(tj) not in fkeys:
                    corr.append({"case": rd, "what": "API yields a tree that is not in the unfiltered forest"})
            # the filter must not drop what satisfies (not soundness: recorded as correspondence of the API model)
            if st == "ok" and sat_forest != len(yielded):
                corr.append({"case": rd, "what": f"API yields {len(yielded)} trees, {sat_forest} trees of the forest satisfy "
                                                  "every constraint under `denote`"})
            elif st == "ok":
                run.count("corr:api_filter_equal")


# ------------------------------------------------------------------------------------------------
# witnesses of Props/C04.lean replayed on the implementation
# ------------------------------------------------------------------------------------------------

def replay_witnesses(run: Run, variant: dict) -> None:
    """`C04_old_unaligned_scan_unsound` (Props/C04.lean, OLD): `<b>{4} b"a" <b>{4}` on b"a\\x1f" — the code before /repo
    a33087ac yielded a tree with a payload leaf at column 4; the theorem also says the parser as it is now yields
    nothing.  Replayed on the implementation: any tree it yields is judged like every other."""
    t = {"id": "W0", "spec": '<start> ::= <b> <b> <b> <b> b"a" <b> <b> <b> <b>\n<b> ::= 0 | 1\n', "start": "<start>",
         "word": eio.word_json(b"a\x1f"), "cap_s": 20.0, "max_trees": 10, "modes": False, "mode": "bits", "tags": []}
    r = eio.run_pool([t], workers=1, backstop_s=120.0)[0]
    run.coverage["witness_W0"] = {"status": r.get("status"), "trees": len(r.get("forest") or [])}
    if r.get("status") == "ok" and r.get("forest"):
        vs = driver_ask("drv_ir", valid_requests(r, t["word"]))
        judge_trees(run, t, r, vs)
    if r.get("status") != "ok":
        raise MachineryError(f"witness W0: {r.get('status')}")
    if variant.get("aligned") and r.get("forest"):
        run.report("C04/witness-disagrees", "the source has the alignment guard (translator) and the Lean model yields no tree "
                   "on the OLD witness, but the real parser yields one", replay_dict(t), no_input=True)


# ------------------------------------------------------------------------------------------------
# entry points
# ------------------------------------------------------------------------------------------------

def replay(path: str) -> int:
    use_repo()
    rp = json.load(open(path))
    if "spec" not in rp:
        print("replay: no concrete input in this file (", str(rp.get("what", ""))[:400], ")")
        return 1
    run = Run(PID, "replay", "proof")
    run.known = []          # a replay shows the failure whether or not it is a listed finding
    if rp.get("kind") == "api":
        spec = {"gtext": rp["gtext"], "programs": rp["programs"], "spec": rp["spec"], "words": [eio.word_of(rp["word"])]}
        ans = run_pool("harness.impl.c04_real", [{"op": "api", "spec": rp["spec"], "words": [rp["word"]], "max_trees": 40}],
                       nproc=1, per_case_s=120, hard_s=300)
        print("spec:", rp["spec"].strip().replace("\n", " ; "), "| input", repr(eio.word_of(rp["word"])))
        corr: list = []
        judge_api(run, [spec], ans, corr)
        for c in corr:
            print("correspondence:", c["what"])
    else:
        t = {"id": 0, "spec": rp["spec"], "start": rp.get("start", "<start>"), "word": rp["word"],
             "cap_s": float(rp.get("cap_s", 20.0)), "max_trees": int(rp.get("max_trees", 200)), "modes": False,
             "mode": rp.get("mode", "text"), "tags": []}
        r = eio.run_pool([t], workers=1, backstop_s=120.0)[0]
        print("grammar:", rp["spec"].strip().replace("\n", " ; "), "| start", t["start"], "| input", repr(eio.word_of(t["word"])))
        print("real:", r.get("status"), "trees:", len(r.get("forest") or []))
        if r.get("forest"):
            vs = driver_ask("drv_ir", valid_requests(r, t["word"]))
            judge_trees(run, t, r, vs)
    bad = bool(run.violations)
    print("replay:", "property violated" if bad else "no violation on the current tree")
    return 1 if bad else 0


def main(tier: str) -> int:
    run = Run(PID, tier, "proof")
    use_repo()
    from harness import translate_earley as te
    te.regenerate()                     # Generated/Earley.lean is an import of Props/C04.lean
    lean = lean_check("Props.C04", ["drv_earley", "drv_ir", "drv_cons"])
    variant = current_variant(lean)
    corr: list = []
    replay_witnesses(run, variant)
    grammar_phase(run, tier, corr, variant)
    api_phase(run, tier, corr)
    run.coverage["traces_validated_against_impl"] = run.counters.get("corr:forest_equal", 0) + \
        run.counters.get("corr:raised_equal", 0) + run.counters.get("corr:api_filter_equal", 0)
    run.coverage["correspondence_disagreements"] = len(corr)
    run.coverage["disagreement_samples"] = corr[:5]
    if run.counters.get("trees:judged", 0) < 100 or run.counters.get("api:trees_judged", 0) < 20:
        raise MachineryError(f"too few trees were judged: {run.counters}")
    if (not lean.ok or corr) and not run.violations:
        what = []
        if not lean.ok:
            what.append("proof obligations of Props/C04.lean no longer check: " + json.dumps(lean.broken)[:600])
        if corr:
            what.append(f"model/implementation correspondence broken on {len(corr)} cases, e.g. " + json.dumps(corr[0])[:600])
        # the deeper search is the tree-by-tree judgement above: every yielded tree of every case went through the
        # verified checker, the serialisation comparison and the helper search
        run.report("C04/unproved", "; ".join(what), {"broken_obligations": lean.broken, "correspondence": corr[:20]}, no_input=True)
    return run.finish(
        lean,
        rule="(grammar, start, input): C04 corner list (bit/byte column arithmetic, multi-byte literals, mixed str/bytes, "
             "ambiguity, bounded repetitions) + C06's handwritten list + stress generator + shared productive generator; "
             "30% of the grammars with every nonterminal as start; inputs: words derived from the IR, words of the real "
             "fuzzer, one-edit near misses of both, random strings, the other input type (str<->bytes); API: generated "
             "grammars + 1-3 generated constraints, derived words + near misses + random; nontrivial = non-empty input "
             "and (a tree is yielded or a later column holds several states); distinct by (spec, start, input)",
        explanation="every yielded tree: verified checker validB (drv_ir), serialisation == input (str/bytes/bits), no helper "
                    "symbol, root == start; forest == forest of the Lean Earley model; API: denote (drv_cons) true for every "
                    "constraint and the yielded set == the satisfying part of the forest",
        trusted_base=TRUSTED)
