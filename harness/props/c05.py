"""C05 — what Fandango generates, Fandango parses back (round trip).

1. obligations: Props/C05.lean (lake build, axiom audit) + drivers drv_enum, drv_ir
2. words from two sources, for generated specs over the classes {text, regex incl. empty-matching, bytes incl.
   non-ASCII text, bits, recursive, nested/bounded repetitions {n} {n,m} {n,}}:
     (a) the real fuzzer: `Grammar.fuzz`, and `Fandango.fuzz` for specs with constraints (bounded)
     (b) the Lean enumerator (drv_enum): derivation trees with a machine-checked `Valid` witness
         (`C05_enum_sound`; the driver re-runs the verified checker on each) and regex tags
3. the property on the real code, every case in a worker process under a hard time limit: the tree is
   serialised as the CLI writes it (binary iff the grammar contains bytes/bits), parsed back with the same
   spec through `Fandango.parse` (grammar + constraints); some yielded tree must have the identical
   serialisation, and `cli/utils.py: validate()` must accept the first yielded tree.
4. the tie of the parser-language model (Model/Scan.lean, `C05_parser_language_iff`, `C05_roundtrip_partial`) to
   the real parser, on EVERY word, both ways (drv_enum `judge`, with `re.match` on every (regex, position) as
   the greedy-length oracle):
     real accepts, model rejects (bounds taken from the real parse tree)  -> correspondence broken
     real rejects, model accepts  -> VIOLATION: the grammar has an expansion the code's own scanners read over
                                     the whole word, and the chart parser does not find it
     real rejects, model rejects  -> the witness cannot be in the class (theorem); the driver's walk over the
                                     leaves (`Scan.firstFail`, for trees of the real generator the tag-free
                                     `Scan.firstFailU` with `re.fullmatch`) names the first leaf the scanner does
                                     not read as written:
         a leaf that instantiates a regex -> OUTSIDE the class C05 covers ("regex terminals that can be split in
                                     more than one way": `re.match` prefers another length there); counted
         a literal leaf              -> the parser does not read back what the generator wrote: a violation —
                                     open finding C05/nonascii-text-next-to-binary when the leaf is text with a
                                     code point >= 0x80 in binary output, C05/literal-not-read-back otherwise
         no such leaf                -> the witness is in the class: VIOLATION C05/word-rejected
   a rejection by validate() of a word that IS parsed back is reported as C05/validate-contract (F35, repaired).
5. correspondence: every tree of the real fuzzer goes through the verified derivation checker (drv_ir) against
   the IR the enumerator runs on (ties the IR translation, in particular repetition bounds, to the generator),
   and `Grammar.fuzz` trees through the verified checker on the IR capped at the generator's repetition cap
   (drv_enum `capvalid`, `C05_capValid_iff`: ties Model/RepCap.lean's generator model).
"""
from __future__ import annotations

import json
import re
from typing import Any, Optional

from harness.common import VERIF, MachineryError, Run, driver_ask, lean_check, use_repo
from harness.gen.grammars import gen_spec
from harness.impl import grammar_io as gio
from harness.impl.pool import run_pool

PID = "C05"
SIG_NONASCII = "C05/nonascii-text-next-to-binary"
SIG_LITERAL = "C05/literal-not-read-back"
SIG_REJECTED = "C05/word-rejected"
ENUM_DEPTH, ENUM_CAP = 5, 3           # bounds of the enumerator (`C05_roundtrip_enumerated_partial`: c' >= 3, d' >= 5)
CORPUS = VERIF / "corpus" / "C05"

TRUSTED = [
    "Lean 4.33.0 kernel; axioms ⊆ {propext, Classical.choice, Quot.sound} (audited per run)",
    "proved: the parser-LANGUAGE model (grammar IR + the code's scanners) accepts every derivation in the class "
    "(C05_roundtrip_partial) and nothing but scanner-read expansions (C05_parser_language_iff); NOT proved: that "
    "the Earley machine computes this language — tied per run by comparing the model's verdict with the real "
    "Fandango.parse on every word, both ways",
    "harness/impl/grammar_io.py (real grammar -> IR JSON), tied per run by the verified checker on real "
    "fuzzer trees; harness/impl/c05_real.py (serialisation as the CLI, Fandango.parse, validate())",
    "regex instances: fixed candidate strings filtered by CPython re.fullmatch; greedy-length oracle: CPython "
    "re.match on word[w:] for every regex terminal and every unit index w, asked the way Terminal.check asks",
    "harness/gen/grammars.py",
]

CORNER = [
    '<start> ::= r"[0-9]*" "x"\n',
    '<start> ::= b"\\xff" "é"\n',
    '<start> ::= "a" r"b?" "c"\n',
    # regex terminals that can be split in more than one way (outside the class; Props: C05_regex_split_outside_class)
    '<start> ::= r"[0-9]*" r"[0-9]+"\n',
    '<start> ::= r"[0-9]+" r"[0-9]*"\n',
    '<start> ::= r"a*" "a"\n',
    '<start> ::= "x" r"[0-9]*"\n',
    '<start> ::= (r"[0-9]*")* "x"\n',
    # the same unbounded operator nested directly in its own operand, within ONE production (node ids of the inner
    # and the outer repetition must stay apart: seeded change C05-1)
    '<start> ::= ("a"* "b")* "c"\n',
    '<start> ::= ("a"+ "b")+ "c"\n',
    '<start> ::= (("a"* "b")* "c")* "d"\n',
    '<start> ::= ("x" ("a"+ | "b")+)+\n',
    '<start> ::= ("a"* ("b"* "c")*)* "."\n',
    '<start> ::= ("ab"){2}\n',
    '<start> ::= ("ab"){1,3} "c"\n',
    '<start> ::= ("ab"){0,2} "a"\n',
    '<start> ::= ("a"){2,} "b"\n',
    '<start> ::= (("a"){1,2} "-"){2,3}\n',
    '<start> ::= "a"? "b"? "c"\n',
    '<start> ::= <x>* <y>+\n<x> ::= "ab" | "a"\n<y> ::= "b"\n',
    '<start> ::= <byte> b"\\x00" <byte>\n<byte> ::= <bit>{8}\n<bit> ::= 0 | 1\n',
    '<start> ::= (0 1 0 0 0 0 0 1) "ab" b"\\x80"\n',
    '<start> ::= "(" <start> ")" | "x"\n',
    '<start> ::= <e>\n<e> ::= <e> "+" "n" | "n"\n',
    '<start> ::= r"[a-z]{2}" r"[0-9]+" "é€"?\n',
    '<start> ::= rb"[a-c]+" b"\\x00" "xyz"\n',
    '<start> ::= "ab" "c"?\nwhere len(str(<start>)) >= 3\n',
    # the adaptive tuner raises the generator's repetition cap; the parser must follow (Fandango.fuzz source)
    '<start> ::= ("a"){2,} "b"\nwhere len(str(<start>)) >= 24\n',
    '<start> ::= "a"+ "b"\nwhere len(str(<start>)) >= 24\n',
    '<start> ::= ("a"){0,} "b"\n',
    '<start> ::= "a"* "b"\n',
    '<start> ::= "a"+ "b"\n',
    '<start> ::= (<x>{1,} ","){2,}\n<x> ::= "a" | "b"\n',
    # a nullable symbol completed empty in a column before another state that expects it arrives there
    '<start> ::= <s1> <s2>\n<s1> ::= "a" <s2>\n<s2> ::= "b"?\n',
    '<start> ::= <s1> <e>\n<s1> ::= "a" <e>\n<e> ::= ""\n',
    '<start> ::= "a" <s2> <s2>\n<s2> ::= "b"?\n',
    '<start> ::= <s2> "a" <s2> <s1>\n<s1> ::= <s2> "c"? <s2>\n<s2> ::= "b"*\n',
    '<start> ::= <m1> <m1> "ab"\n<m1> ::= <m2> "ab"\n<m2> ::= "ab"? ("c"){0,2}\n',
]
# specs whose Fandango.fuzz run needs more generations (the tuner has to raise the repetition cap first)
LONG_EVOLUTION = {c for c in CORNER if ">= 24" in c}


def rep_tree(n_a: int) -> list:
    """<start> -> 'a' x n_a, 'b'"""
    return ["n", "<start>", None, None, [["t", [97], None, None] for _ in range(n_a)] + [["t", [98], None, None]]]


def explicit_trees(spec: str, cap: int) -> list:
    """hand-written witnesses around the repetition cap (each is checked by the verified checker before use)"""
    table = {
        '<start> ::= ("a"){2,} "b"\n': [cap - 1, cap, cap + 1, 2 * cap + 3],
        '<start> ::= ("a"){0,} "b"\n': [0, cap, cap + 1],
        '<start> ::= "a"* "b"\n': [0, cap, cap + 1, 2 * cap + 3],
        '<start> ::= "a"+ "b"\n': [1, cap, cap + 1, 2 * cap + 3],
    }
    return [rep_tree(n) for n in table.get(spec, [])]


REUSE_LITS = ['"a"', '"b"', '"c"', '"ab"', '"-"']


def gen_reuse_spec(rng) -> dict:
    """named non-terminals that are nullable and used more than once (harness/gen/grammars.py uses every named
    rule exactly once); no recursion, nullable parts never under an unbounded repetition"""
    k = rng.randint(2, 4)
    names = [f"<m{i}>" for i in range(1, k + 1)]

    def atom(lo: int) -> str:
        if rng.random() < 0.5 and lo < k:
            return rng.choice(names[lo:])
        lit = rng.choice(REUSE_LITS)
        y = rng.random()
        if y < 0.3:
            return lit + "?"
        if y < 0.4:
            return lit + "*"
        if y < 0.5:
            return "(" + lit + "){0,2}"
        return lit

    def body(lo: int) -> str:
        alts = [" ".join(atom(lo) for _ in range(rng.randint(1, 3))) for _ in range(rng.choice([1, 1, 2]))]
        if rng.random() < 0.25:
            alts.append('""')
        return " | ".join(alts)

    rules = [("<start>", " ".join([body(0)] if rng.random() < 0.3 else [atom(0) for _ in range(rng.randint(2, 4))]))]
    rules += [(n, body(i + 1)) for i, n in enumerate(names)]
    used = set(re.findall(r"<m\d+>", " ".join(b for _, b in rules)))
    rules = [r for r in rules if r[0] == "<start>" or r[0] in used]
    return {"spec": "".join(f"{n} ::= {b}\n" for n, b in rules), "cls": "reuse", "kind": "str",
            "features": ["nonterminal-reuse"]}


def mk_specs(run: Run, tier: str) -> list[dict]:
    rng = run.rng("grammars")
    quick = tier == "quick"
    specs = [{"spec": s, "cls": "corner", "features": ["corner"]} for s in CORNER]
    have = set(CORNER)
    for c in load_corpus():
        if c["spec"] not in have:
            have.add(c["spec"])
            specs.append({"spec": c["spec"], "cls": "corpus", "features": ["corpus"]})
    n_gen = 200 if quick else 1400
    classes = ["text", "regex", "bytes", "bits", "recursive", "regex", "bytes", "reuse"]
    for i in range(n_gen):
        cls = classes[i % len(classes)]
        if cls == "reuse":
            g = gen_reuse_spec(rng)
        else:
            g = gen_spec(rng, cls, empty_regex=True, nonascii_binary=(i % 3 == 0), nested_reps=True)
        if cls in ("text", "regex") and i % 9 == 0:
            g["spec"] += "where len(str(<start>)) >= 2\n"
            g["features"].append("constraint")
        specs.append(g)
    for s in specs:
        s["seed"] = rng.randrange(1 << 30)
        s["constrained"] = "\nwhere " in s["spec"]
    return specs


# ------------------------------------------------------------------------------------------------
# classification of a rejected word
# ------------------------------------------------------------------------------------------------

def leaves_of(tj: list) -> list:
    return [[tag, list(p) if tag != "i" else p] for tag, p in gio.tree_leaves(tj)]


def has_open_rep(node: list) -> bool:
    k = node[0]
    if k in ("alt", "cat"):
        return any(has_open_rep(n) for n in node[2])
    if k == "rep":
        return node[5] is None or has_open_rep(node[3])
    return False


def max_min(node: list) -> int:
    """largest lower bound of a repetition in an IR node"""
    k = node[0]
    if k in ("alt", "cat"):
        return max([max_min(n) for n in node[2]] + [0])
    if k == "rep":
        return max(int(node[4]), max_min(node[3]))
    return 0


def tree_shape(tj: list) -> tuple[int, int]:
    """(nesting depth counted in non-terminal nodes, largest number of children) of a tree JSON"""
    if tj[0] != "n":
        return 0, 0
    d, w = 0, len(tj[4])
    for k in tj[4]:
        dk, wk = tree_shape(k)
        d, w = max(d, dk), max(w, wk)
    return d + 1, w


def judge_request(g: dict, item: dict, r: dict) -> dict:
    """drv_enum `judge`: the parser-language model's verdict on the word and the walk over the witness's leaves.
    Bounds: nesting depth / repetition counts of the witness and of the tree the real parser found (never below
    the enumerator's own bounds, so that `C05_roundtrip_enumerated_partial` applies to its trees)."""
    d_w, w_w = tree_shape(item["tree"])
    depth = max(ENUM_DEPTH, d_w, int(r.get("parsed_depth", 0)))
    lo = max([max_min(body) for _, body in g["grammar"]["rules"]] + [0])
    cap = max(ENUM_CAP, w_w, int(r.get("parsed_width", 0)), lo) + 1
    q = {"op": "judge", "grammar": g["grammar"], "start": "<start>", "word": r["word"], "rlen": r["rlen"],
         "binary": r["binary"], "leaves": r["leaves"], "tags": item.get("tags"), "depth": depth, "cap": cap}
    if item.get("tags") is None:
        q["full"] = gio_oracle(g["patterns"], item["tree"])
        q["nregex"] = len(g["patterns"])
    return q


def rejected_class(j: dict, r: dict) -> tuple[Optional[str], str]:
    """a word the real parser rejects and the model rejects, too: (signature | None = outside the class, why)"""
    fail = j["fail"]
    if fail is None:
        if not j["len_ok"]:
            return SIG_REJECTED, "the serialised leaves do not add up to the word"
        return SIG_REJECTED, "the witness is in the class (every leaf is what the scanner reads at its column)"
    idx, is_regex = fail
    leaf = r["leaves"][idx]
    if is_regex:
        return None, f"leaf {idx} instantiates a regex terminal for which re.match prefers another length there"
    if r["binary"] and leaf[0] == "t" and any(c >= 0x80 for c in leaf[1]):
        return SIG_NONASCII, f"literal leaf {idx} {leaf} is written as UTF-8 and compared through Latin-1"
    return SIG_LITERAL, f"literal leaf {idx} {leaf} is not what the scanner reads at its column"


def load_corpus() -> list[dict]:
    out = []
    if CORPUS.is_dir():
        for f in sorted(CORPUS.glob("*.json")):
            c = json.loads(f.read_text())
            c["file"] = f.name
            out.append(c)
    return out


# ------------------------------------------------------------------------------------------------

def replay(path: str) -> int:
    use_repo()
    rp = json.load(open(path))
    if "spec" not in rp:
        print("replay: this file names broken obligations / correspondence cases, not an input:")
        print(json.dumps({k: rp[k] for k in rp if k in ("what", "broken_obligations", "correspondence")}, indent=1)[:3000])
        return 1
    item = {"tree": rp["witness"], "tags": rp.get("tags"), "src": rp.get("source", "replay")}
    gen = run_pool("harness.impl.c05_real", [{"op": "gen", "spec": rp["spec"], "seed": 0, "n_fuzz": 0, "constraints": None}],
                   nproc=1, per_case_s=60, hard_s=120)[0]
    res = run_pool("harness.impl.c05_real", [{"op": "roundtrip", "spec": rp["spec"], "patterns": gen.get("patterns", []),
                                              "items": [item], "item_s": 30}],
                   nproc=1, per_case_s=60, hard_s=120)[0]
    if "items" not in res or "grammar" not in gen:
        print("replay: the implementation did not answer:", res, gen)
        return 2
    r = res["items"][0]
    print("spec:", rp["spec"].strip())
    print("witness tree:", json.dumps(rp["witness"]))
    print("serialised output:", r.get("word"), "(binary)" if r.get("binary") else "(text)")
    print("parsed back: trees tried =", r.get("n_trees"), " identical serialisation found =", r.get("found"),
          " validate(first) =", r.get("validate_first"), r.get("validate_err") or "", r.get("raised") or "",
          "TIMEOUT" if r.get("timeout") else "")
    bad = not r.get("found") or r.get("validate_first") is False
    if "word" in r and "found" in r:
        j = limited_driver_ask("drv_enum", [judge_request(gen, item, r)], timeout=60)[0]
        print("parser-language model:", j)
        if j is not None and not r["found"] and not j["accepts"]:
            sig, reason = rejected_class(j, r)
            print("class:", "outside the class C05 covers" if sig is None else sig, "-", reason)
            if sig is None:
                bad = False
    print("replay:", "property violated" if bad else "no violation on the current tree")
    return 1 if bad else 0


def main(tier: str) -> int:
    run = Run(PID, tier, "proof")
    use_repo()
    # Props/C05.lean states the machine-completeness theorems for the parser variant read from the source
    # (C05_generated_variant_is_now): regenerate it, a refusal is a broken obligation
    from harness import translate_earley
    tinfo = translate_earley.regenerate()
    lean = lean_check("Props.C05", ["drv_enum", "drv_ir"])
    for r in tinfo.get("refusals", []):
        lean.broken.append({"module": "Generated.Earley", "reason": "translator refused: " + str(r)})
    quick = tier == "quick"
    specs = mk_specs(run, tier)
    # ---- phase A: real front end + real fuzzer
    gens = run_pool("harness.impl.c05_real",
                    [{"op": "gen", "spec": s["spec"], "seed": s["seed"], "n_fuzz": 0 if s["constrained"] else (3 if quick else 8),
                      "constraints": ["inline"] if s["constrained"] else None,
                      "max_generations": 60 if s["spec"] in LONG_EVOLUTION else 15,
                      "population_size": 20 if s["spec"] in LONG_EVOLUTION else 10} for s in specs],
                    nproc=16, per_case_s=90 if quick else 120, hard_s=300 if quick else 900)
    # ---- the enumerator
    enum_reqs, enum_idx = [], []
    for i, (s, g) in enumerate(zip(specs, gens)):
        if "grammar" not in g:
            run.count("spec:" + ("timeout" if g.get("timeout") else "error"))
            continue
        run.count("spec:ok")
        if s["constrained"]:
            continue
        for rot in ((0, 1) if quick else (0, 1, 2, 3)):
            enum_reqs.append({"op": "enum", "grammar": g["grammar"], "inst": g["inst"], "start": "<start>",
                              "depth": 5, "cap": 3, "lim": 10 if quick else 30, "rot": rot})
            enum_idx.append(i)
    enum_ans = driver_ask("drv_enum", enum_reqs, timeout=900) if enum_reqs else []
    items_by_spec: dict[int, list] = {}
    for i, a in zip(enum_idx, enum_ans):
        lst = items_by_spec.setdefault(i, [])
        seen = {json.dumps(x["tree"]) for x in lst}
        for t in a["trees"]:
            key = json.dumps(t["tree"])
            if key not in seen and len(lst) < (10 if quick else 60):
                seen.add(key)
                lst.append({"tree": t["tree"], "tags": t["tags"], "src": "enumerator"})
                run.count("enum:trees")
    # hand-written witnesses: around the repetition cap, and the corpus of past disagreements; each must pass the
    # verified derivation checker before it is used as a word of the language
    exp_reqs, exp_ref = [], []
    corpus_by_spec: dict[str, list] = {}
    for c in load_corpus():
        corpus_by_spec.setdefault(c["spec"], []).append(c)
    for i, (s, g) in enumerate(zip(specs, gens)):
        if "grammar" not in g:
            continue
        cands = [("explicit", t, None) for t in explicit_trees(s["spec"], g["cap"])]
        cands += [("corpus", c["witness"], c.get("tags")) for c in corpus_by_spec.get(s["spec"], [])]
        for src, tj, tags in cands:
            exp_reqs.append({"op": "valid", "grammar": g["grammar"], "oracle": gio_oracle(g["patterns"], tj), "tree": tj})
            exp_ref.append((i, src, tj, tags))
    if exp_reqs:
        for (i, src, tj, tags), a in zip(exp_ref, driver_ask("drv_ir", exp_reqs, timeout=300)):
            if not a["valid"]:
                raise MachineryError(f"hand-written witness is not a derivation of {specs[i]['spec']!r}: {json.dumps(tj)[:300]}")
            lvs = leaves_of(tj)
            if tags is None and not gens[i]["patterns"]:
                tags = [None] * len(lvs)
            if tags is not None:
                # hand-written tags must name regexes that match their leaf as a whole (`tagOK`)
                full = {(rid, json.dumps(leaf)) for rid, leaf in gio_oracle(gens[i]["patterns"], tj)}
                if len(tags) != len(lvs) or any(t is not None and (t, json.dumps(l)) not in full for t, l in zip(tags, lvs)):
                    raise MachineryError(f"hand-written tags do not fit the witness of {specs[i]['spec']!r}: {tags}")
            items_by_spec.setdefault(i, []).append({"tree": tj, "tags": tags, "src": src})
            run.count("witness:" + src)
    # ---- fuzzer trees, through the verified derivation checker (ties the IR translation to the generator), and
    # Grammar.fuzz trees of grammars with an open-ended repetition through the checker on the IR capped at the
    # generator's repetition cap (ties RepCap's generator model: `capGrammar selAll cap`)
    valid_reqs, valid_ref = [], []
    cap_reqs, cap_ref = [], []
    for i, (s, g) in enumerate(zip(specs, gens)):
        if "grammar" not in g:
            continue
        open_rep = any(has_open_rep(body) for _, body in g["grammar"]["rules"])
        for f in g["fuzzed"]:
            if "tree" not in f:
                run.count("fuzz:error")
                continue
            items_by_spec.setdefault(i, []).append({"tree": f["tree"], "tags": None, "src": f["src"]})
            run.count("fuzz:" + f["src"])
            if tree_size(f["tree"]) > 60:
                run.count("corr:tree_too_big_for_checker")
                continue
            oracle = gio_oracle(g["patterns"], f["tree"])
            valid_reqs.append({"op": "valid", "grammar": g["grammar"], "oracle": oracle, "tree": f["tree"]})
            valid_ref.append((i, f["tree"]))
            if open_rep and f["src"] == "grammar.fuzz":
                cap_reqs.append({"op": "capvalid", "grammar": g["grammar"], "oracle": oracle, "tree": f["tree"],
                                 "cap": g["cap"], "sel": "all"})
                cap_ref.append((i, f["tree"]))
    corr: list = []
    if valid_reqs:
        for (i, tj), a in zip(valid_ref, limited_driver_ask("drv_ir", valid_reqs)):
            if a is None:
                run.count("corr:checker_out_of_resources")
                run.coverage.setdefault("checker_out_of_resources", []).append(
                    {"spec": specs[i]["spec"], "tree_nodes": tree_size(tj)})
                continue
            run.count("corr:fuzz_tree_checked")
            if not a["valid"]:
                corr.append({"kind": "fuzzer tree rejected by the verified checker", "spec": specs[i]["spec"],
                             "tree": tj, "bad": a["bad"]})
    if cap_reqs:
        for (i, tj), a in zip(cap_ref, limited_driver_ask("drv_enum", cap_reqs)):
            if a is None:
                run.count("corr:cap_checker_out_of_resources")
                continue
            run.count("corr:fuzz_tree_within_generator_cap")
            if not a["valid"]:
                corr.append({"kind": "Grammar.fuzz tree is not a derivation of the IR capped at the generator's "
                                     f"repetition cap {gens[i]['cap']}", "spec": specs[i]["spec"], "tree": tj})
    # ---- phase B: the round trip on the real code
    rt_cases, rt_idx = [], []
    for i, items in items_by_spec.items():
        if items:
            rt_cases.append({"op": "roundtrip", "spec": specs[i]["spec"], "patterns": gens[i]["patterns"],
                             "items": items, "item_s": 6 if quick else 15,
                             "constraints": ["inline"] if specs[i]["constrained"] else None})
            rt_idx.append(i)
    rts = run_pool("harness.impl.c05_real", rt_cases, nproc=16, per_case_s=120 if quick else 600,
                   hard_s=170 if quick else 1300)
    records = []
    for i, case, rt in zip(rt_idx, rt_cases, rts):
        if "items" not in rt:
            run.count("roundtrip:" + ("timeout" if rt.get("timeout") else "killed" if rt.get("killed") else "error"))
            continue
        for item, r in zip(case["items"], rt["items"]):
            records.append((i, item, r))
    # ---- the parser-language model on every word (drv_enum `judge`)
    judge_reqs, judge_ref = [], []
    for k, (i, item, r) in enumerate(records):
        if "word" in r and "found" in r:
            judge_reqs.append(judge_request(gens[i], item, r))
            judge_ref.append(k)
    judged: dict[int, Optional[dict]] = {}
    if judge_reqs:
        for k, a in zip(judge_ref, limited_driver_ask("drv_enum", judge_reqs, timeout=60, single_timeout=20)):
            judged[k] = a
        # the recogniser can be exponential (doubly recursive rules); where it did not answer within the limits, the
        # walk over the leaves alone (linear) still decides whether the witness is in the class
        again = [(k, q) for k, q in zip(judge_ref, judge_reqs) if judged[k] is None]
        if again:
            ans = driver_ask("drv_enum", [dict(q, walk_only=True) for _, q in again], timeout=900)
            for (k, _), a in zip(again, ans):
                judged[k] = a
    for k, (i, item, r) in enumerate(records):
        s, g = specs[i], gens[i]
        src = item["src"]
        if r.get("unserialisable"):
            run.count("unserialisable:" + r["unserialisable"])
            continue
        if r.get("timeout"):
            run.count("item:timeout")
            run.coverage.setdefault("item_timeouts", []).append({"spec": s["spec"], "source": src, "tree": item["tree"]})
            continue
        j = judged.get(k)
        tagged = item.get("tags") is not None
        ok = bool(r["found"]) and r["validate_first"] is not False
        nontrivial = len(r["word"]) >= 2 and len(leaves_of(item["tree"])) >= 2
        run.case([s["spec"], r["word"], src], nontrivial,
                 {"spec": s["spec"], "source": src, "word": r["word"], "accepted": ok,
                  "model_accepts": None if j is None else j["accepts"],
                  "in_class": None if j is None else j["in_class"]})
        run.count("src:" + src)
        run.count(f"class:{s['cls']}")
        for f in s.get("features", []):
            run.count("feature:" + f)
        run.count("accepted" if ok else "rejected")
        run.count("len:%d" % min(len(r["word"]), 12))
        replay_d = {"spec": s["spec"], "word": r["word"], "witness": item["tree"], "source": src,
                    "patterns": g["patterns"], "tags": item.get("tags")}
        if j is None:
            run.count("model:no_answer")
        else:
            run.count("witness:" + ("in_class" if j["in_class"] else "not_in_class") + (":tagged" if tagged else ":untagged"))
        if j is not None and j["accepts"] is None:
            run.count("model:no_answer_within_limits(walk only)")
        elif j is not None:
            run.count("model:" + ("accepts" if j["accepts"] else "rejects") + "/real:" + ("accepts" if r["found"] else "rejects"))
            if j["in_class"] and not j["accepts"]:
                # C05_roundtrip_partial / C05_untagged_in_class: impossible for a derivation within the bounds
                corr.append({"kind": "the driver answers in_class and not accepts (contradicts C05_roundtrip_partial)",
                             "spec": s["spec"], "word": r["word"], "tree": item["tree"], "tags": item.get("tags")})
            if r["found"] and not j["accepts"]:
                corr.append({"kind": "the real parser accepts a word the parser-language model rejects",
                             "spec": s["spec"], "word": r["word"], "tree": item["tree"],
                             "bounds": [r.get("parsed_depth"), r.get("parsed_width")]})
        if "validate_accepts_mismatch" in r:
            run.count("validate:negative_control")
            if r["validate_accepts_mismatch"] is not None:
                run.report("C05/validate-contract",
                           f"{s['spec'].strip()!r}: validate() accepts the parsed tree of {r['validate_accepts_mismatch']} for a "
                           f"generated tree whose output is {r['word']}",
                           {"spec": s["spec"], "word": r["word"], "witness": item["tree"], "source": src,
                            "patterns": g["patterns"], "other_word": r["validate_accepts_mismatch"]})
        if ok:
            continue
        why = r.get("raised") or ("validate() rejects the first tree: " + str(r.get("validate_err"))
                                  if r["found"] else f"no tree with the identical serialisation among {r['n_trees']} yielded")
        what = (f"{s['spec'].strip()!r}: the {'binary' if r['binary'] else 'text'} output {r['word']} of a "
                f"{src} tree is not parsed back ({why})")
        if r["found"] and r["validate_first"] is False:
            # the word is parsed back; only the CLI's validate() objects (F35, repaired by 65b290c5)
            run.report("C05/validate-contract", what, replay_d)
            continue
        if j is None:
            # neither the model's verdict nor the walk over the leaves: nothing excuses the rejection
            run.report(SIG_REJECTED, what + "; the model driver did not answer", replay_d)
            continue
        if j["accepts"] is None and j["in_class"]:
            # the recogniser did not answer, but the witness is in the class: rejected against C05_roundtrip_partial
            run.report(SIG_REJECTED, what + "; the witness is in the class (every leaf is what the scanner reads "
                       "at its column)", replay_d)
            continue
        if j["accepts"]:
            run.count("rejected:model_accepts")
            run.report(SIG_REJECTED, what + "; the grammar has an expansion that the code's own scanners read over "
                       "the whole word (parser-language model accepts)", replay_d)
            continue
        sig, reason = rejected_class(j, r)
        if sig is None:
            run.count("rejected:outside_class(regex split)")
            run.count(f"rejected:outside_class:{src}")
            continue
        run.count("rejected:" + sig)
        run.count(f"rejected:{sig}:{src}")
        if run.counters["rejected:" + sig] <= 3:      # a few witnesses per signature are enough on the console
            run.report(sig, what + "; " + reason, replay_d)
    run.coverage["traces_validated_against_impl"] = run.counters.get("corr:fuzz_tree_checked", 0)
    run.coverage["correspondence_disagreements"] = len(corr)
    run.coverage["disagreement_samples"] = corr[:5]
    ok_share = run.counters.get("spec:ok", 0) / max(1, len(specs))
    if ok_share < 0.6 or run.evaluations < 50:
        raise MachineryError(f"too few cases could be run: {run.counters}")
    if (not lean.ok or corr) and not run.violations:
        what = []
        if not lean.ok:
            what.append("proof obligations of Props/C05.lean no longer check: " + json.dumps(lean.broken)[:600])
        if corr:
            what.append(f"IR/implementation correspondence broken on {len(corr)} cases, e.g. " + json.dumps(corr[0])[:600])
        run.report("C05/unproved", "; ".join(what),
                   {"broken_obligations": lean.broken, "correspondence": corr[:20]}, no_input=True)
    return run.finish(
        lean,
        rule="specs: corner list + corpus + seeded generator over {text, regex (incl. empty-matching), bytes (incl. "
             "non-ASCII text), bits, recursive, reuse (nullable named rules used several times)} with "
             "nested/bounded repetitions; words: Grammar.fuzz, Fandango.fuzz (constrained specs, incl. runs in "
             "which the tuner raises the repetition cap), Lean enumerator (depth 5, repetition counts <= 3, 4 "
             "instances per regex, truncated lists, rotated alternatives), hand-written witnesses around the "
             "repetition cap (checked by the verified checker); every word also goes through the parser-language "
             "model (drv_enum judge); a case is non-trivial when the word has >= 2 "
             "units and the witness >= 2 leaves; distinct by (spec, word, source)",
        trusted_base=TRUSTED)


def limited_driver_ask(exe: str, requests: list[dict], mem_gb: float = 6.0, timeout: int = 20,
                       single_timeout: int = 6) -> list:
    """like common.driver_ask, but under an address-space limit and in small batches: the shared derivative
    matcher can need exponential space on nested bounded repetitions.  A request that cannot be answered
    within the limits yields None (counted by the caller, never a verdict)."""
    import resource
    import subprocess
    from harness.common import LEAN, MachineryError
    path = LEAN / ".lake" / "build" / "bin" / exe
    if not path.exists():
        raise MachineryError(f"driver {exe} is not built")
    lim = int(mem_gb * (1 << 30))

    def pre():
        resource.setrlimit(resource.RLIMIT_AS, (lim, lim))

    def ask(batch: list[dict], tmo: int = timeout) -> Optional[list]:
        data = "".join(json.dumps(r, separators=(",", ":")) + "\n" for r in batch)
        try:
            r = subprocess.run([str(path)], input=data, stdout=subprocess.PIPE, stderr=subprocess.DEVNULL,
                               text=True, timeout=tmo, preexec_fn=pre)
        except subprocess.TimeoutExpired:
            return None
        lines = [ln for ln in r.stdout.splitlines() if ln.strip()]
        if r.returncode != 0 or len(lines) != len(batch):
            return None
        out = [json.loads(ln) for ln in lines]
        for q, a in zip(batch, out):
            if isinstance(a, dict) and "driver_error" in a:
                raise MachineryError(f"driver {exe} rejected {json.dumps(q)[:300]}: {a['driver_error']}")
        return out

    from concurrent.futures import ThreadPoolExecutor

    def do_batch(batch: list[dict]) -> list:
        got = ask(batch)
        if got is None:
            got = []
            for q in batch:
                one = ask([q], single_timeout)
                got.append(one[0] if one else None)
        return got

    batches = [requests[i:i + 25] for i in range(0, len(requests), 25)]
    with ThreadPoolExecutor(max_workers=8) as ex:
        parts = list(ex.map(do_batch, batches))
    return [a for part in parts for a in part]


def tree_size(tj: list) -> int:
    return 1 + (sum(tree_size(k) for k in tj[4]) if tj[0] == "n" else 0)


def gio_oracle(patterns: list, tj: list) -> list:
    """[[regexId, leaf]] pairs accepted by re.fullmatch, for the leaves of one tree"""
    out = []
    leaves = {(tag, tuple(p)) for tag, p in gio.tree_leaves(tj) if tag != "i"}
    for rid, (kind, pat) in enumerate(patterns):
        for tag, p in sorted(leaves):
            try:
                if kind == "bytes" and tag == "b":
                    if re.fullmatch(pat.encode("latin-1"), bytes(p)):
                        out.append([rid, [tag, list(p)]])
                elif kind == "str" and tag == "t":
                    if re.fullmatch(pat, "".join(chr(c) for c in p)):
                        out.append([rid, [tag, list(p)]])
            except (re.error, ValueError):
                pass
    return out
