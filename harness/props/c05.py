"""C05 — what Fandango generates, Fandango parses back (round trip).

1. obligations: Props/C05.lean (lake build, axiom audit) + drivers drv_enum, drv_ir
2. words from two sources, for generated specs over the classes {text, regex incl. empty-matching, bytes incl.
   non-ASCII text, bits, recursive, nested/bounded repetitions {n} {n,m} {n,}}:
     (a) the real fuzzer: `Grammar.fuzz`, and `Fandango.fuzz` for specs with constraints (bounded)
     (b) the Lean enumerator (drv_enum): derivation trees with a machine-checked `Valid` witness
         (`C05_enum_sound`; the driver re-runs the verified checker on each) and regex tags
3. the property on the real code, every case in a worker process under a hard time limit: the tree is
   serialised as the CLI writes it (binary iff the grammar contains bytes/bits), parsed back with the same
   spec through `Fandango.parse` (grammar + constraints); some yielded tree must have the identical
   serialisation, and `cli/utils.py: validate()` must accept the first yielded tree.
   A witnessed word of the language that is rejected is a violation — unless the witness is outside the
   stated class (`regexGreedy` false, evaluated by the Lean driver with `re.match` as the oracle) or falls into
   an open finding, decided by a predicate on the witness:
     C05/empty-matching-regex            an empty leaf that instantiates a regex terminal
     C05/nonascii-text-next-to-binary    binary output and a text leaf with a code point >= 0x80
     C05/open-repetition-capped          more than nodes.MAX_REPETITIONS iterations of an open-ended {n,}
     C05/validate-compares-representation  the word IS parsed back and the first tree serialises to the very same
                                         output, but validate() rejects it (TreeValue('q') vs TreeValue(b'q') for a
                                         text-only tree of a binary spec; empty value vs '')
4. correspondence: every tree of the real fuzzer goes through the verified derivation checker (drv_ir) against
   the IR the enumerator runs on (ties the IR translation, in particular repetition bounds, to the generator).
"""
from __future__ import annotations

import json
import re
from typing import Any, Optional

from harness.common import Run, driver_ask, lean_check, use_repo
from harness.gen.grammars import gen_spec
from harness.impl import grammar_io as gio
from harness.impl.pool import run_pool

PID = "C05"
SIG_EMPTY = "C05/empty-matching-regex"
SIG_NONASCII = "C05/nonascii-text-next-to-binary"
SIG_OPENREP = "C05/open-repetition-capped"
SIG_VALIDATE = "C05/validate-compares-representation"
MAX_REPETITIONS = 20          # nodes.MAX_REPETITIONS; re-read from the implementation in main()

TRUSTED = [
    "Lean 4.33.0 kernel; axioms ⊆ {propext, Classical.choice, Quot.sound} (audited per run)",
    "the parser side of the round trip is NOT proved (needs recogniser completeness of an Earley model): it "
    "rests on this differential check; proved is the language side (every enumerated word has a Valid witness)",
    "harness/impl/grammar_io.py (real grammar -> IR JSON), tied per run by the verified checker on real "
    "fuzzer trees; harness/impl/c05_real.py (serialisation as the CLI, Fandango.parse, validate())",
    "regex instances: fixed candidate strings filtered by CPython re.fullmatch; greedy oracle: re.match",
    "harness/gen/grammars.py",
]

CORNER = [
    '<start> ::= r"[0-9]*" "x"\n',
    '<start> ::= b"\\xff" "é"\n',
    '<start> ::= "a" r"b?" "c"\n',
    '<start> ::= ("ab"){2}\n',
    '<start> ::= ("ab"){1,3} "c"\n',
    '<start> ::= ("ab"){0,2} "a"\n',
    '<start> ::= ("a"){2,} "b"\n',
    '<start> ::= (("a"){1,2} "-"){2,3}\n',
    '<start> ::= "a"? "b"? "c"\n',
    '<start> ::= <x>* <y>+\n<x> ::= "ab" | "a"\n<y> ::= "b"\n',
    '<start> ::= <byte> b"\\x00" <byte>\n<byte> ::= <bit>{8}\n<bit> ::= 0 | 1\n',
    '<start> ::= (0 1 0 0 0 0 0 1) "ab" b"\\x80"\n',
    '<start> ::= "(" <start> ")" | "x"\n',
    '<start> ::= <e>\n<e> ::= <e> "+" "n" | "n"\n',
    '<start> ::= r"[a-z]{2}" r"[0-9]+" "é€"?\n',
    '<start> ::= rb"[a-c]+" b"\\x00" "xyz"\n',
    '<start> ::= "ab" "c"?\nwhere len(str(<start>)) >= 3\n',
]


def mk_specs(run: Run, tier: str) -> list[dict]:
    rng = run.rng("grammars")
    quick = tier == "quick"
    specs = [{"spec": s, "cls": "corner", "features": ["corner"]} for s in CORNER]
    n_gen = 200 if quick else 1400
    classes = ["text", "regex", "bytes", "bits", "recursive", "regex", "bytes"]
    for i in range(n_gen):
        cls = classes[i % len(classes)]
        g = gen_spec(rng, cls, empty_regex=True, nonascii_binary=(i % 3 == 0), nested_reps=True)
        if cls in ("text", "regex") and i % 9 == 0:
            g["spec"] += "where len(str(<start>)) >= 2\n"
            g["features"].append("constraint")
        specs.append(g)
    for s in specs:
        s["seed"] = rng.randrange(1 << 30)
        s["constrained"] = "\nwhere " in s["spec"]
    return specs


# ------------------------------------------------------------------------------------------------
# classification of a rejected word
# ------------------------------------------------------------------------------------------------

def leaves_of(tj: list) -> list:
    return [[tag, list(p) if tag != "i" else p] for tag, p in gio.tree_leaves(tj)]


def max_fanout(tj: list) -> int:
    if tj[0] != "n":
        return 0
    return max([len(tj[4])] + [max_fanout(k) for k in tj[4]])


def conservative_greedy(patterns: list, binary: bool, word: list[int], leaves: list) -> bool:
    """for trees without tags (real fuzzer): False as soon as some leaf could be a regex instance that is not
    the greedy match at its position"""
    off8 = 0
    for tag, p in leaves:
        if tag == "i":
            off8 += 1
            continue
        if tag == "t" and binary:
            try:
                n = len("".join(chr(c) for c in p).encode("utf-8"))
            except UnicodeEncodeError:
                n = len(p)
        else:
            n = len(p)
        if off8 % 8 == 0:
            rest = word[off8 // 8:]
            val = "".join(chr(c) for c in p)
            for kind, pat in patterns:
                try:
                    if kind == "bytes" and tag == "b":
                        if re.fullmatch(pat.encode("latin-1"), bytes(p)):
                            m = re.match(pat.encode("latin-1"), bytes(rest)) if binary else None
                            if m is None or len(m.group(0)) != len(p):
                                return False
                    elif kind == "str" and tag == "t":
                        if re.fullmatch(pat, val):
                            m = re.match(pat, "".join(chr(u) for u in rest))
                            if m is None or len(m.group(0)) != n:
                                return False
                except (re.error, ValueError):
                    pass
        off8 += 8 * n
    return True


def classify(item: dict, res: dict, patterns: list, spec: str) -> Optional[str]:
    """signature of the open finding a rejected witness falls into, or None"""
    leaves = leaves_of(item["tree"])
    tags = item.get("tags")
    binary = res["binary"]
    empties = [i for i, (tag, p) in enumerate(leaves) if tag in ("t", "b") and len(p) == 0]
    if empties:
        if tags is not None:
            if any(tags[i] is not None for i in empties):
                return SIG_EMPTY
        else:
            has_empty_re = False
            for kind, pat in patterns:
                try:
                    has_empty_re |= bool(re.fullmatch(pat.encode("latin-1") if kind == "bytes" else pat,
                                                      b"" if kind == "bytes" else ""))
                except re.error:
                    pass
            if has_empty_re:
                return SIG_EMPTY
    if binary and any(tag == "t" and any(c >= 0x80 for c in p) for tag, p in leaves):
        return SIG_NONASCII
    if re.search(r"\{\d+,\}", spec) and max_fanout(item["tree"]) > MAX_REPETITIONS:
        return SIG_OPENREP
    return None


# ------------------------------------------------------------------------------------------------

def replay(path: str) -> int:
    use_repo()
    rp = json.load(open(path))
    if "spec" not in rp:
        print("replay: this file names broken obligations / correspondence cases, not an input:")
        print(json.dumps({k: rp[k] for k in rp if k in ("what", "broken_obligations", "correspondence")}, indent=1)[:3000])
        return 1
    res = run_pool("harness.impl.c05_real", [{"op": "roundtrip", "spec": rp["spec"], "patterns": rp.get("patterns", []),
                                              "items": [{"tree": rp["witness"]}], "item_s": 30}],
                   nproc=1, per_case_s=60, hard_s=120)[0]
    if "items" not in res:
        print("replay: the implementation did not answer:", res)
        return 2
    r = res["items"][0]
    print("spec:", rp["spec"].strip())
    print("witness tree:", json.dumps(rp["witness"]))
    print("serialised output:", r.get("word"), "(binary)" if r.get("binary") else "(text)")
    print("parsed back: trees tried =", r.get("n_trees"), " identical serialisation found =", r.get("found"),
          " validate(first) =", r.get("validate_first"), r.get("validate_err") or "", r.get("raised") or "",
          "TIMEOUT" if r.get("timeout") else "")
    bad = not r.get("found") or r.get("validate_first") is False
    print("replay:", "property violated" if bad else "no violation on the current tree")
    return 1 if bad else 0


def main(tier: str) -> int:
    global MAX_REPETITIONS
    run = Run(PID, tier, "proof")
    use_repo()
    from fandango.language.grammar import nodes as _nodes
    MAX_REPETITIONS = int(_nodes.MAX_REPETITIONS)
    lean = lean_check("Props.C05", ["drv_enum", "drv_ir"])
    quick = tier == "quick"
    specs = mk_specs(run, tier)
    # ---- phase A: real front end + real fuzzer
    gens = run_pool("harness.impl.c05_real",
                    [{"op": "gen", "spec": s["spec"], "seed": s["seed"], "n_fuzz": 0 if s["constrained"] else (3 if quick else 8),
                      "constraints": ["inline"] if s["constrained"] else None} for s in specs],
                    nproc=16, per_case_s=30 if quick else 60, hard_s=150 if quick else 600)
    # ---- the enumerator
    enum_reqs, enum_idx = [], []
    for i, (s, g) in enumerate(zip(specs, gens)):
        if "grammar" not in g:
            run.count("spec:" + ("timeout" if g.get("timeout") else "error"))
            continue
        run.count("spec:ok")
        if s["constrained"]:
            continue
        for rot in ((0, 1) if quick else (0, 1, 2, 3)):
            enum_reqs.append({"op": "enum", "grammar": g["grammar"], "inst": g["inst"], "start": "<start>",
                              "depth": 5, "cap": 3, "lim": 10 if quick else 30, "rot": rot})
            enum_idx.append(i)
    enum_ans = driver_ask("drv_enum", enum_reqs, timeout=900) if enum_reqs else []
    items_by_spec: dict[int, list] = {}
    for i, a in zip(enum_idx, enum_ans):
        lst = items_by_spec.setdefault(i, [])
        seen = {json.dumps(x["tree"]) for x in lst}
        for t in a["trees"]:
            key = json.dumps(t["tree"])
            if key not in seen and len(lst) < (10 if quick else 60):
                seen.add(key)
                lst.append({"tree": t["tree"], "tags": t["tags"], "src": "enumerator"})
                run.count("enum:trees")
    # explicit witness for the open-ended repetition cap
    for i, s in enumerate(specs):
        if s["spec"] == '<start> ::= ("a"){2,} "b"\n':
            kids = [["t", [97], None, None] for _ in range(MAX_REPETITIONS + 1)] + [["t", [98], None, None]]
            items_by_spec.setdefault(i, []).append({"tree": ["n", "<start>", None, None, kids],
                                                    "tags": [None] * (MAX_REPETITIONS + 2), "src": "explicit"})
    # ---- fuzzer trees, through the verified derivation checker (ties the IR translation to the generator)
    valid_reqs, valid_ref = [], []
    for i, (s, g) in enumerate(zip(specs, gens)):
        if "grammar" not in g:
            continue
        for f in g["fuzzed"]:
            if "tree" not in f:
                run.count("fuzz:error")
                continue
            items_by_spec.setdefault(i, []).append({"tree": f["tree"], "tags": None, "src": f["src"]})
            run.count("fuzz:" + f["src"])
            if tree_size(f["tree"]) > 60:
                run.count("corr:tree_too_big_for_checker")
                continue
            oracle = gio_oracle(g["patterns"], f["tree"])
            valid_reqs.append({"op": "valid", "grammar": g["grammar"], "oracle": oracle, "tree": f["tree"]})
            valid_ref.append((i, f["tree"]))
    corr: list = []
    if valid_reqs:
        for (i, tj), a in zip(valid_ref, limited_driver_ask("drv_ir", valid_reqs)):
            if a is None:
                run.count("corr:checker_out_of_resources")
                run.coverage.setdefault("checker_out_of_resources", []).append(
                    {"spec": specs[i]["spec"], "tree_nodes": tree_size(tj)})
                continue
            run.count("corr:fuzz_tree_checked")
            if not a["valid"]:
                corr.append({"kind": "fuzzer tree rejected by the verified checker", "spec": specs[i]["spec"],
                             "tree": tj, "bad": a["bad"]})
    # ---- phase B: the round trip on the real code
    rt_cases, rt_idx = [], []
    for i, items in items_by_spec.items():
        if items:
            rt_cases.append({"op": "roundtrip", "spec": specs[i]["spec"], "patterns": gens[i]["patterns"],
                             "items": items, "item_s": 6 if quick else 15,
                             "constraints": ["inline"] if specs[i]["constrained"] else None})
            rt_idx.append(i)
    rts = run_pool("harness.impl.c05_real", rt_cases, nproc=16, per_case_s=120 if quick else 600,
                   hard_s=170 if quick else 1300)
    greedy_reqs, greedy_ref = [], []
    records = []
    for i, case, rt in zip(rt_idx, rt_cases, rts):
        if "items" not in rt:
            run.count("roundtrip:" + ("timeout" if rt.get("timeout") else "killed" if rt.get("killed") else "error"))
            continue
        for item, r in zip(case["items"], rt["items"]):
            records.append((i, item, r))
            if item.get("tags") is not None and "word" in r:
                greedy_reqs.append({"op": "greedy", "binary": r["binary"], "word": r["word"], "leaves": r["leaves"],
                                    "tags": item["tags"], "oracle": r["greedy_table"]})
                greedy_ref.append(len(records) - 1)
    greedy: dict[int, bool] = {}
    if greedy_reqs:
        for k, a in zip(greedy_ref, driver_ask("drv_enum", greedy_reqs, timeout=900)):
            greedy[k] = a["greedy"]
    for k, (i, item, r) in enumerate(records):
        s, g = specs[i], gens[i]
        src = item["src"]
        if r.get("unserialisable"):
            run.count("unserialisable:" + r["unserialisable"])
            continue
        if r.get("timeout"):
            run.count("item:timeout")
            continue
        in_class = greedy[k] if k in greedy else conservative_greedy(g["patterns"], r["binary"], r["word"],
                                                                      leaves_of(item["tree"]))
        ok = bool(r["found"]) and r["validate_first"] is not False
        nontrivial = len(r["word"]) >= 2 and len(leaves_of(item["tree"])) >= 2
        run.case([s["spec"], r["word"], src], nontrivial,
                 {"spec": s["spec"], "source": src, "word": r["word"], "accepted": ok, "in_class": in_class})
        run.count("src:" + src)
        run.count(f"class:{s['cls']}")
        for f in s.get("features", []):
            run.count("feature:" + f)
        run.count("in_class" if in_class else "out_of_class(regex split not greedy)")
        run.count("accepted" if ok else "rejected")
        run.count("len:%d" % min(len(r["word"]), 12))
        if ok:
            continue
        replay_d = {"spec": s["spec"], "word": r["word"], "witness": item["tree"], "source": src,
                    "patterns": g["patterns"]}
        why = r.get("raised") or ("validate() rejects the first tree: " + str(r.get("validate_err"))
                                  if r["found"] else f"no tree with the identical serialisation among {r['n_trees']} yielded")
        what = (f"{s['spec'].strip()!r}: the {'binary' if r['binary'] else 'text'} output {r['word']} of a "
                f"{src} tree is not parsed back ({why})")
        sig = classify(item, r, g["patterns"], s["spec"])
        if r["found"] and r["validate_first"] is False:
            # the word is parsed back; only the CLI's validate() objects
            # open finding: validate() compares the two TreeValues by representation (str vs bytes vs empty),
            # not by what is written to the file — decided by: the first tree serialises to the very same output
            sig = SIG_VALIDATE if r.get("first_same") else None
            if sig is None:
                run.report("C05/validate-contract", what, replay_d)
                continue
        if sig is None and not in_class:
            run.count("rejected:out_of_class")
            continue
        if sig is not None:
            run.count("known:" + sig)
            if run.counters["known:" + sig] <= 3:      # a few witnesses per open finding are enough on the console
                run.report(sig, what, replay_d)
        else:
            run.report("C05/word-rejected", what, replay_d)
    run.coverage["traces_validated_against_impl"] = run.counters.get("corr:fuzz_tree_checked", 0)
    run.coverage["correspondence_disagreements"] = len(corr)
    run.coverage["disagreement_samples"] = corr[:5]
    ok_share = run.counters.get("spec:ok", 0) / max(1, len(specs))
    if ok_share < 0.6 or run.evaluations < 50:
        from harness.common import MachineryError
        raise MachineryError(f"too few cases could be run: {run.counters}")
    if (not lean.ok or corr) and not run.violations:
        what = []
        if not lean.ok:
            what.append("proof obligations of Props/C05.lean no longer check: " + json.dumps(lean.broken)[:600])
        if corr:
            what.append(f"IR/implementation correspondence broken on {len(corr)} cases, e.g. " + json.dumps(corr[0])[:600])
        run.report("C05/unproved", "; ".join(what),
                   {"broken_obligations": lean.broken, "correspondence": corr[:20]}, no_input=True)
    return run.finish(
        lean,
        rule="specs: corner list + seeded generator over {text, regex (incl. empty-matching), bytes (incl. "
             "non-ASCII text), bits, recursive} with nested/bounded repetitions; words: Grammar.fuzz, "
             "Fandango.fuzz (constrained specs), Lean enumerator (depth 5, repetition counts <= 3, 4 instances "
             "per regex, truncated lists, rotated alternatives); a case is non-trivial when the word has >= 2 "
             "units and the witness >= 2 leaves; distinct by (spec, word, source)",
        trusted_base=TRUSTED)


def limited_driver_ask(exe: str, requests: list[dict], mem_gb: float = 6.0, timeout: int = 20,
                       single_timeout: int = 6) -> list:
    """like common.driver_ask, but under an address-space limit and in small batches: the shared derivative
    matcher can need exponential space on nested bounded repetitions.  A request that cannot be answered
    within the limits yields None (counted by the caller, never a verdict)."""
    import resource
    import subprocess
    from harness.common import LEAN, MachineryError
    path = LEAN / ".lake" / "build" / "bin" / exe
    if not path.exists():
        raise MachineryError(f"driver {exe} is not built")
    lim = int(mem_gb * (1 << 30))

    def pre():
        resource.setrlimit(resource.RLIMIT_AS, (lim, lim))

    def ask(batch: list[dict], tmo: int = timeout) -> Optional[list]:
        data = "".join(json.dumps(r, separators=(",", ":")) + "\n" for r in batch)
        try:
            r = subprocess.run([str(path)], input=data, stdout=subprocess.PIPE, stderr=subprocess.DEVNULL,
                               text=True, timeout=tmo, preexec_fn=pre)
        except subprocess.TimeoutExpired:
            return None
        lines = [ln for ln in r.stdout.splitlines() if ln.strip()]
        if r.returncode != 0 or len(lines) != len(batch):
            return None
        out = [json.loads(ln) for ln in lines]
        for q, a in zip(batch, out):
            if isinstance(a, dict) and "driver_error" in a:
                raise MachineryError(f"driver {exe} rejected {json.dumps(q)[:300]}: {a['driver_error']}")
        return out

    from concurrent.futures import ThreadPoolExecutor

    def do_batch(batch: list[dict]) -> list:
        got = ask(batch)
        if got is None:
            got = []
            for q in batch:
                one = ask([q], single_timeout)
                got.append(one[0] if one else None)
        return got

    batches = [requests[i:i + 25] for i in range(0, len(requests), 25)]
    with ThreadPoolExecutor(max_workers=8) as ex:
        parts = list(ex.map(do_batch, batches))
    return [a for part in parts for a in part]


def tree_size(tj: list) -> int:
    return 1 + (sum(tree_size(k) for k in tj[4]) if tj[0] == "n" else 0)


def gio_oracle(patterns: list, tj: list) -> list:
    """[[regexId, leaf]] pairs accepted by re.fullmatch, for the leaves of one tree"""
    out = []
    leaves = {(tag, tuple(p)) for tag, p in gio.tree_leaves(tj) if tag != "i"}
    for rid, (kind, pat) in enumerate(patterns):
        for tag, p in sorted(leaves):
            try:
                if kind == "bytes" and tag == "b":
                    if re.fullmatch(pat.encode("latin-1"), bytes(p)):
                        out.append([rid, [tag, list(p)]])
                elif kind == "str" and tag == "t":
                    if re.fullmatch(pat, "".join(chr(c) for c in p)):
                        out.append([rid, [tag, list(p)]])
            except (re.error, ValueError):
                pass
    return out
