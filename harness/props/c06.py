"""C06 — parsing always terminates.

1. obligations: `harness/translate_earley.py` reads the admission policy of the chart from the source
   (`ParseState.__hash__/__eq__`, `Column.add`, the covering cut in `complete`) → `Generated/Earley.lean`;
   `Props/C06.lean` (finite core item space, termination of the core recogniser, the verdict for the generated
   policy, the machine-checked divergence witness) is built and audited.
2. tie: every generated (grammar, start, input) is parsed by the real parser in a worker process under a step
   meter (`Column.add`, `IterativeParser.complete` counted) and a hard alarm.  The model (`drv_earley`) gets the
   same grammar, the same input, the regex oracle and the order in which `predict` added alternatives, and must
   (a) finish with the core policy within the proved bound, (b) with the generated policy admit *the same states
   per column* (core item + number of children, as multisets) and yield the same forest.
3. the property on the real code: forest request, first-tree request and prefix request must all come back
   before the cap.  A divergence inside the model's class `hasEpsCycle` (some nonterminal derives itself over the
   same span: nullable body under `*`/`+`, nullable right recursion, unit cycles) is the known finding
   `C06/nullable-under-unbounded-repetition`; a divergence outside it is a violation.
"""
from __future__ import annotations

import json
from pathlib import Path
from typing import Any, Optional

from harness import translate_earley
from harness.common import VERIF, MachineryError, Run, driver_ask, lean_check, use_repo
from harness.gen import earley_cases as gen
from harness.impl import earley_io as eio
from harness.impl import grammar_io as gio

PID = "C06"
SIG_KNOWN = "C06/nullable-under-unbounded-repetition"
SIG_PREFIX = "C06/left-recursion-in-prefix-mode"
CORPUS = VERIF / "corpus" / "C06"

TRUSTED = [
    "Lean 4.33.0 kernel; axioms ⊆ {propext, Classical.choice, Quot.sound} (audited per run); `decide +kernel` "
    "only for the finite divergence witness",
    "hand-written model lean/Model/Earley.lean of iterative_parser.py / column.py / parse_state.py (one-shot, "
    "COMPLETE mode); tied by this run's per-column state comparison (generator-bounded)",
    "translator harness/translate_earley.py (which fields hash/eq use, the membership test of Column.add, the covering cut)",
    "CPython `re.match` as the greedy regex-length oracle; the iteration order of the Python sets `predict` builds is "
    "recorded from the real run and passed to the model (every theorem holds for all orders)",
    "prefix (INCOMPLETE) mode, incomplete states, computed repetitions are not modelled: prefix / first-tree requests are "
    "only observed under the meter and the cap",
]


# ------------------------------------------------------------------------------------------------
# cases
# ------------------------------------------------------------------------------------------------

def make_tasks(run: Run, tier: str) -> list[dict]:
    rng = run.rng("cases")
    quick = tier == "quick"
    n_grammars = 110 if quick else 1400
    per = 4 if quick else 8
    max_cells = 6 if quick else 10
    cap_s = 3.0 if quick else 6.0
    grammars: list[dict] = []

    def add(spec: str, mode: str, tags: set, origin: str, words: Optional[list] = None):
        try:
            grammar, _ = eio.parse_spec_guarded(spec, 5.0)
            gj, regexes = gio.grammar_to_json(grammar)
            from fandango.language.grammar import nodes as nodes_mod
            cap = int(getattr(nodes_mod, "MAX_REPETITIONS", 20))
        except Exception as e:  # noqa
            run.count(f"gen_spec_error:{type(e).__name__}")
            return
        grammars.append({"spec": spec, "mode": mode, "tags": tags, "origin": origin, "words": words,
                         "gj": gj, "regexes": regexes, "cap": cap})

    if CORPUS.exists():
        for f in sorted(CORPUS.glob("*.json")):
            c = json.loads(f.read_text())
            add(c["spec"], c.get("mode", "text"), {"corpus"}, "corpus", [eio.word_of(c["word"])])
    for spec, mode in gen.HANDWRITTEN + gen.corner_specs():
        ws = [b"ab", b"a", b"", b"a\x00", b"ab\x00"] if mode != "text" else ["ab", "aab", "b", "", "a", "aaab", "yxy"]
        add(spec, mode, {"handwritten"}, "handwritten", ws[: (3 if quick else 7)])
    for i in range(n_grammars):
        if rng.random() < 0.7:
            spec, mode, tags = gen.stress_spec(rng)
            add(spec, mode, tags, "stress")
        else:
            spec, mode, tags = gen.preset_spec(rng)
            add(spec, mode, tags, "shared")
    # the model's class predicate decides how long a grammar may run: a grammar inside hasEpsCycle is expected
    # to diverge (known finding), two inputs and a short cap are enough to observe that
    comp = driver_ask("drv_earley", [{"op": "compile", "grammar": g["gj"], "cap": g["cap"]} for g in grammars])
    tasks: list[dict] = []
    n_eps = 0
    for g, c in zip(grammars, comp):
        eps = bool(c["epscycle"])
        if eps:
            n_eps += 1
            if g["origin"] in ("stress", "shared") and n_eps > (25 if quick else 200):
                run.count("gen:epscycle_skipped")
                continue
        names = [n for n, _ in g["gj"]["rules"]]
        start = "<start>" if rng.random() < 0.8 or len(names) < 2 else rng.choice(names)
        ins = [(w, "given") for w in g["words"]] if g["words"] is not None else \
            gen.inputs_for(g["gj"], g["regexes"].patterns, start, g["mode"], rng, per, max_cells)
        if eps:
            ins = ins[:2]
        for w, worigin in ins:
            tasks.append({"id": len(tasks), "spec": g["spec"], "start": start, "word": eio.word_json(w),
                          "cap_s": 1.5 if eps else cap_s, "max_trees": 300, "modes": True, "eps_pre": eps,
                          "tags": sorted(g["tags"]) + [g["origin"], "in:" + worigin, "mode:" + g["mode"]]})
    return tasks


# ------------------------------------------------------------------------------------------------
# judging
# ------------------------------------------------------------------------------------------------

BIG_FUEL = 4_000_000


def model_runs(reals: list[dict], tasks: list[dict], policy: str) -> tuple[list[Optional[dict]], list[Optional[dict]]]:
    """(core run, generated-policy run) per case (None where the real side gave no grammar); the policy run is only
    asked where the real parser finished (or diverged outside the class), with fuel proportional to the real meter"""
    reqs, where = [], []
    for i, (t, r) in enumerate(zip(tasks, reals)):
        if "grammar" not in r:
            continue
        m = r.get("meter", {})
        reqs.append(eio.model_request(r, t, "core", BIG_FUEL))
        where.append((i, 0))
        st = r["status"]
        if st == "ok" or (st.startswith("exc:") and st != "exc:RecursionError"):
            fuel = 40 * (m.get("adds", 0) + m.get("completes", 0)) + 5000
            if m.get("adds", 0) > 6000:
                continue                      # too big for the list-based model: counted, not compared
        elif st in ("timeout", "killed", "exc:RecursionError") and (policy != "impl" or not t.get("eps_pre")):
            fuel = 20000
        else:
            continue
        reqs.append(eio.model_request(r, t, policy, fuel))
        where.append((i, 1))
    answers = driver_ask("drv_earley", reqs, timeout=1500) if reqs else []
    core: list[Optional[dict]] = [None] * len(tasks)
    pol: list[Optional[dict]] = [None] * len(tasks)
    for (i, which), a in zip(where, answers):
        (core if which == 0 else pol)[i] = a
    return core, pol


def diverged(r: dict) -> Optional[str]:
    """which request of the real parser did not come back — or came back only because the interpreter's stack
    overflowed while an infinite forest of ever deeper trees was being enumerated (`RecursionError`)"""
    bad = ("timeout", "killed", "exc:RecursionError")
    if r["status"] in bad:
        return "forest"
    modes = r.get("modes") or {}
    for name in ("first", "prefix"):
        if modes.get(name) in bad:
            return name
    return None


def how_of(r: dict, which: str) -> str:
    st = r["status"] if which == "forest" else (r.get("modes") or {}).get(which, "")
    return "stack overflow (RecursionError) while enumerating ever deeper trees" if st == "exc:RecursionError" \
        else "no answer within the cap"


def replay_dict(t: dict, extra: Optional[dict] = None) -> dict:
    d = {"spec": t["spec"], "start": t["start"], "word": t["word"], "cap_s": max(10.0, t.get("cap_s", 5.0))}
    if extra:
        d.update(extra)
    return d


def shrink(t: dict, still_fails) -> dict:
    """delete rules / cells while the failure stays (each probe is a real run in a worker)"""
    best = dict(t)
    budget = 40
    changed = True
    while changed and budget > 0:
        changed = False
        lines = [ln for ln in best["spec"].splitlines() if ln.strip()]
        cells = best["word"]["cells"]
        cands = []
        for i in range(1, len(lines)):
            cands.append({**best, "spec": "\n".join(lines[:i] + lines[i + 1:]) + "\n"})
        for i in range(len(cells)):
            cands.append({**best, "word": {**best["word"], "cells": cells[:i] + cells[i + 1:]}})
        for c in cands:
            budget -= 1
            if budget <= 0:
                break
            if still_fails(c):
                best = c
                changed = True
                break
    return best


def judge(run: Run, tasks: list[dict], reals: list[dict], core: list, pol: list, policy: str,
          corr_failures: list, info: dict) -> None:
    # which divergences the *code as it is* is expected to show (from the translated policy): with the acyclic cut
    # in place a request that does not come back inside a class is an ambiguity explosion like anywhere else
    eps_expected = policy == "impl"
    left_expected = not info.get("prefix_cut")
    for t, r, mc, mp in zip(tasks, reals, core, pol):
        st = r["status"]
        for tag in t["tags"]:
            run.count("tag:" + tag)
        run.count("real:" + (st if st.startswith("exc:") else st.split(":")[0]))
        if "grammar" not in r:
            continue
        if mc is None:
            raise MachineryError("model answer missing")
        eps = bool(mc["epscycle"])
        run.count("class:epscycle" if eps else "class:leftcycle" if mc.get("leftcycle") else "class:acyclic")
        ncells = len(t["word"]["cells"])
        run.count(f"cells:{ncells}")
        nontrivial = ncells > 0 and any(len(c) > 1 for c in (r.get("cols") or [[], []])[1:])
        run.case([t["spec"], t["start"], t["word"]], nontrivial,
                 {"spec": t["spec"], "start": t["start"], "word": t["word"], "real": st,
                  "meter": r.get("meter"), "modes": r.get("modes"), "epscycle": eps,
                  "model_core_steps": mc["steps"],
                  "model_policy": [mp["status"], mp["steps"]] if mp else None})
        # (a) the core recogniser of the model always finishes (theorem C06_recognise_terminates)
        if mc["status"] == "fuel":
            corr_failures.append({"case": replay_dict(t), "what": "model core policy did not finish within the fuel",
                                  "steps": mc["steps"]})
        # (3) the property on the real code
        which = diverged(r)
        if which is not None:
            run.count("diverged:" + which)
            what = (f"{which} request: {how_of(r, which)} ({t['cap_s']} s): start {t['start']} input "
                    f"{eio.word_of(t['word'])!r} grammar {t['spec'].strip()!r}; states admitted so far: "
                    f"{r.get('meter', {}).get('admitted')}")
            if eps and eps_expected:
                run.report(SIG_KNOWN, what, replay_dict(t, {"class": "hasEpsCycle"}))
            elif which == "prefix" and mc.get("leftcycle") and left_expected:
                run.report(SIG_PREFIX, what, replay_dict(t, {"class": "hasLeftCycle", "mode": "prefix"}))
            else:
                # outside the expected classes a request that does not come back within the cap is either a genuine
                # divergence or an ambiguity explosion (finite, exponential: e.g. a body that is nullable in two ways
                # under `{1,}` = 20 nested copies).  Waiting cannot tell them apart; the model can: if the model with
                # the code's admission policy finishes (forest / first tree) the real parser has no reason not to.
                # Prefix mode is not modelled: a prefix request outside the expected class is counted, not judged.
                model_finishes = mp is not None and mp["status"] in ("done", "raised")
                if which == "prefix" or not model_finishes or "RecursionError" in how_of(r, which):
                    run.count("undecided:" + which + "_explosion_outside_class")
                    continue

                def still(c):
                    rr = eio.run_pool([{**c, "modes": True, "cap_s": 6.0}], workers=1)[0]
                    return "grammar" in rr and diverged(rr) == which
                if not still(t):
                    run.count("diverged:not_reproduced_with_longer_cap")
                    continue
                small = shrink(t, still)
                run.report("C06/divergence", what + " — outside the model's classes (hasEpsCycle / hasLeftCycle); the "
                           "model with the same admission policy finishes", 
                           replay_dict(small, {"class": "acyclic", "original": replay_dict(t)}))
            continue
        pst = (r.get("modes") or {}).get("prefix")
        if pst == "truncated" and mc.get("leftcycle") and not eps and left_expected:
            run.count("prefix:truncated_in_class")
            run.report(SIG_PREFIX, f"prefix request yields more than {t['max_trees']} trees of an infinite forest: input "
                       f"{eio.word_of(t['word'])!r} grammar {t['spec'].strip()!r}",
                       replay_dict(t, {"class": "hasLeftCycle", "mode": "prefix-unbounded"}))
        if st == "truncated":
            run.count("forest:truncated")
            if eps and eps_expected:
                # the forest generator keeps yielding: the whole-forest request never ends
                run.report(SIG_KNOWN, f"whole-forest request yields more than {t['max_trees']} trees of an infinite "
                           f"forest: input {eio.word_of(t['word'])!r} grammar {t['spec'].strip()!r}",
                           replay_dict(t, {"class": "hasEpsCycle", "mode": "forest-unbounded"}))
            continue
        if not (st == "ok" or st.startswith("exc:")):
            continue
        if mp is None:
            run.count("corr:skipped_big")
            continue
        # (2) correspondence: same states per column, same forest, same outcome
        want_status = "raised" if st.startswith("exc:") else "done"
        if st.startswith("exc:") and st != "exc:IndexError":
            corr_failures.append({"case": replay_dict(t), "what": f"real parser raised {st}, not modelled"})
            continue
        if mp["status"] == "fuel":
            corr_failures.append({"case": replay_dict(t), "what": "model (generated policy) ran out of fuel, real finished",
                                  "steps": mp["steps"], "meter": r.get("meter")})
            continue
        if mp["status"] != want_status:
            corr_failures.append({"case": replay_dict(t), "what": f"real {st}, model {mp['status']}"})
            continue
        if st == "ok":
            mcols, rcols = eio.canon_cols(mp["cols"]), eio.canon_cols(r["cols"])
            if mcols != rcols:
                k = next((i for i, (a, b) in enumerate(zip(mcols, rcols)) if a != b), -1)
                a, b = mcols[k], rcols[k]
                corr_failures.append({"case": replay_dict(t), "what": f"admitted states differ in column {k}",
                                      "model_only": [x for x in a if x not in b][:3],
                                      "real_only": [x for x in b if x not in a][:3]})
                continue
            if eio.canon_forest(mp["forest"]) != eio.canon_forest(r["forest"]):
                corr_failures.append({"case": replay_dict(t), "what": "forests differ",
                                      "model": len(mp["forest"]), "real": len(r["forest"])})
                continue
            run.count("corr:equal")
            if eps:
                run.count("corr:equal_in_class")
            # meter: far more admissions than (core item space) x (forest size) would be a work explosion
            space = sum(len(c) for c in mc["cols"]) or 1
            if r["meter"]["adds"] > 64 * space * max(1, len(mp["forest"])):
                run.report("C06/work-explosion", f"{r['meter']['adds']} admissions for a core item space of {space} and "
                           f"{len(mp['forest'])} trees: {t['spec'].strip()!r} on {eio.word_of(t['word'])!r}", replay_dict(t))
        else:
            run.count("corr:raised_equal")


def known_reproducer(run: Run, policy: str) -> None:
    """the design's witness, replayed on the implementation on every run"""
    t = {"id": "G0", "spec": '<start> ::= ("a"?)* "b"\n', "start": "<start>", "word": eio.word_json("ab"),
         "cap_s": 4.0, "max_trees": 50, "modes": False, "tags": []}
    r = eio.run_pool([t], workers=1)[0]
    run.coverage["witness_G0"] = {"status": r["status"], "meter": r.get("meter")}
    if r["status"] in ("timeout", "killed"):
        run.report(SIG_KNOWN, 'witness of Props/C06.lean: <start> ::= ("a"?)* "b", parse("ab") does not return; '
                   f"{r.get('meter', {}).get('admitted')} states admitted when stopped", replay_dict(t, {"class": "hasEpsCycle"}))


# ------------------------------------------------------------------------------------------------
# entry points
# ------------------------------------------------------------------------------------------------

def replay(path: str) -> int:
    use_repo()
    rp = json.load(open(path))
    if "spec" not in rp:
        print("replay: no concrete input in this file (", rp.get("what", "")[:300], ")")
        return 1
    t = {"id": 0, "spec": rp["spec"], "start": rp.get("start", "<start>"), "word": rp["word"],
         "cap_s": float(rp.get("cap_s", 10.0)), "max_trees": 300, "modes": True}
    r = eio.run_pool([t], workers=1)[0]
    print("grammar:", rp["spec"].strip().replace("\n", " ; "), "| start", t["start"], "| input", repr(eio.word_of(t["word"])))
    print("real:", r["status"], r.get("meter"), r.get("modes"))
    bad = ("grammar" in r and diverged(r) is not None) or (r["status"] == "truncated" and rp.get("mode") == "forest-unbounded")
    print("replay:", "property violated (a parse request does not return)" if bad else "no violation on the current tree")
    return 1 if bad else 0


def main(tier: str) -> int:
    run = Run(PID, tier, "proof")
    use_repo()
    info = translate_earley.regenerate()
    lean = lean_check("Props.C06", ["drv_earley"])
    for rf in info["refusals"]:
        lean.broken.append({"module": "Generated.Earley", "reason": "translator refused: " + rf})
    policy = info["policy"] or "impl"
    run.coverage["generated_policy"] = info
    corr_failures: list = []
    known_reproducer(run, policy)
    tasks = make_tasks(run, tier)
    reals = eio.run_pool(tasks, workers=16)
    core, pol = model_runs(reals, tasks, policy)
    judge(run, tasks, reals, core, pol, policy, corr_failures, info)
    # the verdict theorem says "diverges" for policy impl: that IS the property being false; it is reported through
    # the witness above (known finding while listed).  A refused translation or a broken build is a broken obligation.
    run.coverage["traces_validated_against_impl"] = run.counters.get("corr:equal", 0) + run.counters.get("corr:raised_equal", 0)
    run.coverage["correspondence_disagreements"] = len(corr_failures)
    run.coverage["disagreement_samples"] = corr_failures[:5]
    if (not lean.ok or corr_failures) and not run.violations:
        what = []
        if not lean.ok:
            what.append("proof obligations of Props/C06.lean no longer check: " + json.dumps(lean.broken)[:600])
        if corr_failures:
            what.append(f"model/implementation correspondence broken on {len(corr_failures)} cases, e.g. "
                        + json.dumps(corr_failures[0])[:500])
        # deeper search already happened (every generated case ran under the meter); no diverging input outside the class
        run.report("C06/unproved", "; ".join(what),
                   {"broken_obligations": lean.broken, "correspondence": corr_failures[:20]}, no_input=True)
    return run.finish(
        lean,
        rule="(grammar, start, input): handwritten nullable/cyclic grammars + stress generator (nullable symbols, ?/*/+/{n,} "
             "nested, empty literals, left/right/unit recursion, bits off the byte boundary, empty-matching regexes) + shared "
             "productive generator; inputs derived from the IR, near misses, random strings; each parsed by the real parser "
             "in a worker under a step meter and an alarm (forest, first-tree, prefix requests); nontrivial = some later "
             "column holds more than one state",
        explanation="per case: model core policy finishes (theorem), model with the generated policy admits the same "
                    "states per column and yields the same forest as the real parser; a request that does not return is a "
                    "known finding inside hasEpsCycle and a violation outside",
        trusted_base=TRUSTED)
