"""C06 — parsing always terminates.

1. obligations: `harness/translate_earley.py` reads the variant of the parser from the source (admission policy:
   `ParseState.__hash__/__eq__`, `Column.add`, the covering cut in `complete`; the compilation of `{n,}`; the loop that
   ends `predict`; the three scanner guards) → `Generated/Earley.lean`; `Props/C06.lean` (finite core item space,
   termination of the core recogniser for all grammars, "no run is longer than stepBoundN(N) unless a column outgrows
   N" for EVERY admission rule, the verdict for the generated variant, the OLD divergence witness) is built and audited.
2. tie: every generated (grammar, start, input) is parsed by the real parser in a worker process under a step
   meter (`Column.add`, `IterativeParser.complete`, `ParseState()` counted).  Caps are counted in *steps*; the
   wall-clock alarm is a generous backstop whose expiry is never a verdict by itself (re-run alone; stalled meter =
   a loop outside the metered operations = violation, growing meter = machinery error).  The model (`drv_earley`) gets the
   same grammar, the same input, the regex oracle and the order in which `predict` added alternatives, and must
   (a) finish with the core policy within the proved bound, (b) with the generated variant admit *the same states
   per column* (core item + number of children, as multisets) and yield the same forest, and (c) the real parser's
   metered work must stay within (maxAlts + 2) x the model's step count.
3. the property on the real code: forest request, first-tree request and prefix request must all come back.  The chart
   of this parser holds one state per (item, children list): grammars with much same-span ambiguity (empty-deriving
   bodies under nested repetitions) have finite but huge charts, so NO fixed step limit is a verdict.  A forest /
   first-tree request over the limit is decided by the model: if the model finishes in S steps the real parser must
   finish within (maxAlts + 2) * S metered steps — otherwise VIOLATION with the input; if the model does not finish
   within its fuel either, the case is counted undecided and the two unfinished charts must agree in lock step.
   While the source has the OLD admission rule (translator: policy `impl`) a divergence inside the model's class
   `hasEpsCycle` is routed to `C06/nullable-under-unbounded-repetition`, a prefix divergence inside `prefix_cycle` to
   `C06/prefix-completion-cycle` (both fixed in /repo: a hit is a violation again).
   PREFIX MODE is modelled (`Model/EarleyPrefix.lean`, theorem `C06_prefix_terminates`): for every case the recorded
   `parse_forest(word, mode=INCOMPLETE)` run of the real parser (a grammar object of its own; per column the admitted
   states — in the last column also the incomplete states and the states the forced completions add, each with its
   `is_incomplete` flag; the last column before the final shortcut with the `cut_short` flags of the source that has
   them — and the yielded trees) is compared with `parsePrefix` of the model (`judge_prefix`: states per
   column as multisets, yielded trees as a multiset; a request abandoned after `max_trees` = 300 trees is compared at
   that point: the model is stopped after as many yields).  The second regex oracle (`regex` module, partial matching)
   is computed by the harness independently of fandango.  A prefix request over the step limit is decided by the
   model like a forest request (model finishes in S steps -> the real parser must finish within (maxAlts + 2) * S;
   model does not finish within its fuel either -> lock step); only where the model was not asked (sample cap) the
   old rule applies (counted inside the cyclic classes, 10x re-run outside them).
4. fuzzing steps that parse internally (generator output parsed under its nonterminal; equality repair parsing the
   wanted value) run under the same meter; a fuzz run over its limit is reduced to the parse request it makes
   internally, which is judged as in 3.
"""
from __future__ import annotations

import json
from pathlib import Path
from typing import Any, Optional

from harness import translate_earley
from harness.common import VERIF, MachineryError, Run, driver_ask, lean_check, use_repo
from harness.gen import earley_cases as gen
from harness.impl import c06_fuzz
from harness.impl import earley_io as eio
from harness.impl import grammar_io as gio

PID = "C06"
SIG_KNOWN = "C06/nullable-under-unbounded-repetition"
SIG_PREFIX = "C06/prefix-completion-cycle"
CORPUS = VERIF / "corpus" / "C06"

TRUSTED = [
    "Lean 4.33.0 kernel; axioms ⊆ {propext, Classical.choice, Quot.sound} (audited per run); `decide +kernel` "
    "only for the finite divergence witness",
    "hand-written model lean/Model/Earley.lean of iterative_parser.py / column.py / parse_state.py (one-shot, "
    "COMPLETE mode); tied by this run's per-column state comparison (generator-bounded)",
    "translator harness/translate_earley.py (which fields hash/eq use, the membership test of Column.add, the covering cut)",
    "CPython `re.match` as the greedy regex-length oracle; the iteration order of the Python sets `predict` builds is "
    "recorded from the real run and passed to the model (every theorem holds for all orders)",
    "hand-written model lean/Model/EarleyPrefix.lean of INCOMPLETE mode (one-shot: the incomplete states of scan_bytes / "
    "scan_regex, the end-of-input pass of _consume with its forced completions, `_incomplete`, yield order); tied by this "
    "run's comparison of the recorded prefix run (states per column incl. incomplete / force-completed ones, yielded trees); "
    "one documented deviation (an ordinary state admitted to the last column after an incomplete state with the same item "
    "and children) would show as a correspondence failure",
    "the `regex` module's partial matching as the oracle for `Terminal.check(…, incomplete=True)`, computed by the harness",
    "computed repetitions, incremental feeding (several consume() calls), starter_bit, hookin_parent are not modelled; the "
    "first-tree request is only observed under the step meter; the prefix divergence class `prefix_cycle` is computed by "
    "the harness (Python) from the real compiled rule table (only used for a source that went back to the OLD code)",
    "step meter = monkeypatched Column.add / IterativeParser.complete / ParseState.__init__ (wrappers only)",
]


# ------------------------------------------------------------------------------------------------
# cases
# ------------------------------------------------------------------------------------------------

def make_tasks(run: Run, tier: str, policy: str, variant: dict):
    rng = run.rng("cases")
    quick = tier == "quick"
    n_grammars = 300 if quick else 1400
    per = 5 if quick else 8
    max_cells = 6 if quick else 10
    cap_s = 40.0 if quick else 90.0          # wall-clock backstop only; the cap that counts is `step_limit`
    grammars: list[dict] = []

    def add(spec: str, mode: str, tags: set, origin: str, words: Optional[list] = None):
        try:
            grammar, _ = eio.parse_spec_guarded(spec, 5.0)
            gj, regexes = gio.grammar_to_json(grammar)
            from fandango.language.grammar import nodes as nodes_mod
            cap = int(getattr(nodes_mod, "MAX_REPETITIONS", 20))
        except Exception as e:  # noqa
            run.count(f"gen_spec_error:{type(e).__name__}")
            return
        grammars.append({"spec": spec, "mode": mode, "tags": tags, "origin": origin, "words": words,
                         "gj": gj, "regexes": regexes, "cap": cap})

    if CORPUS.exists():
        for f in sorted(CORPUS.glob("*.json")):
            c = json.loads(f.read_text())
            add(c["spec"], c.get("mode", "text"), {"corpus"}, "corpus", [eio.word_of(c["word"])])
    for spec, mode in gen.HANDWRITTEN + gen.corner_specs():
        ws = [b"ab", b"a", b"", b"a\x00", b"ab\x00"] if mode != "text" else ["ab", "aab", "b", "", "a", "aaab", "yxy"]
        add(spec, mode, {"handwritten"}, "handwritten", ws[: (3 if quick else 7)])
    for i in range(n_grammars):
        if rng.random() < 0.7:
            spec, mode, tags = gen.stress_spec(rng)
            add(spec, mode, tags, "stress")
        else:
            spec, mode, tags = gen.preset_spec(rng)
            add(spec, mode, tags, "shared")
    # the model's class predicate decides how long a grammar may run: a grammar inside hasEpsCycle is expected
    # to diverge (known finding), two inputs and a short cap are enough to observe that
    comp = driver_ask("drv_earley", [{"op": "compile", "grammar": g["gj"], "cap": variant["cap"]} for g in grammars])
    tasks: list[dict] = []
    n_eps = 0
    for g, c in zip(grammars, comp):
        eps = bool(c["epscycle"])
        g["eps"] = eps
        if eps:
            n_eps += 1
            if g["origin"] in ("stress", "shared") and n_eps > (45 if quick else 200):
                run.count("gen:epscycle_skipped")
                continue
        names = [n for n, _ in g["gj"]["rules"]]
        start = "<start>" if rng.random() < 0.8 or len(names) < 2 else rng.choice(names)
        ins = [(w, "given") for w in g["words"]] if g["words"] is not None else \
            gen.inputs_for(g["gj"], g["regexes"].patterns, start, g["mode"], rng, per, max_cells)
        if eps:
            ins = ins[:2]
        for w, worigin in ins:
            tasks.append({"id": len(tasks), "spec": g["spec"], "start": start, "word": eio.word_json(w),
                          "cap_s": 12.0 if eps and policy == "impl" else cap_s,
                          "step_limit": STEP_LIMIT_EPS if eps and policy == "impl" else STEP_LIMIT,
                          "max_trees": 300, "modes": True, "eps_pre": eps,
                          "tags": sorted(g["tags"]) + [g["origin"], "in:" + worigin, "mode:" + g["mode"]]})
    run.coverage["grammars"] = len(grammars)
    return tasks, grammars


# ------------------------------------------------------------------------------------------------
# judging
# ------------------------------------------------------------------------------------------------

BIG_FUEL = 4_000_000
EXPLOSION_FUEL = 3_000        # model steps spent on a case the real parser did not finish within STEP_LIMIT
N_LOCKSTEP = 20               # … for at most so many cases per run (quick tier; x4 thorough)
# steps = Column.add + IterativeParser.complete calls.  The inputs have at most 10 cells (81 columns); the largest
# honest parse the generators produce needs ~25 000 steps (exponential-but-finite ambiguity under `{n,}`), the
# typical one < 500.  A request over the limit is re-judged with the model and a 10x limit before it is reported.
STEP_LIMIT = 60_000
STEP_LIMIT_EPS = 5_000       # inside hasEpsCycle the divergence is expected while F9 is open: observe it cheaply
FUZZ_TOTAL_BUDGET = 400_000    # metered steps of a whole fuzz run; reaching it is not a verdict (all requests returned)
FUZZ_STEP_LIMIT = STEP_LIMIT   # per parse request inside a fuzz run (a run makes hundreds to thousands of them)
BAD = ("timeout", "killed", "steplimit", "exc:RecursionError")


def prefix_cycle(rules: dict) -> bool:
    """the divergence class of prefix (INCOMPLETE) requests, from the real compiled rule table
    {nt: [[sym…]…]}: at the end of the input every state with children is completed as if it were finished.
    Z = symbols that can be passed over without input there: empty-deriving ones and nonterminals with a rule
    whose first symbol is in Z (force-completed after that symbol).  Edge x -> y when `x ::= α y …` with α ⊆ Z.
    A cycle = a nonterminal wrapped into itself over the same span, round after round."""
    def lit_empty(sym):
        return sym[0] == "lit" and sym[1][0] in ("t", "b") and len(sym[1][1]) == 0
    z: set[str] = set()
    changed = True
    while changed:
        changed = False
        for nt, alts in rules.items():
            if nt in z:
                continue
            for rhs in alts:
                def ok(sym):
                    return lit_empty(sym) or (sym[0] == "nt" and sym[1] in z)
                if all(ok(x) for x in rhs) or (rhs and ok(rhs[0])):
                    z.add(nt)
                    changed = True
                    break
    edges: dict[str, set[str]] = {}
    for nt, alts in rules.items():
        for rhs in alts:
            for sym in rhs:
                if sym[0] == "nt":
                    edges.setdefault(nt, set()).add(sym[1])
                if not (lit_empty(sym) or (sym[0] == "nt" and sym[1] in z)):
                    break
    for x in edges:
        seen, todo = set(), list(edges[x])
        while todo:
            y = todo.pop()
            if y == x:
                return True
            if y not in seen:
                seen.add(y)
                todo.extend(edges.get(y, ()))
    return False


def model_runs(reals: list[dict], tasks: list[dict], policy: str, variant: dict,
               tier: str) -> tuple[list[Optional[dict]], list[Optional[dict]], list[Optional[dict]]]:
    """(core run, generated-variant run) per case (None where the real side gave no grammar).  The variant run is
    asked where the real parser finished, with fuel proportional to the real meter, and — with the small fuel
    EXPLOSION_FUEL, for at most N_LOCKSTEP cases — where a forest / first-tree request was stopped by the step meter
    (the list-based model needs ~1 s per 2000 steps on a chart of a few thousand states)"""
    reqs, where = [], []
    n_lock = 0
    for i, (t, r) in enumerate(zip(tasks, reals)):
        if "grammar" not in r:
            continue
        m = r.get("meter", {})
        st = r["status"]
        stopped = st in BAD or (r.get("modes") or {}).get("first") in BAD
        # the core recogniser (theorem C06_recognise_terminates: finishes within stepBound; its chart is polynomial)
        reqs.append(eio.model_request(r, t, variant, BIG_FUEL, policy="core"))
        where.append((i, 0))
        if st == "ok" or (st.startswith("exc:") and st != "exc:RecursionError"):
            fuel = 40 * (m.get("adds", 0) + m.get("completes", 0)) + 5000
            if m.get("adds", 0) > 6000:
                continue                      # too big for the list-based model: counted, not compared
        elif (stopped or st == "truncated") and "cols" in r and (policy != "impl" or not t.get("eps_pre")):
            n_lock += 1
            if n_lock > (N_LOCKSTEP if tier == "quick" else 4 * N_LOCKSTEP):
                continue
            fuel = EXPLOSION_FUEL
        else:
            continue
        reqs.append(eio.model_request(r, t, variant, fuel))
        where.append((i, 1))
    # prefix mode (Model/EarleyPrefix.lean): the recorded INCOMPLETE run of the real parser against the model — where
    # the real request came back (whole forest or the first `max_trees` trees), and, with a small fuel, where it was
    # stopped by the step meter (decided by the model like the forest requests)
    n_plock = 0
    for i, (t, r) in enumerate(zip(tasks, reals)):
        modes = r.get("modes") or {}
        rec = modes.get("prefix_rec")
        if not rec or "cols" not in rec:
            continue
        pst = modes.get("prefix")
        if pst in ("ok", "truncated") or (str(pst).startswith("exc:") and pst != "exc:RecursionError"):
            if int(modes.get("prefix_adds", 0)) > 6000:
                continue
            fuel = 40 * int(modes.get("prefix_steps", 0)) + 5000
        elif pst in BAD:
            n_plock += 1
            if n_plock > (N_LOCKSTEP if tier == "quick" else 4 * N_LOCKSTEP):
                continue
            fuel = EXPLOSION_FUEL
        else:
            continue
        reqs.append(eio.prefix_request(rec, t, variant, fuel, int(t.get("max_trees", 300)),
                                       stop_trees=len(rec.get("forest") or []) if pst == "truncated" else 0))
        where.append((i, 2))
    answers = driver_ask("drv_earley", reqs, timeout=1500) if reqs else []
    core: list[Optional[dict]] = [None] * len(tasks)
    pol: list[Optional[dict]] = [None] * len(tasks)
    pre: list[Optional[dict]] = [None] * len(tasks)
    for (i, which), a in zip(where, answers):
        (core, pol, pre)[which][i] = a
    return core, pol, pre


def diverged(r: dict) -> Optional[str]:
    """which request of the real parser did not come back — or came back only because the interpreter's stack
    overflowed while an infinite forest of ever deeper trees was being enumerated (`RecursionError`)"""
    if r["status"] in BAD:
        return "forest"
    modes = r.get("modes") or {}
    for name in ("first", "prefix"):
        if modes.get(name) in BAD:
            return name
    return None


def wallclock_only(r: dict, which: str) -> bool:
    st = r["status"] if which == "forest" else (r.get("modes") or {}).get(which, "")
    return st in ("timeout", "killed")


def steps_of(r: dict, which: str) -> int:
    if which == "forest":
        m = r.get("meter") or {}
        return int(m.get("adds", 0)) + int(m.get("completes", 0))
    return int((r.get("modes") or {}).get(which + "_steps", 0))


def how_of(r: dict, which: str) -> str:
    st = r["status"] if which == "forest" else (r.get("modes") or {}).get(which, "")
    return "stack overflow (RecursionError) while enumerating ever deeper trees" if st == "exc:RecursionError" \
        else "step limit exceeded" if st == "steplimit" else "no answer within the wall-clock backstop"


def replay_dict(t: dict, extra: Optional[dict] = None) -> dict:
    d = {"spec": t["spec"], "start": t["start"], "word": t["word"], "cap_s": max(60.0, t.get("cap_s", 5.0)),
         "step_limit": t.get("step_limit", STEP_LIMIT)}
    if extra:
        d.update(extra)
    return d


def shrink(t: dict, still_fails) -> dict:
    """delete rules / cells while the failure stays (each probe is a real run in a worker)"""
    best = dict(t)
    budget = 40
    changed = True
    while changed and budget > 0:
        changed = False
        lines = [ln for ln in best["spec"].splitlines() if ln.strip()]
        cells = best["word"]["cells"]
        cands = []
        for i in range(1, len(lines)):
            cands.append({**best, "spec": "\n".join(lines[:i] + lines[i + 1:]) + "\n"})
        for i in range(len(cells)):
            cands.append({**best, "word": {**best["word"], "cells": cells[:i] + cells[i + 1:]}})
        for c in cands:
            budget -= 1
            if budget <= 0:
                break
            if still_fails(c):
                best = c
                changed = True
                break
    return best


def known(run: Run, sig: str, what: str, replay: dict) -> None:
    """a hit inside a class whose divergence is a listed finding: the first three per signature are printed
    (KNOWN-FINDING while the entry is open, VIOLATION otherwise), the rest only counted"""
    run.count("hit:" + sig)
    if run.counters["hit:" + sig] <= 3 or not any(k.get("signature") == sig for k in run.known):
        run.report(sig, what, replay)


def rerun_alone(run: Run, t: dict, which: str) -> str:
    """a request stopped by the wall-clock backstop (not by the step limit) is run again, alone, twice with
    different backstops: 'returned' | 'steplimit …' (a step verdict after all) | 'stalled …' (the meter does not
    move between the two: a loop outside the metered operations) | 'undecided' (slow but moving: machinery)"""
    outs = []
    for cap in (25.0, 50.0):
        rr = eio.run_pool([{**t, "modes": True, "cap_s": cap}], workers=1, backstop_s=120.0)[0]
        if "grammar" not in rr:
            return "undecided"
        w = diverged(rr)
        if w is None:
            return "returned"
        if not wallclock_only(rr, w):
            return f"{how_of(rr, w)} at {steps_of(rr, w)} steps"
        outs.append(steps_of(rr, w))
    if len(outs) == 2 and outs[0] == outs[1]:
        return f"stalled at {outs[0]} steps after 25 s and after 50 s (a loop outside the metered operations)"
    return "undecided"


def judge_unbounded(run: Run, items: list) -> None:
    """more than `max_trees` trees outside the expected classes: infinite forest, or a large finite one?  Asked
    again with a 20x tree budget under the step limit."""
    for t, which in items[:12]:
        rr = eio.run_pool([{**t, "modes": True, "max_trees": 20 * int(t["max_trees"]), "cap_s": 240.0}], workers=1,
                          backstop_s=120.0)[0]
        st = rr.get("status") if which == "forest" else (rr.get("modes") or {}).get("prefix")
        if st in ("truncated", "steplimit", "exc:RecursionError"):
            # outside the cyclic classes every forest is finite, but a 10-cell input of an ambiguous grammar can have
            # more trees than any fixed budget (Catalan numbers): counted, not a verdict
            run.count("undecided:forest_over_20x_tree_budget:" + st)
        else:
            run.count("unbounded:large_finite_forest")


def judge_prefix(run: Run, t: dict, r: dict, pp: Optional[dict], corr_failures: list) -> None:
    """correspondence of prefix mode: the recorded INCOMPLETE run of the real parser against `parsePrefix` of the model —
    same outcome, the same admitted states in every column (the last column with the incomplete states and the states
    the forced completions add, each with its `is_incomplete` flag; multisets), the same multiset of yielded trees (a
    request cut off after `max_trees` trees: the first `max_trees` yields of both sides, the model yields in the
    same order), and the real parser's metered work within (maxAlts + 2) x the model's steps"""
    modes = r.get("modes") or {}
    rec = modes.get("prefix_rec")
    pst = str(modes.get("prefix"))
    if rec is None:
        return
    if "not_modelled" in rec:
        run.count("prefix:not_modelled:" + str(rec["not_modelled"])[:40])
        return
    if pst in BAD:
        return                                      # judged with the divergences
    if pp is None:
        run.count("corr:prefix_skipped_big" if "cols" in rec else "corr:prefix_no_record:" + pst[:30])
        return
    case = replay_dict(t, {"mode": "prefix"})
    if pst.startswith("exc:") and pst != "exc:IndexError":
        corr_failures.append({"case": case, "what": f"prefix request: real parser raised {pst}, not modelled"})
        return
    # (a request abandoned after `max_trees` trees: the model was stopped after as many yields, both charts are as they
    # are at that point — the generator is suspended at the yield, before the `complete` call that follows it)
    want = "raised" if pst.startswith("exc:") else "stopped" if pst == "truncated" else "done"
    if pp["status"] == "fuel":
        corr_failures.append({"case": case, "what": "prefix request: model ran out of fuel, real finished",
                              "steps": pp["steps"], "real_steps": modes.get("prefix_steps")})
        return
    if pp["status"] != want:
        corr_failures.append({"case": case, "what": f"prefix request: real {pst}, model {pp['status']}"})
        return
    if want == "raised":
        run.count("corr:prefix_raised_equal")
        return
    mcols, rcols = eio.canon_cols(pp["cols"]), eio.canon_cols(rec["cols"])
    if mcols != rcols:
        k = next((i for i, (a, b) in enumerate(zip(mcols, rcols)) if a != b), -1)
        a, b = (mcols[k], rcols[k]) if k >= 0 else ([], [])
        corr_failures.append({"case": case, "what": f"prefix request: admitted states differ in column {k} of {len(rcols)} "
                              f"(model has {len(mcols)} columns)",
                              "model_only": [x for x in a if x not in b][:3], "real_only": [x for x in b if x not in a][:3]})
        return
    # `ParseState.cut_short` (the variant key `cutShort`; absent from the source before the repair of C19:F68): the last
    # column as the end-of-input pass left it — before the final shortcut — every state with its `is_incomplete` and
    # `cut_short` flag (multiset); no state of an earlier column is marked
    if int(rec.get("marked_before_last", 0)):
        corr_failures.append({"case": case, "what": f"prefix request: {rec['marked_before_last']} states of columns before "
                              "the last are marked cut_short (the model marks states of the end-of-input pass only)"})
        return
    if rec.get("lastB") is not None and pp.get("lastB") is not None:
        mb, rb = eio.canon_cols([pp["lastB"]])[0], eio.canon_cols([rec["lastB"]])[0]
        if mb != rb:
            corr_failures.append({"case": case, "what": "prefix request: the last column before the final shortcut differs "
                                  "(states with their is_incomplete / cut_short flags)",
                                  "model_only": [x for x in mb if x not in rb][:3], "real_only": [x for x in rb if x not in mb][:3]})
            return
        run.count("corr:prefix_lastB_equal")
        if any(s[-1] for s in rec["lastB"]):
            run.count("corr:prefix_equal_with_cut_short_states")
        if int(pp.get("skipped", 0)):
            run.count("corr:prefix_equal_with_skipped_completions")
    elif pst == "ok":
        run.count("corr:prefix_lastB_not_recorded")
    mf, rf = eio.canon_forest(pp["forest"]), eio.canon_forest(rec["forest"])
    if pst == "ok" and int(pp["nforest"]) != len(rec["forest"]):
        corr_failures.append({"case": case, "what": f"prefix request: real yields {len(rec['forest'])} trees, model {pp['nforest']}"})
        return
    if pst == "truncated" and int(pp["nforest"]) < len(rec["forest"]):
        corr_failures.append({"case": case, "what": f"prefix request: real yields at least {len(rec['forest'])} trees, "
                              f"the model's whole forest has {pp['nforest']}"})
        return
    if mf != rf:
        corr_failures.append({"case": case, "what": "prefix request: yielded trees differ"
                              + (" (first max_trees yields)" if pst == "truncated" else ""),
                              "model_only": [x for x in mf if x not in rf][:2], "real_only": [x for x in rf if x not in mf][:2]})
        return
    run.count("corr:prefix_equal")
    run.count("corr:prefix_trees", len(rf))
    # observations on the real partial trees (the subject of C04 carried over to prefix mode; counted here, the model's
    # trees are the same trees): the leaves spell the whole input, no helper symbol survives the collapse
    for o in rec.get("out") or []:
        run.count("prefix_obs:leaves_spell_the_whole_input" if o.get("value_ok") else "prefix_obs:VALUE_DIFFERS_FROM_INPUT")
        if o.get("helpers"):
            run.count("prefix_obs:HELPER_SYMBOL_IN_PARTIAL_TREE")
        if o.get("root") != t["start"]:
            run.count("prefix_obs:ROOT_IS_NOT_THE_START_SYMBOL")
    n_inc = sum(1 for s in rec["cols"][-1] if len(s) > 5 and s[5]) if rec["cols"] else 0
    if n_inc:
        run.count("corr:prefix_equal_with_incomplete_states")
    if int(pp["steps"]) > int(pp["phaseA"]) + 3:
        run.count("corr:prefix_equal_with_forced_completions")
    if pst == "truncated":
        run.count("corr:prefix_equal_first_max_trees_only")
    bound = (eio.max_alts(rec.get("rules") or {}) + 2) * int(pp["steps"]) + 100
    if int(modes.get("prefix_steps", 0)) > bound:
        run.report("C06/work-explosion", f"prefix request: {modes.get('prefix_steps')} metered steps, the model needs "
                   f"{pp['steps']} steps (bound {bound}): {t['spec'].strip()!r} on {eio.word_of(t['word'])!r}", case)


def judge(run: Run, tasks: list[dict], reals: list[dict], core: list, pol: list, policy: str,
          corr_failures: list, info: dict, undecided: list, unbounded_outside: list,
          pre: Optional[list] = None) -> None:
    # which divergences the *code as it is* is expected to show (from the translated policy): with the acyclic cut
    # in place a request that does not come back inside a class is an ambiguity explosion like anywhere else
    eps_expected = policy == "impl"
    left_expected = not info.get("prefix_cut")
    pre = pre if pre is not None else [None] * len(tasks)
    for t, r, mc, mp, pp in zip(tasks, reals, core, pol, pre):
        st = r["status"]
        for tag in t["tags"]:
            run.count("tag:" + tag)
        run.count("real:" + (st if st.startswith("exc:") else st.split(":")[0]))
        if "grammar" not in r:
            continue
        if mc is None:
            raise MachineryError("model answer missing")
        eps = bool(mc["epscycle"])
        run.count("class:epscycle" if eps else "class:leftcycle" if mc.get("leftcycle") else "class:acyclic")
        ncells = len(t["word"]["cells"])
        run.count(f"cells:{ncells}")
        nontrivial = ncells > 0 and any(len(c) > 1 for c in (r.get("cols") or [[], []])[1:])
        run.case([t["spec"], t["start"], t["word"]], nontrivial,
                 {"spec": t["spec"], "start": t["start"], "word": t["word"], "real": st,
                  "meter": r.get("meter"), "modes": r.get("modes"), "epscycle": eps,
                  "model_core_steps": mc["steps"],
                  "model_policy": [mp["status"], mp["steps"]] if mp else None})
        # (a) the core recogniser of the model always finishes (theorem C06_recognise_terminates)
        if mc["status"] == "fuel":
            corr_failures.append({"case": replay_dict(t), "what": "model core policy did not finish within the fuel",
                                  "steps": mc["steps"]})
        # (2') correspondence of prefix mode
        judge_prefix(run, t, r, pp, corr_failures)
        # (3) the property on the real code
        pcyc = prefix_cycle(r.get("rules") or {})
        if pcyc:
            run.count("class:prefix_cycle")
        which = diverged(r)
        if which is not None:
            run.count("diverged:" + which)
            what = (f"{which} request: {how_of(r, which)} (limit {t.get('step_limit')} steps): start {t['start']} input "
                    f"{eio.word_of(t['word'])!r} grammar {t['spec'].strip()!r}; steps so far: {steps_of(r, which)}")
            expected = (eps and eps_expected) or (which == "prefix" and pcyc and left_expected)
            if wallclock_only(r, which) and not expected:
                # seconds are not a verdict: decided below by re-running alone (inside a class whose divergence is a
                # listed finding nothing hinges on telling slow from endless: no verdict is drawn from it)
                verdict = rerun_alone(run, t, which)
                if verdict == "returned":
                    run.count("wallclock:returned_when_alone")
                    continue
                if verdict == "undecided":
                    undecided.append(what)
                    continue
                what += f" — re-run alone: {verdict}"
            if eps and eps_expected:
                known(run, SIG_KNOWN, what, replay_dict(t, {"class": "hasEpsCycle"}))
            elif which == "prefix" and pcyc and left_expected:
                known(run, SIG_PREFIX, what, replay_dict(t, {"class": "prefix_cycle", "mode": "prefix"}))
            else:
                # A request over the step limit is either a genuine divergence or a finite explosion: the chart of
                # this parser holds one state per (item, children list), so a grammar that is ambiguous over a span in
                # many ways (empty-deriving bodies under nested repetitions; finite under the covering cut) makes it
                # — and the work of `complete` / the loop that ends `predict` — grow polynomially in a number that is
                # itself exponential in the nesting.  "Finitely many steps" is not refuted by any fixed limit.
                # Forest / first-tree requests are decided by the MODEL run with the code's variant:
                #   model finishes in S steps  ->  the real parser must finish within (maxAlts + 2) * S metered steps
                #                                  (one model step = at most that many Column.add / complete calls);
                #   model does not finish within its fuel either -> undecided (counted), and the two charts, stopped
                #                                  at different points, must agree in lock step (prefix comparison).
                # Prefix requests are not modelled: inside the cyclic classes they are counted, outside them the old
                # 10x re-run decides (no exponential ambiguity there).
                if which == "prefix" and pp is not None:
                    # prefix mode is modelled (Model/EarleyPrefix.lean; theorem C06_prefix_terminates): decided like the
                    # forest requests, by the model run on the recorded prefix request
                    prec = (r.get("modes") or {}).get("prefix_rec") or {}
                    if pp["status"] in ("done", "raised"):
                        bound = (eio.max_alts(prec.get("rules") or {}) + 2) * int(pp["steps"]) + 100
                        big = {**t, "modes": True, "step_limit": max(bound, int(t.get("step_limit") or STEP_LIMIT)), "cap_s": 240.0}
                        rr = eio.run_pool([big], workers=1, backstop_s=120.0)[0]
                        if "grammar" in rr and diverged(rr) == "prefix" and not wallclock_only(rr, "prefix"):
                            run.report("C06/divergence", what + f" — the model of prefix mode (variant of the source) finishes "
                                       f"this case in {pp['steps']} steps, the real parser is still running after "
                                       f"{big['step_limit']} metered steps (the bound derived from the model)",
                                       replay_dict(t, {"class": "model-terminates", "mode": "prefix", "step_limit": big["step_limit"]}))
                        else:
                            run.count("diverged:prefix_finished_within_model_derived_bound")
                        continue
                    bad = eio.lockstep_mismatch(pp["cols"], prec.get("cols") or [])
                    if bad is not None:
                        corr_failures.append({"case": replay_dict(t, {"mode": "prefix"}), "what": "prefix request, lock-step "
                                              "comparison of two unfinished runs: the charts differ in column "
                                              f"{bad['column']} at position {bad['index']}", "model": bad["model"], "real": bad["real"]})
                    else:
                        run.count("undecided:prefix_explosion_model_in_lock_step")
                    continue
                if which == "prefix":
                    if eps or pcyc:
                        run.count("undecided:prefix_explosion_inside_cyclic_class")
                        continue
                    big = {**t, "modes": True, "step_limit": 10 * int(t.get("step_limit") or STEP_LIMIT), "cap_s": 240.0}

                    def still(c):
                        rr = eio.run_pool([{**big, "spec": c["spec"], "word": c["word"]}], workers=1, backstop_s=120.0)[0]
                        return "grammar" in rr and diverged(rr) == which and not wallclock_only(rr, which)
                    if not still(t):
                        run.count("diverged:finite_explosion_or_not_reproduced_with_10x_limit")
                        continue
                    small = shrink(t, still)
                    run.report("C06/divergence", what + " — prefix request outside the classes hasEpsCycle / prefix_cycle, "
                               "still over a 10x step limit", replay_dict(small, {"class": "outside", "original": replay_dict(t)}))
                    continue
                if mp is None:
                    run.count("undecided:" + which + "_explosion_not_sampled_for_the_model")
                    continue
                if mp["status"] in ("done", "raised"):
                    bound = (eio.max_alts(r.get("rules") or {}) + 2) * int(mp["steps"]) + 100
                    big = {**t, "modes": True, "step_limit": max(bound, int(t.get("step_limit") or STEP_LIMIT)), "cap_s": 240.0}
                    rr = eio.run_pool([big], workers=1, backstop_s=120.0)[0]
                    if "grammar" in rr and diverged(rr) in ("forest", "first") and not wallclock_only(rr, diverged(rr)):
                        run.report("C06/divergence", what + f" — the model of the parser (variant of the source) finishes this "
                                   f"case in {mp['steps']} steps, the real parser is still running after {big['step_limit']} "
                                   "metered steps (the bound derived from the model)",
                                   replay_dict(t, {"class": "model-terminates", "step_limit": big["step_limit"]}))
                    else:
                        run.count("diverged:finished_within_model_derived_bound")
                    continue
                bad = eio.lockstep_mismatch(mp["cols"], r.get("cols") or [])
                if bad is not None:
                    corr_failures.append({"case": replay_dict(t), "what": "lock-step comparison of two unfinished runs: "
                                          f"the charts differ in column {bad['column']} at position {bad['index']}",
                                          "model": bad["model"], "real": bad["real"]})
                else:
                    run.count("undecided:" + which + "_explosion_model_in_lock_step")
                    run.count("corr:lockstep_states", sum(min(len(a), len(b)) for a, b in zip(mp["cols"], r.get("cols") or [])))
            continue
        pst = (r.get("modes") or {}).get("prefix")
        if pst == "truncated":
            run.count("prefix:truncated")
            if eps and eps_expected:
                known(run, SIG_KNOWN, f"prefix request yields more than {t['max_trees']} trees of an infinite forest: "
                           f"input {eio.word_of(t['word'])!r} grammar {t['spec'].strip()!r}",
                           replay_dict(t, {"class": "hasEpsCycle", "mode": "prefix-unbounded"}))
            elif pcyc and left_expected:
                known(run, SIG_PREFIX, f"prefix request yields more than {t['max_trees']} trees of an infinite forest: "
                           f"input {eio.word_of(t['word'])!r} grammar {t['spec'].strip()!r}",
                           replay_dict(t, {"class": "prefix_cycle", "mode": "prefix-unbounded"}))
            elif eps or pcyc:
                run.count("undecided:large_prefix_forest_inside_cyclic_class")     # finite with the cut, not modelled
            else:
                unbounded_outside.append((t, "prefix"))
        if st == "truncated":
            run.count("forest:truncated")
            if eps and eps_expected:
                # the forest generator keeps yielding: the whole-forest request never ends
                known(run, SIG_KNOWN, f"whole-forest request yields more than {t['max_trees']} trees of an infinite "
                           f"forest: input {eio.word_of(t['word'])!r} grammar {t['spec'].strip()!r}",
                           replay_dict(t, {"class": "hasEpsCycle", "mode": "forest-unbounded"}))
            elif mp is not None and mp["status"] in ("done", "raised"):
                # the model finished: its forest is the whole forest, the real one must not be larger
                if len(mp["forest"]) < int(t["max_trees"]):
                    corr_failures.append({"case": replay_dict(t), "what": f"real parser yields more than {t['max_trees']} "
                                          f"trees, the model's whole forest has {len(mp['forest'])}"})
                else:
                    run.count("forest:large_finite_forest_confirmed_by_model")
            elif eps:
                run.count("undecided:large_forest_inside_cyclic_class_model_does_not_finish_either")
            else:
                unbounded_outside.append((t, "forest"))
            continue
        if not (st == "ok" or st.startswith("exc:")):
            continue
        if mp is None:
            run.count("corr:skipped_big")
            continue
        # (2) correspondence: same states per column, same forest, same outcome
        want_status = "raised" if st.startswith("exc:") else "done"
        if st.startswith("exc:") and st != "exc:IndexError":
            corr_failures.append({"case": replay_dict(t), "what": f"real parser raised {st}, not modelled"})
            continue
        if mp["status"] == "fuel":
            corr_failures.append({"case": replay_dict(t), "what": "model (generated policy) ran out of fuel, real finished",
                                  "steps": mp["steps"], "meter": r.get("meter")})
            continue
        if mp["status"] != want_status:
            corr_failures.append({"case": replay_dict(t), "what": f"real {st}, model {mp['status']}"})
            continue
        if st == "ok":
            if int(r.get("marked", 0)):
                # `C06_cut_short_irrelevant_in_complete_mode`: the model of COMPLETE mode has no `cut_short`
                corr_failures.append({"case": replay_dict(t), "what": f"COMPLETE mode: {r['marked']} states are marked "
                                      "cut_short (the model: none ever is)"})
                continue
            mcols, rcols = eio.canon_cols(mp["cols"]), eio.canon_cols(r["cols"])
            if mcols != rcols:
                k = next((i for i, (a, b) in enumerate(zip(mcols, rcols)) if a != b), -1)
                a, b = mcols[k], rcols[k]
                corr_failures.append({"case": replay_dict(t), "what": f"admitted states differ in column {k}",
                                      "model_only": [x for x in a if x not in b][:3],
                                      "real_only": [x for x in b if x not in a][:3]})
                continue
            if eio.canon_forest(mp["forest"]) != eio.canon_forest(r["forest"]):
                corr_failures.append({"case": replay_dict(t), "what": "forests differ",
                                      "model": len(mp["forest"]), "real": len(r["forest"])})
                continue
            run.count("corr:equal")
            if eps:
                run.count("corr:equal_in_class")
            # meter: one model step is at most (maxAlts + 2) metered operations of the real parser (a `predict` adds
            # every alternative, `scan_regex` adds two states); more than that is work the model does not have
            bound = (eio.max_alts(r.get("rules") or {}) + 2) * int(mp["steps"]) + 100
            if r["meter"]["adds"] + r["meter"]["completes"] > bound:
                run.report("C06/work-explosion", f"{r['meter']['adds']} admissions + {r['meter']['completes']} completions, "
                           f"the model needs {mp['steps']} steps (bound {bound}): {t['spec'].strip()!r} on "
                           f"{eio.word_of(t['word'])!r}", replay_dict(t))
        else:
            run.count("corr:raised_equal")


def known_reproducer(run: Run, policy: str) -> None:
    """the design's witness, replayed on the implementation on every run"""
    t = {"id": "G0", "spec": '<start> ::= ("a"?)* "b"\n', "start": "<start>", "word": eio.word_json("ab"),
         "cap_s": 120.0, "step_limit": STEP_LIMIT_EPS, "max_trees": 50, "modes": False, "tags": []}
    r = eio.run_pool([t], workers=1)[0]
    run.coverage["witness_G0"] = {"status": r["status"], "meter": r.get("meter")}
    if r["status"] == "steplimit":
        run.report(SIG_KNOWN, 'witness of Props/C06.lean: <start> ::= ("a"?)* "b", parse("ab") does not return; '
                   f"{r.get('meter', {}).get('admitted')} states admitted when stopped at {STEP_LIMIT_EPS} steps "
                   "(the model of the parser as it is, Variant.now, admits 27 states and stops after 87 steps: theorem "
                   "C06_cut_terminates_witnesses; the OLD admission rule diverges likewise: "
                   "C06_old_admitImpl_diverges_example_partial)", replay_dict(t, {"class": "hasEpsCycle"}))
    elif r["status"] != "ok":
        raise MachineryError(f"witness run: {r['status']}")
    elif policy == "impl":
        # the source still has the diverging admission rule (translator) but the witness returns: the model and
        # the code disagree about the very example the divergence theorem is about
        run.report("C06/witness-disagrees", "Generated policy is `impl` (the Lean witness diverges) but the real parser "
                   'returns on <start> ::= ("a"?)* "b" / "ab"', replay_dict(t), no_input=True)


# ------------------------------------------------------------------------------------------------
# entry points
# ------------------------------------------------------------------------------------------------

def replay(path: str) -> int:
    use_repo()
    rp = json.load(open(path))
    if "spec" not in rp:
        print("replay: no concrete input in this file (", rp.get("what", "")[:300], ")")
        return 1
    if rp.get("fuzz"):
        ft = {"id": 0, "spec": rp["spec"], "constraints": rp.get("constraints"), "seed": rp.get("seed", 0),
              "step_limit": int(rp.get("step_limit", FUZZ_STEP_LIMIT)), "total_budget": 40 * FUZZ_STEP_LIMIT, "cap_s": 600.0}
        fr = eio.run_pool([ft], workers=1, backstop_s=120.0, fn=c06_fuzz.fuzz_case)[0]
        print("fuzz:", rp["spec"].strip().replace("\n", " ; "), "| constraints", rp.get("constraints"))
        print("real:", fr.get("status"), fr.get("meter"))
        bad = fr.get("status") in BAD
        print("replay:", "property violated (the fuzz run does not finish its internal parse)" if bad
              else "no violation on the current tree")
        return 1 if bad else 0
    t = {"id": 0, "spec": rp["spec"], "start": rp.get("start", "<start>"), "word": rp["word"],
         "cap_s": float(rp.get("cap_s", 120.0)), "step_limit": int(rp.get("step_limit", STEP_LIMIT)),
         "max_trees": 300 * (20 if str(rp.get("mode", "")).endswith("-unbounded") else 1), "modes": True}
    r = eio.run_pool([t], workers=1, backstop_s=120.0)[0]
    print("grammar:", rp["spec"].strip().replace("\n", " ; "), "| start", t["start"], "| input", repr(eio.word_of(t["word"])))
    print("real:", r["status"], r.get("meter"), r.get("modes"))
    bad = ("grammar" in r and diverged(r) is not None) or (r["status"] == "truncated" and rp.get("mode") == "forest-unbounded") \
        or ((r.get("modes") or {}).get("prefix") == "truncated" and rp.get("mode") == "prefix-unbounded")
    print("replay:", "property violated (a parse request does not return)" if bad else "no violation on the current tree")
    return 1 if bad else 0


def fuzz_tasks(run: Run, tier: str, grammars: list[dict], comp_eps: dict, policy: str) -> list[dict]:
    """generator-defined and equality-repaired variants of text grammars: `<start>` is renamed to `<c06g>`; the
    wanted word is one the grammar derives (IR deriver), so the internal parse has something to find"""
    rng = run.rng("fuzz")
    quick = tier == "quick"
    want = 16 if quick else 120
    pool = [g for g in grammars if g["mode"] == "text" and " := " not in g["spec"] and "where" not in g["spec"]]
    hand = [g for g in pool if g["origin"] == "handwritten"]
    rest = [g for g in pool if g["origin"] != "handwritten"]
    rng.shuffle(rest)
    out: list[dict] = []
    for g in hand + rest:
        if len(out) >= 2 * want:
            break
        words = gen.ir_words(g["gj"], g["regexes"].patterns, "<start>", rng, 2, False, 5)
        words = [w for w in words if w and all(32 <= ord(c) < 127 and c not in '"\\' for c in w)]
        if not words:
            continue
        w = words[0]
        lines = [ln for ln in g["spec"].replace("<start>", "<c06g>").splitlines() if ln.strip()]
        eps = bool(g.get("eps", comp_eps.get(g["spec"], False)))
        limit = STEP_LIMIT_EPS if eps and policy == "impl" else FUZZ_STEP_LIMIT
        base = {"cap_s": 30.0 if quick else 60.0, "step_limit": limit, "total_budget": FUZZ_TOTAL_BUDGET, "eps": eps, "word": w, "origin": g["origin"],
                "seed": rng.randrange(1 << 30), "parse_spec": "<start> ::= <c06g>\n" + "\n".join(lines) + "\n"}
        gen_lines = [ln + f' := "{w}"' if ln.startswith("<c06g> ::=") else ln for ln in lines]
        out.append({**base, "id": len(out), "kind": "generator",
                    "spec": "<start> ::= <c06g>\n" + "\n".join(gen_lines) + "\n", "constraints": None})
        out.append({**base, "id": len(out), "kind": "equality_repair",
                    "spec": '<start> ::= <c06g> "!"\n' + "\n".join(lines) + "\n", "constraints": [f'<c06g> == "{w}"']})
    return out


def judge_fuzz(run: Run, ftasks: list[dict], fres: list[dict], policy: str, undecided: list, ctx: dict) -> None:
    """`ctx`: what `judge` needs for the parse requests that fuzz runs over the limit are reduced to
    ({"variant", "info", "tier", "corr_failures", "unbounded_outside"})"""
    over: list[tuple[dict, dict, str, dict]] = []
    for t, r in zip(ftasks, fres):
        st = r.get("status", "killed")
        run.count("fuzz:" + t["kind"])
        run.count("fuzz_status:" + (st if not st.startswith("exc:") or st == "exc:RecursionError" else "exc:other"))
        run.case(["fuzz", t["spec"], t["constraints"]], st == "ok" and (r.get("meter") or {}).get("adds", 0) > 0,
                 {"fuzz": t["kind"], "spec": t["spec"], "constraints": t["constraints"], "status": st, "meter": r.get("meter")})
        if st == "budget":
            run.count("fuzz:total_budget_reached_every_request_returned")
        if st not in BAD:
            continue
        if st == "exc:RecursionError" and int((r.get("last_request") or {}).get("steps", 0)) < 1000:
            # the interpreter's stack overflowed while the parse request that was running (if any) had barely
            # started: the expander's own recursion on a recursive grammar (C01), not a parse that does not return
            run.count("fuzz:recursion_outside_parser")
            continue
        what = (f"fuzz run ({t['kind']}: the value {t['word']!r} is parsed under <c06g> internally): a parse request inside it "
                f"does not come back: {st} (limit {t['step_limit']} metered steps per request, meter {r.get('meter')}, "
                f"request {r.get('last_request')}): {t['spec'].strip()!r} constraints {t['constraints']}")
        rp = {"fuzz": True, "kind": t["kind"], "spec": t["spec"], "constraints": t["constraints"], "seed": t["seed"],
              "step_limit": t["step_limit"], "word": t["word"]}
        if st in ("timeout", "killed"):
            # the wall-clock backstop, with the parser's step meter below its limit: the time went elsewhere
            # (budgeted expansion of a recursive grammar, evolution) — not a parse that fails to return
            run.count("fuzz:backstop_with_meter_below_limit")
            continue
        if t["eps"] and policy == "impl":
            known(run, SIG_KNOWN, what, {**rp, "class": "hasEpsCycle"})
            continue
        over.append((t, r, what, rp))
    if not over:
        return
    # A fuzz run over its step limit is reduced to the parse request it makes internally — the value parsed under
    # <c06g> with the same grammar — which is judged like every other parse request (model-derived bound, lock step;
    # finite explosions of the chart are not divergence).  Only if that request comes back is the fuzz run itself
    # asked again with a 10x limit.
    # (the request that was running when the meter stopped the run, as recorded by the worker; else the wanted value)
    ptasks = []
    for i, (t, r, _w, _rp) in enumerate(over):
        lr = r.get("last_request") or {}
        ptasks.append({"id": f"F{i}", "spec": t["parse_spec"], "start": lr.get("start", "<c06g>"),
                       "word": lr.get("word") or eio.word_json(t["word"]),
                       "cap_s": 90.0, "step_limit": STEP_LIMIT, "max_trees": 300, "modes": True, "eps_pre": t["eps"],
                       "tags": ["fuzz_internal_parse", "fuzz_request_mode:" + str(lr.get("mode", "?"))]})
    preals = eio.run_pool(ptasks, workers=14, backstop_s=120.0)
    pcore, ppol, ppre = model_runs(preals, ptasks, policy, ctx["variant"], ctx["tier"])
    judge(run, ptasks, preals, pcore, ppol, policy, ctx["corr_failures"], ctx["info"], undecided, ctx["unbounded_outside"], ppre)
    for (t, r, what, rp), pr in zip(over, preals):
        if "grammar" not in pr:
            run.count("undecided:fuzz_over_limit_internal_parse_request_not_reproduced:" + str(pr.get("status"))[:40])
            continue
        if diverged(pr) is not None:
            run.count("fuzz:over_limit_attributed_to_its_parse_request")      # judged above, as a parse request
            continue
        rr = eio.run_pool([{**t, "step_limit": 10 * t["step_limit"], "total_budget": 40 * t["step_limit"], "cap_s": 600.0}],
                          workers=1, backstop_s=120.0, fn=c06_fuzz.fuzz_case)[0]
        if rr.get("status") == "steplimit" or (rr.get("status") == "exc:RecursionError"
                                               and int((rr.get("last_request") or {}).get("steps", 0)) >= 1000):
            run.report("C06/divergence-in-fuzz", what + " — the same parse request, made alone, comes back "
                       f"({pr.get('status')}, {pr.get('meter')}); inside the fuzz run a request is still over a 10x "
                       f"per-request step limit ({rr.get('last_request')})", rp)
        else:
            run.count("fuzz:finished_with_10x_limit")


def main(tier: str) -> int:
    run = Run(PID, tier, "proof")
    use_repo()
    info = translate_earley.regenerate()
    lean = lean_check("Props.C06", ["drv_earley"])
    for rf in info["refusals"]:
        lean.broken.append({"module": "Generated.Earley", "reason": "translator refused: " + rf})
    # a refused translation: the obligations are broken; the failing-input search then runs the REAL parser against
    # the model of the repaired parser (Variant.now, which provably terminates: C06_parse_terminates) — a request the
    # model finishes and the real parser does not is the concrete violation
    policy = info["policy"] or "acyclic"
    variant = info.get("variant") or {"policy": policy, "cap": None, "predDone": True, "aligned": True,
                                      "wideGuard": True, "emptyRegex": True, "cutShort": bool(info.get("cut_short"))}
    run.coverage["generated_policy"] = info
    corr_failures: list = []
    undecided: list = []
    unbounded_outside: list = []
    known_reproducer(run, policy)
    tasks, grammars = make_tasks(run, tier, policy, variant)
    reals = eio.run_pool(tasks, workers=14, backstop_s=120.0)
    bad_tables, n_tables = eio.compile_corr(tasks, reals, variant["cap"])
    corr_failures.extend(bad_tables)
    run.count("corr:compiled_tables_compared", n_tables)
    run.count("corr:compiled_tables_equal", n_tables - len(bad_tables))
    try:
        core, pol, pre = model_runs(reals, tasks, policy, variant, tier)
    except MachineryError as e:
        if not (lean.broken or run.violations):
            raise
        # the source no longer is what the model describes and the model side could not keep up with what the real
        # parser did: judge the real runs alone (a verdict already exists; never a machinery error on top of it)
        run.count("model_runs_abandoned_after_broken_obligation")
        run.coverage["model_runs_abandoned"] = str(e)[:200]
        core, pol, pre = [None] * len(tasks), [None] * len(tasks), [None] * len(tasks)
    judge(run, tasks, reals, core, pol, policy, corr_failures, info, undecided, unbounded_outside, pre)
    run.coverage["t_parse_phase_s"] = round(run.budget_left(0) * -1, 1)
    comp_eps = {}
    for t, mc in zip(tasks, core):
        if mc is not None:
            comp_eps[t["spec"]] = bool(mc["epscycle"])
    ftasks = fuzz_tasks(run, tier, grammars, comp_eps, policy)
    fres = eio.run_pool(ftasks, workers=14, backstop_s=120.0, fn=c06_fuzz.fuzz_case)
    judge_fuzz(run, ftasks, fres, policy, undecided,
               {"variant": variant, "info": info, "tier": tier, "corr_failures": corr_failures,
                "unbounded_outside": unbounded_outside})
    judge_unbounded(run, unbounded_outside)
    run.coverage["undecided_wallclock"] = undecided[:5]
    if undecided:
        raise MachineryError(f"{len(undecided)} requests stopped by the wall-clock backstop with a moving meter "
                             f"(machine overloaded?): {undecided[0][:300]}")
    # the verdict theorem says "diverges" for policy impl: that IS the property being false; it is reported through
    # the witness above (known finding while listed).  A refused translation or a broken build is a broken obligation.
    run.coverage["traces_validated_against_impl"] = run.counters.get("corr:equal", 0) + run.counters.get("corr:raised_equal", 0)
    run.coverage["correspondence_disagreements"] = len(corr_failures)
    run.coverage["disagreement_samples"] = corr_failures[:5]
    if (not lean.ok or corr_failures) and not run.violations:
        what = []
        if not lean.ok:
            what.append("proof obligations of Props/C06.lean no longer check: " + json.dumps(lean.broken)[:600])
        if corr_failures:
            what.append(f"model/implementation correspondence broken on {len(corr_failures)} cases, e.g. "
                        + json.dumps(corr_failures[0])[:500])
        # deeper search already happened (every generated case ran under the meter); no diverging input outside the class
        run.report("C06/unproved", "; ".join(what),
                   {"broken_obligations": lean.broken, "correspondence": corr_failures[:20]}, no_input=True)
    return run.finish(
        lean,
        rule="(grammar, start, input): handwritten nullable/cyclic grammars + stress generator (nullable symbols, ?/*/+/{n,} "
             "nested, empty literals, left/right/unit recursion, bits off the byte boundary, empty-matching regexes) + shared "
             "productive generator; inputs derived from the IR, near misses, random strings; each parsed by the real parser "
             "in a worker under a step meter and an alarm (forest, first-tree, prefix requests); nontrivial = some later "
             "column holds more than one state",
        explanation="per case: model core policy finishes (theorem), model with the generated policy admits the same "
                    "states per column and yields the same forest as the real parser — in COMPLETE mode and in prefix "
                    "(INCOMPLETE) mode (there: incomplete and force-completed states of the last column included, the "
                    "yielded complete + partial trees as a multiset); a request that does not return is decided by the "
                    "model's own step count (violation if the model terminates and the real parser does not within the "
                    "derived bound)",
        trusted_base=TRUSTED)
