"""C07 — constraint verdicts follow the documented selector/quantifier semantics.

1. obligations: translator (harness/translate_cons.py -> Generated/Cons.lean), Props/C07.lean, axiom audit
2. correspondence: generated constraint programs x generated grammars/trees, evaluated
     (D) by real constraint objects constructed directly (eager, lazy, as generated),
     (T) by the constraint the REAL front end parses from the rendered `.fan` text,
   against the Lean model `opFit` (drv_cons): solved/total/success/fitness ratio or the escaping
   exception; every selector's match list against the model's `find` (as child-index paths)
3. the property on the real code: `check` = the model's `denote` (the reference semantics, for which
   `C07_op_eq_denote` is proved), lazy verdict = eager verdict
"""
from __future__ import annotations

import json
import time
from typing import Any, Optional

from harness import translate_cons
from harness.common import VERIF, Run, driver_ask, lean_check, use_repo
from harness.gen import cons as G
from harness.impl import cons as I

PID = "C07"
PROPOSED = VERIF / "proposed_findings" / "C07.json"

TRUSTED = [
    "Lean 4.33.0 kernel; axioms ⊆ {propext, Classical.choice, Quot.sound} (audited per run)",
    "hand-written models lean/Model/Search.lean + Model/Constraint.lean of language/search.py and constraints/*.py; "
    "tied by this run's correspondence (generator-bounded)",
    "translator harness/translate_cons.py (quantifier binding on copy vs caller's dict; comparison raising side) "
    "-> Generated/Cons.lean",
    "atoms: a typed expression language (str/int/len/startswith/in/not/and/or); arbitrary Python atoms are "
    "outside the theorem (C08)",
    "CPython eval / str / int for the atoms (modelled by hand for ASCII text, compared per run)",
]

RAISES = {"n": 0}


def install_counters() -> None:
    """count the combinations whose evaluation raised (and keep the logger quiet)"""
    import fandango.constraints.comparison as cmpmod
    import fandango.constraints.expression as exprmod

    def counting(e, msg=None):  # noqa: ANN001
        RAISES["n"] += 1
    exprmod.print_exception = counting
    cmpmod.print_exception = counting


# ------------------------------------------------------------------------------------------------
# one case = (grammar text, program, trees); evaluated on the real code and by the model
# ------------------------------------------------------------------------------------------------

def load_known(run: Run) -> None:
    """findings proposed by this builder but not yet decided by the lead are treated exactly like
    `known_findings.json` entries (see the report); the lead moves them into that file"""
    if PROPOSED.exists():
        for k in json.loads(PROPOSED.read_text()):
            if k.get("property") == PID and k.get("status") == "open" and \
                    not any(x.get("signature") == k.get("signature") for x in run.known):
                run.known.append(k)


class Case:
    def __init__(self, gtext: str, program: list, trees: list[list], origin: str, text_lazy: Optional[bool] = None):
        self.gtext, self.program, self.trees, self.origin = gtext, program, trees, origin
        self.text_lazy = text_lazy            # not None: also go through the front end with this lazy flag
        self.text: Optional[str] = None
        self.real: list[dict] = []            # per tree: variant -> outcome
        self.finds: list[dict] = []           # per tree: list of {"search","scope","direct","real"}
        self.raised = 0
        self.front_end_error: Optional[str] = None
        self.front_end_rejected: Optional[str] = None


def variants_of(program: list) -> dict[str, list]:
    return {"eager": G.with_lazy(program, False), "lazy": G.with_lazy(program, True), "asis": program}


def run_real(case: Case, rng, want_finds: bool = True) -> None:
    """evaluate the case on the real code"""
    from fandango.language.symbols import NonTerminal
    vs = variants_of(case.program)
    objs = {k: I.build_cons(p) for k, p in vs.items()}
    parsed = None
    if case.text_lazy is not None:
        case.text = "where " + G.cons_text(case.program, rng) + "\n"
        try:
            _, cons = I.parse_spec(case.gtext + case.text, lazy=case.text_lazy)
            if len(cons) != 1:
                case.front_end_error = f"front end produced {len(cons)} constraints"
            else:
                parsed = cons[0]
        except Exception as e:  # noqa: BLE001
            msg = f"{type(e).__name__}: {str(e)[:200]}"
            if (type(e).__name__ == "FandangoValueError" and (" has no child " in str(e) or "undefined symbol" in str(e))) \
                    or type(e).__name__ == "RecursionError":
                # the front end's static plausibility check (parse.check_constraints_existence) refuses the
                # spec: no constraint object exists, nothing to compare (counted)
                # (RecursionError: the same check recursing forever over a recursive grammar with `..`)
                case.front_end_rejected = msg
            else:
                case.front_end_error = msg
    searches = G.searches_of(case.program) if want_finds else []
    real_searches = [I.build_search(s) for s in searches]
    for tj in case.trees:
        tree = I.build_tree(tj)
        before = RAISES["n"]
        out = {k: I.eval_real(o, tree) for k, o in objs.items()}
        if parsed is not None:
            I.clear_caches(parsed)
            out["text"] = I.eval_real(parsed, tree)
        case.raised += RAISES["n"] - before
        case.real.append(out)
        fs = []
        if searches:
            paths = I.paths_of(tree)
            all_paths = sorted(paths.values())
            for s, rs in zip(searches, real_searches):
                scope_j: list = []
                if rng.random() < 0.3:
                    scope_j = [[rng.choice(G.NTS), rng.choice(all_paths)] for _ in range(rng.choice([1, 1, 2]))]
                    # a dict: later entries for the same key win
                    scope_j = list({k: [k, p] for k, p in scope_j}.values())
                scope = {NonTerminal(k): I.node_at(tree, p) for k, p in scope_j} or None
                direct = rng.random() < 0.25
                fs.append({"search": s, "scope": scope_j, "direct": direct,
                           "real": I.find_real(rs, tree, scope, paths, direct)})
        case.finds.append(fs)


def model_requests(case: Case) -> list[dict]:
    reqs = []
    vs = variants_of(case.program)
    for ti, tj in enumerate(case.trees):
        for k in ("eager", "lazy", "asis"):
            reqs.append({"op": "eval", "tree": tj, "cons": vs[k]})
        for f in case.finds[ti]:
            reqs.append({"op": "find", "tree": tj, "search": f["search"], "direct": f["direct"], "scope": f["scope"]})
    return reqs


def judge(run: Run, case: Case, answers: list[dict], corr: list) -> dict:
    """compare one case; returns distribution facts"""
    it = iter(answers)
    verdicts = []
    facts = {"empty_match": 0, "escaped": 0}
    fragile = impl_over_cmp(case.program)
    for ti, tj in enumerate(case.trees):
        model = {k: next(it) for k in ("eager", "lazy", "asis")}
        real = case.real[ti]
        denote = model["asis"]["denote"]
        for k in ("eager", "lazy", "asis", "text"):
            if k not in real:
                continue
            mk = k if k != "text" else ("lazy" if case.text_lazy else "eager")
            m = I.model_fit_canon(model[mk]["fit"])
            r = real[k]
            if fragile and "ok" in m and "ok" in r:
                # ImplicationConstraint caches a *copy* of a DistanceAware fitness whose __copy__ recomputes
                # solved/total from the values: the implication's own point is lost on a cache hit, so the
                # counters depend on the cache history (C11 finding; not reachable from .fan text, where
                # `->` crashes the converter).  Only the verdict is compared for such programs.
                m = {"ok": {"success": m["ok"]["success"]}}
                r = {"ok": {"success": r["ok"]["success"]}}
            # (2) correspondence of the operational model
            if m != r:
                corr.append({"kind": "fitness", "variant": k, "grammar": case.gtext, "program": case.program,
                             "text": case.text, "tree": tj, "impl": r, "model": m})
            # (3) the property: verdict = documented meaning
            if "ok" in r:
                if r["ok"]["success"] != denote:
                    report_verdict(run, case, tj, k, r, denote)
            else:
                facts["escaped"] += 1
        if "ok" in real["eager"] and "ok" in real["lazy"] and \
                real["eager"]["ok"]["success"] != real["lazy"]["ok"]["success"]:
            run.report("C07/lazy-differs",
                       f"lazy evaluation answers {real['lazy']['ok']['success']}, eager {real['eager']['ok']['success']} "
                       f"for `{safe_text(case.program)}` on {G.word_of(tj)!r}",
                       replay_of(case, tj, "lazy"))
        verdicts.append(real["asis"]["ok"]["success"] if "ok" in real["asis"] else "raise")
        for f in case.finds[ti]:
            a = next(it)
            if a != f["real"]:
                corr.append({"kind": "find", "grammar": case.gtext, "search": f["search"], "scope": f["scope"],
                             "direct": f["direct"], "tree": tj, "impl": f["real"], "model": a})
            if a.get("ok") == []:
                facts["empty_match"] += 1
    facts["verdicts"] = verdicts
    return facts


def impl_over_cmp(c: list) -> bool:
    tag = c[0]
    if tag in ("conj", "disj"):
        return any(impl_over_cmp(x) for x in c[2])
    if tag == "impl":
        return c[2][0] == "cmp" or impl_over_cmp(c[1]) or impl_over_cmp(c[2])
    if tag in ("all", "any"):
        return impl_over_cmp(c[4])
    return False


def safe_text(program: list) -> str:
    try:
        return G.cons_text(program) if G.text_expressible(program) else json.dumps(program)[:300]
    except Exception:  # noqa: BLE001
        return json.dumps(program)[:300]


def replay_of(case: Case, tj: list, variant: str) -> dict:
    return {"kind": "verdict", "grammar": case.gtext, "program": case.program, "text": case.text,
            "text_lazy": case.text_lazy, "tree": tj, "word": G.word_of(tj), "variant": variant}


def classify(case: Case) -> str:
    """narrow signatures for the finding classes that have (or had) an entry in known_findings.json"""
    srcs = json.dumps(case.program)
    if '"slice", null' in srcs or ('"slice"' in srcs and ", null, " in srcs and case.text_lazy is not None):
        return "C07/slice-omitted-bound"
    return "C07/verdict-differs"


def report_verdict(run: Run, case: Case, tj: list, variant: str, r: dict, denote: bool) -> None:
    program = shrink(case, tj, variant) if variant != "text" else case.program
    c2 = Case(case.gtext, program, [tj], case.origin, case.text_lazy)
    c2.text = case.text
    sig = classify(case) if variant == "text" else "C07/verdict-differs"
    run.report(sig,
               f"check() answers {r['ok']['success']} but the documented meaning is {denote}: "
               f"`{safe_text(program)}` on {G.word_of(tj)!r} ({variant} evaluation, {case.origin})",
               replay_of(c2, tj, variant))


def shrink(case: Case, tj: list, variant: str) -> list:
    """smallest sub-constraint (closed under the same empty scope) that still disagrees with `denote`"""
    cur = G.with_lazy(case.program, variant == "lazy") if variant in ("eager", "lazy") else case.program
    for _ in range(20):
        kids = []
        if cur[0] in ("conj", "disj"):
            kids = list(cur[2])
        elif cur[0] == "impl":
            kids = [cur[1], cur[2]]
        found = None
        for k in kids:
            try:
                tree = I.build_tree(tj)
                r = I.eval_real(I.build_cons(k), tree)
                a = driver_ask("drv_cons", [{"op": "eval", "tree": tj, "cons": k}])[0]
            except Exception:  # noqa: BLE001
                continue
            if "ok" in r and r["ok"]["success"] != a["denote"]:
                found = k
                break
        if found is None:
            return cur
        cur = found
    return cur


# ------------------------------------------------------------------------------------------------
# corpus: the cases the design documents + minimised past disagreements
# ------------------------------------------------------------------------------------------------

def cp(s: str) -> list[int]:
    return [ord(c) for c in s]


def corpus_cases() -> list[Case]:
    out = []
    # F1: a raising side of a comparison is a failed combination
    g1 = '<start> ::= <x> <x>\n<x> ::= "a" | "1"\n'
    p1 = ["cmp", ["i", "==", ["int", ["ph", 0]], ["lit", 1]], [["rule", "<x>"]]]
    t = lambda w: ["n", "<start>", None, None, [["n", "<x>", None, None, [["t", cp(c), None, None]]] for c in w]]  # noqa: E731
    out.append(Case(g1, p1, [t("aa"), t("a1"), t("1a"), t("11")], "corpus:F1", text_lazy=False))
    # F2: the binding of an inner quantifier must not be visible in the next iteration of the outer one
    g2 = '<start> ::= <a> <a>\n<a> ::= <b>\n<b> ::= "y" | "q"\n'
    inner = ["all", False, ["nt", "<b>"], ["star", ["attr", ["rule", "<a>"], ["rule", "<b>"]]],
             ["cmp", ["s", "==", ["str", ["ph", 0]], ["lit", cp("y")]], [["rule", "<b>"]]]]
    p2 = ["all", False, ["nt", "<a>"], ["star", ["attr", ["rule", "<start>"], ["rule", "<a>"]]], inner]
    t2 = lambda w: ["n", "<start>", None, None, [["n", "<a>", None, None, [["n", "<b>", None, None, [["t", cp(c), None, None]]]]] for c in w]]  # noqa: E731
    out.append(Case(g2, p2, [t2("yq"), t2("yy"), t2("qy"), t2("qq")], "corpus:F2", text_lazy=False))
    out.append(Case(g2, G.with_lazy(p2, True), [t2("yq"), t2("yy")], "corpus:F2-lazy", text_lazy=True))
    # the same through local variables
    inner3 = ["any", False, ["var", "w"], ["star", ["attr", ["rule", "<a>"], ["rule", "<b>"]]],
              ["cmp", ["s", "==", ["str", ["var", "w"]], ["lit", cp("y")]], []]]
    p3 = ["all", False, ["nt", "<a>"], ["star", ["attr", ["rule", "<start>"], ["rule", "<a>"]]], inner3]
    out.append(Case(g2, p3, [t2("yq"), t2("yy"), t2("qy")], "corpus:F2-any", text_lazy=False))
    # vacuous truth, exists over nothing, selectors that raise
    g4 = '<start> ::= <a> <a>\n<a> ::= <b> <b> | <b>\n<b> ::= "x" | "y" | "1"\n<c> ::= "z"\n'
    ta = lambda ws: ["n", "<start>", None, None, [["n", "<a>", None, None, [["n", "<b>", None, None, [["t", cp(c), None, None]]] for c in w]] for w in ws]]  # noqa: E731
    trees4 = [ta(["xy", "1"]), ta(["x", "x"]), ta(["11", "1x"])]
    for prog in (
        ["cmp", ["s", "==", ["str", ["ph", 0]], ["lit", cp("nope")]], [["rule", "<c>"]]],
        ["any", False, ["var", "q"], ["star", ["rule", "<c>"]], ["expr", ["tt"], []]],
        ["all", False, ["var", "q"], ["star", ["rule", "<c>"]], ["expr", ["ff"], []]],
        ["cmp", ["s", "==", ["str", ["ph", 0]], ["lit", cp("x")]], [["item", ["rule", "<a>"], [["idx", 1]]]]],
        ["disj", False, [["expr", ["tt"], []],
                         ["cmp", ["s", "==", ["str", ["ph", 0]], ["lit", cp("x")]], [["item", ["rule", "<a>"], [["idx", 1]]]]]]],
        ["cmp", ["i", ">=", ["len", ["ph", 0]], ["lit", 2]], [["len", ["desc", ["rule", "<start>"], ["rule", "<b>"]]]]],
        ["expr", ["in", cp("1"), ["ph", 0]], [["star", ["attr", ["rule", "<a>"], ["rule", "<b>"]]]]],
        ["expr", ["or", ["cmp", ["i", "==", ["int", ["ph", 0]], ["lit", 1]]], ["cmp", ["s", "==", ["str", ["ph", 1]], ["lit", cp("x")]]]],
         [["rule", "<b>"], ["rule", "<b>"]]],
    ):
        out.append(Case(g4, prog, trees4, "corpus:basic", text_lazy=False))
    # negative indices / open slices: only by direct construction
    for sl in ([["idx", -1]], [["slice", None, 1, None]], [["slice", 1, None, None]], [["slice", -2, None, None]],
               [["slice", None, None, 2]], [["slice", 0, 2, 0]]):
        out.append(Case(g4, ["cmp", ["s", "==", ["str", ["ph", 0]], ["lit", cp("x")]], [["item", ["rule", "<a>"], sl]]],
                        trees4, "corpus:slices"))
    return out


def probes(run: Run) -> None:
    """front-end defects found while building this check (both fixed since: 0d18e90f, 50178e77); each is re-run
    every time so that a regression is reported under its own narrow signature"""
    g = '<start> ::= <a>\n<a> ::= <b> <b> <b>\n<b> ::= "x" | "y" | "1"\n'
    word = "xy1"
    # F12 (fixed): every `{…}` selector raised ValueError
    try:
        _, cons = I.parse_spec(g + 'where str(<start>.<a>{*<b>}) == "x"\n')
        gg, _ = I.parse_spec(g)
        t = gg.parse(word)
        r = I.eval_real(cons[0], t)
        if "err" in r:
            raise ValueError("check raised " + r["err"])
        run.count("probe:selective-ok")
    except Exception as e:  # noqa: BLE001
        run.count("probe:selective-raises")
        run.report("C07/selective-search",
                   f"`<start>.<a>{{*<b>}}`: a constraint with a {{…}} selector cannot be checked "
                   f"({type(e).__name__}: {str(e)[:80]})",
                   {"kind": "probe", "probe": "selective", "grammar": g, "text": 'where str(<start>.<a>{*<b>}) == "x"\n',
                    "word": word})
    # slices with an omitted bound are read with the numbers in the wrong places
    gg, _ = I.parse_spec(g)
    t = gg.parse(word)
    tj = I.tree_json(t)
    for text_sl, sl in (("[:1]", ["slice", None, 1, None]), ("[:2]", ["slice", None, 2, None]),
                        ("[::2]", ["slice", None, None, 2]), ("[1::2]", ["slice", 1, None, 2])):
        lit = {"[:1]": "x", "[:2]": "xy", "[::2]": "x1", "[1::2]": "y"}[text_sl]
        text = f'where str(<a>{text_sl}) == "{lit}"\n'
        prog = ["cmp", ["s", "==", ["str", ["ph", 0]], ["lit", cp(lit)]], [["item", ["rule", "<a>"], [sl]]]]
        try:
            _, cons = I.parse_spec(g + text)
            r = I.eval_real(cons[0], gg.parse(word))
        except Exception as e:  # noqa: BLE001
            r = {"err": I.exc_kind(e)}
        a = driver_ask("drv_cons", [{"op": "eval", "tree": tj, "cons": prog}])[0]
        if "ok" in r and r["ok"]["success"] == a["denote"]:
            run.count("probe:slice-ok")
        else:
            run.count("probe:slice-misread")
            run.report("C07/slice-omitted-bound",
                       f"`{text.strip()}` on {word!r}: check() gives {r}, the documented meaning of `<a>{text_sl}` "
                       f"(Python slice semantics) gives {a['denote']}",
                       {"kind": "probe", "probe": "slice", "grammar": g, "text": text, "word": word, "program": prog})


# ------------------------------------------------------------------------------------------------

def gen_cases(run: Run, rng, n_grammars: int, per_grammar: int, n_trees: int) -> list[Case]:
    cases = []
    for gi in range(n_grammars):
        g = G.gen_grammar(rng)
        gtext = G.grammar_text(g)
        nts = g          # the generators steer `.`/`..` by the grammar
        # trees: the real parser's tree for a derived word (falls back to the hand-built derivation)
        try:
            gram, _ = I.parse_spec(gtext)
        except Exception as e:  # noqa: BLE001
            run.count("grammar_rejected")
            continue
        trees = []
        for _ in range(n_trees):
            d = G.derive(rng, g)
            if rng.random() < 0.7:
                pt = gram.parse(G.word_of(d))
                if pt is not None:
                    trees.append(I.tree_json(pt))
                    run.count("tree:parsed")
                    continue
            trees.append(d)
            run.count("tree:hand-built")
        for _ in range(per_grammar):
            if rng.random() < 0.6:
                z = rng.random() < 0.5
                prog = G.gen_text_program(rng, nts, z, rng.choice([0, 1, 1, 2, 3]))
                if not G.text_expressible(prog):
                    run.count("gen:text-program-not-expressible")
                    cases.append(Case(gtext, prog, trees, "generated:free"))
                else:
                    cases.append(Case(gtext, prog, trees, "generated:text", text_lazy=z))
            else:
                prog = G.gen_free_program(rng, nts, rng.choice([1, 2, 2, 3, 3]))
                cases.append(Case(gtext, prog, trees, "generated:free"))
    return cases


def process(run: Run, cases: list[Case], rng, corr: list, stats: dict) -> None:
    for c in cases:
        run_real(c, rng)
    reqs: list[dict] = []
    spans = []
    for c in cases:
        r = model_requests(c)
        spans.append((len(reqs), len(reqs) + len(r)))
        reqs.extend(r)
    answers = driver_ask("drv_cons", reqs) if reqs else []
    for c, (a, b) in zip(cases, spans):
        if c.front_end_error:
            corr.append({"kind": "front-end", "grammar": c.gtext, "text": c.text, "error": c.front_end_error,
                         "program": c.program})
        if c.text_lazy is not None:
            run.count(("front_end:static_check_crashed" if "RecursionError" in c.front_end_rejected
                       else "front_end:rejected_by_static_check") if c.front_end_rejected else "front_end:accepted")
        facts = judge(run, c, answers[a:b], corr)
        vs = facts["verdicts"]
        kinds = G.kinds_of(c.program)
        nontrivial = len(set(map(str, vs))) > 1 or c.raised > 0
        run.case({"g": c.gtext, "p": c.program}, nontrivial,
                 {"program": safe_text(c.program), "words": [G.word_of(t) for t in c.trees], "verdicts": vs,
                  "origin": c.origin})
        run.count("origin:" + c.origin.split(":")[0] + ":" + c.origin.split(":")[1].split("-")[0])
        run.count("depth:" + str(G.depth_of(c.program)))
        if G.shadowing_quantifiers(c.program):
            run.count("programs_with_shadowing_quantifier(bound symbol = symbol the range selects)")
        for k in kinds:
            run.count("node:" + k)
        run.count("verdict:constant" if len(set(map(str, vs))) == 1 else "verdict:varies")
        for v in vs:
            run.count("verdict:" + str(v))
        if c.raised:
            run.count("programs_with_raising_combinations")
        stats["raising_combinations"] = stats.get("raising_combinations", 0) + c.raised
        stats["empty_match_sets"] = stats.get("empty_match_sets", 0) + facts["empty_match"]
        stats["escaped_exceptions"] = stats.get("escaped_exceptions", 0) + facts["escaped"]
        stats["searches_compared"] = stats.get("searches_compared", 0) + sum(len(f) for f in c.finds)


def deeper_search(run: Run, rng, corr: list, stats: dict) -> None:
    """failing-input search after a broken obligation / correspondence: the (grammar, program) pairs on which model
    and implementation disagreed (counters, match lists, exceptions) are re-run on MANY more trees of their grammar
    (the real generator's), looking for a tree on which the real verdict differs from the documented meaning; when
    the obligations broke without any disagreement, fresh shadowing / raising programs are tried the same way."""
    seen, pairs = set(), []
    for d in corr:
        if "grammar" in d and "program" in d:
            key = json.dumps([d["grammar"], d["program"]], sort_keys=True)
            if key not in seen:
                seen.add(key)
                pairs.append((d["grammar"], d["program"]))
    pairs = pairs[:40]
    t0 = time.time()
    cases = []
    for gtext, prog in pairs:
        if time.time() - t0 > 120:
            break
        try:
            gram, _ = I.parse_spec(gtext)
        except Exception:  # noqa: BLE001
            continue
        trees, words = [], set()
        import random as _random
        st = _random.getstate()
        _random.seed(rng.getrandbits(32))
        try:
            for _ in range(160):
                try:
                    t = gram.fuzz("<start>", max_nodes=rng.choice([10, 25, 60]))
                except Exception:  # noqa: BLE001
                    break
                w = str(t)
                if w not in words and len(w) <= 40:
                    words.add(w)
                    trees.append(I.tree_json(t))
                if len(trees) >= 48:
                    break
        finally:
            _random.setstate(st)
        for i in range(0, len(trees), 6):
            cases.append(Case(gtext, prog, trees[i:i + 6], "search:after-disagreement"))
    # targeted programs: a quantifier that SHADOWS the symbol its range selects, with a body that reads the bound
    # element, so that the verdict depends on WHICH elements the quantifier ranged over
    def subvalues(t, acc):
        if t[0] != "n":
            return "".join(map(chr, t[1])) if t[0] == "t" else ""
        v = "".join(subvalues(k, acc) for k in t[4])
        acc.setdefault(t[1], set()).add(v)
        return v

    def under(t, top, acc, inside=None):
        if t[0] != "n":
            return
        if inside is not None and t[1] != top:
            acc.add((inside, t[1]))
        for k in t[4]:
            under(k, top, acc, t[1] if inside is None else inside)
            under(k, top, acc, None) if inside is not None else None

    by_grammar: dict = {}
    for c in cases:
        by_grammar.setdefault(c.gtext, []).extend(c.trees)
    for gtext, trees in list(by_grammar.items())[:12]:
        vals: dict = {}
        pairs_yx: set = set()
        for t in trees:
            subvalues(t, vals)
            under(t, t[1], pairs_yx)
        progs = []
        for (y, x) in sorted(pairs_yx):
            for lit in sorted(vals.get(x, ()))[:3]:
                for q in ("all", "any"):
                    for sel in ("attr", "desc"):
                        body = ["cmp", ["s", rng.choice(["==", "!="]), ["str", ["ph", 0]], ["lit", cp(lit)]],
                                [["rule", x]]]
                        progs.append([q, rng.random() < 0.5, ["nt", x], ["star", [sel, ["rule", y], ["rule", x]]], body])
        # quantifiers whose DOMAIN is a slice selection (`forall <x> in <y>[1:]`): the bound values are parentless
        # views, so anything that identifies a binding by its position confuses them (seeded change C07-4)
        for (y, x) in sorted(pairs_yx)[:6]:
            for lit in sorted(vals.get(x, ()))[:2]:
                for q in ("all", "any"):
                    for sl in ([["slice", 0, None, None]], [["slice", 1, None, None]], [["slice", None, None, 2]],
                               [["slice", 0, 2, None]]):
                        body = ["cmp", ["s", rng.choice(["==", "!="]), ["str", ["ph", 0]], ["lit", cp(lit)]],
                                [["rule", x]]]
                        progs.append([q, rng.random() < 0.5, ["nt", x], ["item", ["rule", y], sl], body])
        rng.shuffle(progs)
        for prog in progs[:40]:
            for i in range(0, min(len(trees), 24), 6):
                cases.append(Case(gtext, prog, trees[i:i + 6], "search:shadowing"))
    run.count("deeper_search_pairs", len(pairs))
    run.count("deeper_search_cases", len(cases))
    if cases:
        sink: list = []
        process(run, cases, rng, sink, stats)


def replay(path: str) -> int:
    use_repo()
    install_counters()
    rp = json.load(open(path))
    if rp.get("no_failing_input_found"):
        print("replay: this file records broken proof obligations / correspondence without a failing input:")
        print(json.dumps({k: rp[k] for k in rp if k in ("what", "broken_obligations", "correspondence")}, indent=1)[:3000])
        return 1
    bad = False
    if rp.get("kind") == "probe":
        gram, cons = None, None
        try:
            gram, cons = I.parse_spec(rp["grammar"] + rp["text"])
            tree = gram.parse(rp["word"])
            r = I.eval_real(cons[0], tree)
        except Exception as e:  # noqa: BLE001
            r = {"err": f"{type(e).__name__}: {str(e)[:100]}"}
        print("spec:", (rp["grammar"] + rp["text"]).replace("\n", " ; "), " word:", rp["word"])
        print("real outcome:", r)
        if "program" in rp and gram is not None:
            gg, _ = I.parse_spec(rp["grammar"])
            a = driver_ask("drv_cons", [{"op": "eval", "tree": I.tree_json(gg.parse(rp["word"])), "cons": rp["program"]}])[0]
            print("documented meaning (model denote):", a["denote"])
            bad = not ("ok" in r and r["ok"]["success"] == a["denote"])
        else:
            bad = "ok" not in r
    else:
        tj, prog = rp["tree"], rp["program"]
        variant = rp.get("variant", "asis")
        tree = I.build_tree(tj)
        if variant == "text" and rp.get("text"):
            _, cons = I.parse_spec(rp["grammar"] + rp["text"], lazy=bool(rp.get("text_lazy")))
            r = I.eval_real(cons[0], tree)
            print("spec:", (rp["grammar"] + rp["text"]).replace("\n", " ; "))
        else:
            p = G.with_lazy(prog, variant == "lazy") if variant in ("eager", "lazy") else prog
            r = I.eval_real(I.build_cons(p), tree)
            print("program:", safe_text(prog))
        a = driver_ask("drv_cons", [{"op": "eval", "tree": tj, "cons": prog}])[0]
        print("word:", G.word_of(tj), " real outcome:", r, " documented meaning:", a["denote"], " model fitness:", a["fit"])
        bad = "ok" in r and r["ok"]["success"] != a["denote"]
        if rp.get("signature") == "C07/lazy-differs":
            r2 = I.eval_real(I.build_cons(G.with_lazy(prog, False)), I.build_tree(tj))
            print("eager outcome:", r2)
            bad = "ok" in r and "ok" in r2 and r["ok"]["success"] != r2["ok"]["success"]
    print("replay:", "property violated" if bad else "no violation on the current tree")
    return 1 if bad else 0


def main(tier: str) -> int:
    run = Run(PID, tier, "proof")
    use_repo()
    install_counters()
    load_known(run)
    gen = translate_cons.regenerate()
    lean = lean_check("Props.C07", ["drv_cons"])
    for r in gen["refusals"]:
        lean.broken.append({"module": "Generated.Cons", "reason": "translator refused: " + r})
    rng = run.rng("cases")
    corr: list = []
    stats: dict = {}
    t0 = time.time()
    process(run, corpus_cases(), rng, corr, stats)
    probes(run)
    if tier == "quick":
        n_grammars, per_grammar, n_trees = 80, 22, 4
    else:
        n_grammars, per_grammar, n_trees = 420, 30, 5
    budget = 160 if tier == "quick" else 1250
    done = 0
    while done < n_grammars and time.time() - t0 < budget:
        k = min(15, n_grammars - done)
        process(run, gen_cases(run, rng, k, per_grammar, n_trees), rng, corr, stats)
        done += k
    run.coverage["grammars"] = done
    run.coverage["traces_validated_against_impl"] = run.evaluations
    run.coverage["correspondence_disagreements"] = len(corr)
    run.coverage["disagreement_samples"] = corr[:5]
    run.coverage["generated_config"] = gen["constants"]
    run.coverage.update(stats)
    run.coverage["cases_per_second"] = round(run.evaluations / max(time.time() - t0, 1e-9), 1)
    if (not lean.ok or corr) and not run.violations:
        deeper_search(run, rng, corr, stats)
    if (not lean.ok or corr) and not run.violations:
        what = []
        if not lean.ok:
            what.append("proof obligations of Props/C07.lean no longer check: " + json.dumps(lean.broken)[:600])
        if corr:
            what.append(f"model/implementation correspondence broken on {len(corr)} cases, e.g. "
                        + json.dumps(corr[0])[:500])
        run.report("C07/unproved", "; ".join(what),
                   {"broken_obligations": lean.broken, "correspondence": corr[:20]}, no_input=True)
    return run.finish(
        lean,
        rule="constraint programs (depth <= 4: expr/cmp atoms over str/int/len/startswith/in/not/and/or, conj, disj, impl, "
             "all/any with non-terminal or variable bound, legacy forall/exists; selectors rule . .. [i] [a:b:s] * |..| "
             "nested <= 3, incl. negative/out-of-range indices) x 80+ random grammars (2-4 non-terminals, optional "
             "recursion) x 4 trees (real parser or hand-built), terminals half numeric so int() raises on part of "
             "the language; evaluated eager / lazy / as generated (objects) and through the real front end (text); "
             "non-trivial = verdict varies over the trees or a combination raised; distinct by (grammar, program)",
        trusted_base=TRUSTED)
