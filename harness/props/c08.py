"""C08 — Python embedded in a spec keeps its Python meaning.      (translation validation + proved core)

1. obligations: `Props/C08.lean` (operator tables regenerated from convert.py by
   harness/translate_pyexpr.py, lake build, axiom audit): for the expression core the rebuilt `ast`
   means what the text means, for all parse trees and environments.
2. tie of the Lean part to /repo, per generated expression of the core fragment:
   (a) Lean `visit` on the REAL ANTLR parse tree  ==  `ast` the REAL SearchProcessor built;
   (b) Lean `evalPT` on the real parse tree       ==  CPython `eval(text)` (value | exception class, and
       the order of name look-ups), for several environments;
   (c) Lean `evalAst` on CPython's own `ast`      ==  CPython `eval(text)`.
3. translation validation (labelled as such — no theorem covers it) of everything else:
   `ast.dump(ast.parse(what Fandango will exec/eval)) == ast.dump(ast.parse(text))` modulo placeholder
   names, at the four embedding sites (spec-level Python code = `code_text`, constraints, generators,
   repetition bounds), over (i) the harvested corpus (every Python statement / constraint of every .fan
   file under /repo and the stdlib spec) and (ii) a grammar-based generator of programs; failing
   programs are shrunk by subtree / token deletion.  When Fandango *rejects* a text that is fine; when it
   accepts, the AST must match.
   EVERY difference of a case is reported (outermost node of each), under the signature
   `C08/<site>:<class>` with site = code | constraint | generator | repetition.  A class is either the shape of
   a recognised defect (`named_pattern`, `constraint_diffs`, `underscore_split_reading`) or generic
   (`want:<node type>`, `<Node>.<field>`, `…:len±`).  The top level of a constraint is the spec language's own
   grammar (formula_disjunction / _conjunction / _comparison / expr): `and` / `or` are compared through the
   conjunction / disjunction objects, and a regrouping there (same operator sequence, same operands, other
   grouping) is ONE difference, classified by the precedence rule that caused it; the operands are compared
   pairwise.  Findings proposed by this builder (proposed_findings/C08.json, status open) are treated like
   known_findings.json entries until the lead decides.
"""
from __future__ import annotations

import ast
import copy
import io
import json
import re
import signal
import time
import tokenize
import warnings
from typing import Any, Callable, Optional

from harness import translate_pyexpr
from harness.common import REPO, VERIF, MachineryError, Run, driver_ask, lean_check, use_repo
from harness.gen import pygen, pyprobes

PID = "C08"
PROPOSED = VERIF / "proposed_findings" / "C08.json"

TRUSTED = [
    "Lean 4.33.0 kernel; axioms ⊆ {propext, Classical.choice, Quot.sound} (audited per run)",
    "hand-written model lean/Model/PyExpr.lean of the expression visitors of convert.py (SearchProcessor); "
    "tied by this run's correspondence (a) on real ANTLR trees (generator-bounded)",
    "translator harness/translate_pyexpr.py: operator tables / operand positions / IfExp fields read from "
    "convert.py, hand-modelled visitors pinned by normalised-source hash",
    "the reference evaluator evalPT (language reference §6) and the ast evaluator evalAst are tied to CPython "
    "by (b)/(c) on ints, bools, str, None, tuples, lists (floats, big shifts, identity of non-singletons are "
    "answered `unsupported` and skipped: counted)",
    "the JSON decoder of parse trees in lean/Driver/PyExpr.lean (grammar-directed, strict)",
    "CPython's own parser (ast.parse) as the reference for translation validation; ast.dump equality modulo "
    "Constant.kind and JoinedStr-of-constants (except in docstring position)",
    "NOT covered by any theorem: the ANTLR recogniser, statements, parameters, lambdas, comprehensions, "
    "f-strings, non-int/str literals, star elements of displays — translation validation only",
]

DELIBERATE = {"FandangoSyntaxError", "UnsupportedOperation", "FandangoValueError", "NotImplementedError",
              "FandangoParseError"}

PLACEHOLDER = re.compile(r"___fandango_\d+_(\d+)___")


# ================================================================================================
# AST comparison
# ================================================================================================

class _Norm(ast.NodeTransformer):
    def visit_Constant(self, node: ast.Constant) -> Any:
        if getattr(node, "kind", None) is not None:
            node = ast.Constant(value=node.value)
        return node

    def visit_JoinedStr(self, node: ast.JoinedStr) -> Any:
        self.generic_visit(node)
        if all(isinstance(v, ast.Constant) and isinstance(v.value, str) for v in node.values):
            c = ast.Constant(value="".join(v.value for v in node.values))
            c._from_fstring = True          # not a field: invisible to ast.dump
            return c
        return node


def docstrings(tree: ast.AST) -> list[Optional[str]]:
    """per Module/def/class in walk order: 'const' if the first statement is a string constant (a real
    docstring), 'joined' if it is an f-string, None otherwise"""
    out = []
    for n in ast.walk(tree):
        if isinstance(n, (ast.Module, ast.FunctionDef, ast.AsyncFunctionDef, ast.ClassDef)) and n.body:
            f = n.body[0]
            if isinstance(f, ast.Expr) and isinstance(f.value, ast.Constant) and isinstance(f.value.value, str):
                out.append("const")
            elif isinstance(f, ast.Expr) and isinstance(f.value, ast.JoinedStr):
                out.append("joined")
            else:
                out.append(None)
    return out


def norm(tree: ast.AST) -> ast.AST:
    return _Norm().visit(copy.deepcopy(tree))


def _desc(n: Any) -> str:
    if isinstance(n, ast.AST):
        try:
            return f"{type(n).__name__}: {ast.unparse(n)[:80]!r}"
        except Exception:  # noqa
            return type(n).__name__
    return repr(n)[:80]


def _same(a: Any, b: Any) -> bool:
    if isinstance(a, ast.AST) and isinstance(b, ast.AST):
        return ast.dump(a) == ast.dump(b)
    return type(a) is type(b) and a == b


def _is_fstring(n: Any) -> bool:
    return isinstance(n, ast.JoinedStr) or (isinstance(n, ast.Constant) and getattr(n, "_from_fstring", False))


def _fstringish(n: Any) -> bool:
    return isinstance(n, ast.JoinedStr) or (isinstance(n, ast.Constant) and isinstance(n.value, str))


def _field_values(n: Any) -> list:
    """the expressions of the replacement fields, in order, format specifications included"""
    out: list = []
    if isinstance(n, ast.JoinedStr):
        for v in n.values:
            if isinstance(v, ast.FormattedValue):
                out.append(v.value)
                out += _field_values(v.format_spec)
    return out


def _field_exprs(n: Any) -> list[str]:
    return [ast.dump(e) for e in _field_values(n)]


def named_pattern(w: Any, g: Any) -> Optional[str]:
    """recognise the shape of a difference so that a known defect has ONE signature"""
    if isinstance(w, ast.Lambda):
        return "lambda-not-rebuilt"
    if isinstance(w, ast.Tuple) and len(w.elts) == 1 and isinstance(g, ast.AST) and not isinstance(g, ast.Tuple) \
            and (type(g) is type(w.elts[0]) or isinstance(w.elts[0], (ast.Starred, ast.Lambda))):
        return "one-element-tuple-unwrapped"
    if isinstance(w, ast.Starred) and isinstance(g, ast.AST) and not isinstance(g, ast.Starred) \
            and (type(g) is type(w.value) or isinstance(w.value, (ast.Lambda, ast.Tuple))):
        return "star-dropped"
    if isinstance(w, ast.arguments) and isinstance(g, ast.arguments):
        moved = len(w.args) - len(g.args)
        if moved > 0 and len(g.kwonlyargs) - len(w.kwonlyargs) == moved and \
                [a.arg for a in w.args[len(g.args):]] == [a.arg for a in g.kwonlyargs[:moved]]:
            return "defaults-become-keyword-only"
    if isinstance(w, ast.Constant) and isinstance(g, ast.Constant) and not isinstance(w.value, (str, bytes, bool)) \
            and isinstance(w.value, (int, float, complex)) and isinstance(g.value, (int, float, complex)):
        return "numeric-literal-value"
    if (_is_fstring(w) or _is_fstring(g)) and _fstringish(w) and _fstringish(g):
        # same replacement-field expressions in the same order, only literal text / `=` specifier differ
        if _field_exprs(w) == _field_exprs(g):
            return "fstring-literal-text-from-tokens"
        extra = [e for e in _field_values(g) if isinstance(e, (ast.Dict, ast.Set))]
        lit = "".join(v.value for v in ([w] if isinstance(w, ast.Constant) else w.values)
                      if isinstance(v, ast.Constant) and isinstance(v.value, str))
        if extra and ("{" in lit or "}" in lit) and len(_field_values(g)) - len(_field_values(w)) == len(extra):
            return "fstring-doubled-brace-read-as-field"
    return None


# ---- the top level of a constraint is NOT plain Python: `formula_disjunction / formula_conjunction /
# formula_comparison / expr` of FandangoParser.g4 split it before the Python expression grammar sees it.
# Three precedence differences to CPython live in that grammar (they cannot be repaired in the visitors);
# each is recognised ONLY when what Fandango built is a pure regrouping of CPython's reading (the same
# token sequence, other parentheses) and the first difference, reached through and/or only, has the shape
# of that class.  Anything else at a constraint site keeps its generic signature.

def _tokens_without_parens(n: ast.AST) -> Optional[list[str]]:
    try:
        toks = tokenize.generate_tokens(io.StringIO(ast.unparse(n)).readline)
        return [t.string for t in toks if t.type not in (tokenize.NEWLINE, tokenize.NL, tokenize.ENDMARKER)
                and t.string not in ("(", ")")]
    except Exception:  # noqa
        return None


def _strip_nots(n: ast.AST) -> tuple[int, ast.AST]:
    k = 0
    while isinstance(n, ast.UnaryOp) and isinstance(n.op, ast.Not):
        n, k = n.operand, k + 1
    return k, n


TOP_OPS = {ast.And: "and", ast.Or: "or"}


def linearise(n: ast.AST, leaves: list, ops: list) -> str:
    """in-order walk of the TOP-LEVEL skeleton of a formula (and / or / not / comparison / conditional
    expression): operator tokens -> ops, maximal other sub-expressions -> leaves; returns the skeleton"""
    if isinstance(n, ast.BoolOp):
        parts = []
        for k, v in enumerate(n.values):
            if k:
                ops.append(TOP_OPS[type(n.op)])
            parts.append(linearise(v, leaves, ops))
        return "(" + TOP_OPS[type(n.op)] + " " + " ".join(parts) + ")"
    if isinstance(n, ast.UnaryOp) and isinstance(n.op, ast.Not):
        ops.append("not")
        return "(not " + linearise(n.operand, leaves, ops) + ")"
    if isinstance(n, ast.Compare):
        parts = [linearise(n.left, leaves, ops)]
        for o, c in zip(n.ops, n.comparators):
            ops.append(type(o).__name__)
            parts.append(type(o).__name__ + " " + linearise(c, leaves, ops))
        return "(cmp " + " ".join(parts) + ")"
    if isinstance(n, ast.IfExp):
        b = linearise(n.body, leaves, ops)
        ops.append("if")
        c = linearise(n.test, leaves, ops)
        ops.append("else")
        return "(ifexp " + b + " " + c + " " + linearise(n.orelse, leaves, ops) + ")"
    leaves.append(n)
    return "_"


def _skel(n: ast.AST) -> str:
    return linearise(n, [], [])


def regrouping_class(want: ast.AST, got: ast.AST) -> tuple[str, str, str]:
    """which of the constraint grammar's precedence differences regrouped the skeleton (first one found)"""
    w, g = want, got
    while isinstance(w, ast.BoolOp) and isinstance(g, ast.BoolOp) and type(w.op) is type(g.op) \
            and len(w.values) == len(g.values):
        diff = [(a, b) for a, b in zip(w.values, g.values) if _skel(a) != _skel(b)]
        if not diff:
            break
        w, g = diff[0]
    cls = "toplevel-regrouped-otherwise"
    if isinstance(w, ast.IfExp) != isinstance(g, ast.IfExp):
        cls = "toplevel-conditional-expression-regrouped"
    else:
        kw, cw = _strip_nots(w)
        kg, cg = _strip_nots(g)
        if kw > kg and isinstance(cw, ast.Compare) and isinstance(cg, ast.Compare):
            cls = "toplevel-not-binds-tighter-than-comparison"
        elif isinstance(w, ast.Compare) and isinstance(g, ast.Compare) and len(w.ops) > len(g.ops) == 1:
            cls = "toplevel-comparison-chain-split"
        elif isinstance(w, ast.BoolOp) and isinstance(g, ast.BoolOp) and \
                any(isinstance(x, ast.IfExp) for x in list(w.values) + list(g.values)):
            cls = "toplevel-conditional-expression-regrouped"
    return cls, _desc(w), _desc(g)


def constraint_diffs(want: ast.AST, got: ast.AST) -> list[tuple[str, str, str]]:
    """all differences between CPython's reading of a constraint and the formula Fandango built:
    a regrouping of the top-level skeleton (same operator sequence, same number of operands) is ONE
    difference, classified; the operands are then compared pairwise"""
    if ast.dump(want) == ast.dump(got):
        return []
    lw: list = []
    ow: list = []
    lg: list = []
    og: list = []
    sw, sg = linearise(want, lw, ow), linearise(got, lg, og)
    if ow == og and len(lw) == len(lg):
        out = []
        if sw != sg:
            out.append(regrouping_class(want, got))
        for a, b in zip(lw, lg):
            out += all_diffs(a, b)
        return out
    names = lambda n: {x.id for x in ast.walk(n) if isinstance(x, ast.Name)}  # noqa: E731
    invented = sorted(names(got) - names(want))
    if invented and any(isinstance(x, ast.IfExp) for x in ast.walk(want)):
        # visitFormula_comparison unparses the LIST visitChildren returns for `X if C else Y`: one name `XCY`
        return [("formula-comparison-conditional-operand-garbled", _desc(want),
                 f"invented name(s) {invented} in {_desc(got)}")]
    return all_diffs(want, got)


# ---- FandangoLexer.g4's NUMBER has no `_` digit separators: at the top level of a spec, where statements
# need no separator, `x = 1_000` is read as `x = 1` followed by the statement `_000`

def underscore_split_reading(text: str) -> Optional[str]:
    """the text with every numeric literal that contains `_` cut the way FandangoLexer cuts it, the rest
    moved to a line of its own; None if there is no such literal"""
    try:
        toks = list(tokenize.generate_tokens(io.StringIO(text).readline))
    except Exception:  # noqa
        return None
    lines = text.splitlines(keepends=True)
    cut = False
    for tk in reversed(toks):
        if tk.type == tokenize.NUMBER and "_" in tk.string and tk.start[0] == tk.end[0]:
            head = tk.string[:tk.string.index("_")]
            while head:
                try:
                    if isinstance(ast.literal_eval(head), (int, float, complex)):
                        break
                except Exception:  # noqa
                    pass
                head = head[:-1]
            if not head:
                return None
            ln = lines[tk.start[0] - 1]
            # the rest is lexed as NAME (NUMBER NAME)*: `1_0.0_1` -> 1 | _0 | .0 | _1, each a statement of its own
            rest = tk.string[len(head):]
            pieces = re.findall(r"[A-Za-z_]\w*|(?:\d*\.\d+|\d+\.?)(?:[eE][+-]?\d+)?[jJ]?", rest)
            if "".join(pieces) != rest:
                return None
            lines[tk.start[0] - 1] = ln[:tk.start[1]] + head + "\n" + "\n".join(pieces) + ln[tk.end[1]:]
            cut = True
    return "".join(lines) if cut else None


def all_diffs(w: Any, g: Any, parent: str = "", field: str = "", out: Optional[list] = None) -> list[tuple[str, str, str]]:
    """(signature, want, got) of EVERY difference of a parallel walk (outermost node of each); a node
    pair with a recognised shape is one difference, and the walk continues below it only where the
    rest of the pair still corresponds (`(a,)` vs `a`, `*a` vs `a`)"""
    out = [] if out is None else out
    if len(out) >= 8:
        return out
    if isinstance(w, ast.AST) or isinstance(g, ast.AST):
        if isinstance(w, ast.AST) and isinstance(g, ast.AST) and ast.dump(w) == ast.dump(g):
            return out
        p = named_pattern(w, g)
        if p:
            out.append((p, _desc(w), _desc(g)))
            if p == "one-element-tuple-unwrapped":
                all_diffs(w.elts[0], g, parent, field, out)
            elif p == "star-dropped":
                all_diffs(w.value, g, parent, field, out)
            return out
        if type(w) is not type(g):
            out.append((f"want:{type(w).__name__}", _desc(w), _desc(g)))
            return out
        for f in w._fields:
            all_diffs(getattr(w, f, None), getattr(g, f, None), type(w).__name__, f, out)
        return out
    if isinstance(w, list) and isinstance(g, list):
        if len(w) != len(g) and any(isinstance(x, ast.Lambda) for x in w):
            # no visitLambdef: the default visitor returns the LIST [defaults…, body], which aggregateResult
            # splices into the enclosing list (elements of a display, arguments of a call)
            w2: list = []
            for x in w:
                if isinstance(x, ast.Lambda):
                    w2 += list(x.args.defaults) + [d for d in x.args.kw_defaults if d is not None] + [x.body]
                else:
                    w2.append(x)
            if len(w2) == len(g):
                lam = next(x for x in w if isinstance(x, ast.Lambda))
                out.append(("lambda-not-rebuilt", _desc(lam), f"its defaults and body spliced into the enclosing list ({len(g)} items)"))
                w = w2
        for a, b in zip(w, g):
            all_diffs(a, b, parent, field, out)
        if len(w) != len(g):
            sign = "-" if len(g) < len(w) else "+"
            extra = (w[len(g):] if len(g) < len(w) else g[len(w):])[0]
            out.append((f"{parent}.{field}:len{sign}", f"{len(w)} items", f"{len(g)} items ({_desc(extra)})"))
        return out
    if w != g or type(w) is not type(g):
        out.append((f"{parent}.{field}", repr(w)[:80], repr(g)[:80]))
    return out


def first_diff(w: Any, g: Any) -> Optional[tuple[str, str, str]]:
    d = all_diffs(w, g)
    return d[0] if d else None


def module_diffs(want: ast.AST, got: ast.AST) -> list[tuple[str, str, str]]:
    dw, dg = docstrings(want), docstrings(got)
    d = all_diffs(norm(want), norm(got))
    if dw != dg:
        d.append(("docstring-becomes-fstring", str(dw), str(dg)))
    return d


def compare_modules(want: ast.AST, got: ast.AST) -> Optional[tuple[str, str, str]]:
    d = module_diffs(want, got)
    return d[0] if d else None


def dedup(ds: list[tuple[str, str, str]]) -> list[tuple[str, str, str]]:
    seen, out = set(), []
    for d in ds:
        if d[0] not in seen:
            seen.add(d[0])
            out.append(d)
    return out


# ================================================================================================
# the real front end, per embedding site
# ================================================================================================

def _exc(e: BaseException) -> tuple[str, str]:
    n = type(e).__name__
    return ("rejected" if n in DELIBERATE else "crashed"), n


class Alarm:
    """wall-clock guard around a call into the implementation or CPython's eval"""

    def __init__(self, seconds: float):
        self.s = seconds

    def __enter__(self):
        def on(signum, frame):
            raise TimeoutError("alarm")
        self.old = signal.signal(signal.SIGALRM, on)
        signal.setitimer(signal.ITIMER_REAL, self.s)

    def __exit__(self, *a):
        signal.setitimer(signal.ITIMER_REAL, 0)
        signal.signal(signal.SIGALRM, self.old)


def cpython_module(text: str) -> Optional[ast.Module]:
    with warnings.catch_warnings():
        warnings.simplefilter("ignore")
        try:
            tree = ast.parse(text)
            compile(text, "<c08>", "exec", dont_inherit=True)
            return tree
        except (SyntaxError, ValueError, MemoryError, RecursionError):
            return None


def cpython_expr(text: str) -> Optional[ast.expr]:
    with warnings.catch_warnings():
        warnings.simplefilter("ignore")
        try:
            return ast.parse(text.strip(), mode="eval").body
        except (SyntaxError, ValueError, MemoryError, RecursionError):
            return None


def tv_code(text: str, parser: str) -> dict:
    """site A: spec-level Python code.  status: ok | rejected | crashed | altered | reclassified | notpython"""
    from harness.impl import pyfront as pf
    want = cpython_module(text)
    if want is None:
        return {"status": "notpython"}
    try:
        with Alarm(20):
            cs = pf.cached_spec(text, parser)
    except TimeoutError:
        return {"status": "timeout"}
    except RecursionError:
        return {"status": "crashed", "exc": "RecursionError"}
    except Exception as e:  # noqa
        st, n = _exc(e)
        return {"status": st, "exc": n, "msg": str(e)[:160]}
    if cs.productions or cs.constraints or cs.grammar_settings:
        return {"status": "reclassified"}        # the spec language reads (part of) the text as a spec construct
    with warnings.catch_warnings():
        warnings.simplefilter("ignore")
        try:
            got = ast.parse(cs.code_text)
        except SyntaxError:
            # exec(code_text) raises SyntaxError: the spec is rejected (late), nothing is run
            return {"status": "rejected", "exc": "SyntaxError-in-code_text"}
    ds = dedup(module_diffs(want, got))
    if not ds:
        return {"status": "ok"}
    alt = underscore_split_reading(text)
    if alt is not None:
        alt_tree = cpython_module(alt)
        if alt_tree is not None:
            # every difference that disappears against the lexer's reading is that ONE finding
            rest = dedup(module_diffs(alt_tree, got))
            if len(rest) < len(ds):
                ds = [("numeric-literal-underscore-splits-statement", ds[0][1], ds[0][2])] + rest
    return {"status": "altered", "sig": ds[0][0], "want": ds[0][1], "got": ds[0][2], "diffs": ds,
            "code_text": cs.code_text[:400]}


# ---- expressions with `<symbol>` holes ------------------------------------------------------------

HOLE_MARK = re.compile(r"\x00(\d+)\x01")
SKELETON = "<start> ::= <a> <c>\n<a> ::= <b>+\n<b> ::= 'x'\n<c> ::= 'y'\n"
ATOM_HOLES = ["<a>", "<b>", "<a>.<b>", "<start>..<b>", "<a>[0]", "<start>.<a>.<b>", "<a> . <b>"]


def sel_name(sel: str) -> str:
    """one Python name per selector, insensitive to spacing and to redundant parentheses"""
    canon = "".join(sel.split()).replace("(", "").replace(")", "")
    return "___sel_" + "".join(f"{ord(c):02x}" for c in canon) + "___"


class HoleProg(pygen.Prog):
    """expressions whose atoms may be `<symbol>` selectors (emitted as markers)"""

    def __init__(self, rng, max_depth: int = 2):
        super().__init__(rng, max_depth, holes=ATOM_HOLES)
        self.hole_texts: list[str] = []

    def hole(self) -> str:
        h = self.r.choice(self.holes)
        self.hole_texts.append(h)
        self.f("hole")
        return f"\x00{len(self.hole_texts) - 1}\x01"

    def starred_operand(self, d: int, bor: bool = False) -> str:
        # `*<a>` in an argument / star position is the spec language's star selection (one placeholder),
        # not a starred selector: keep selectors out of starred operands, star selections are emitted on purpose
        saved, self.holes = self.holes, None
        try:
            return super().starred_operand(d, bor)
        finally:
            self.holes = saved

    def args(self, d: int) -> str:
        s = super().args(d)
        if self.holes and self.r.random() < 0.1:
            self.hole_texts.append("*<a>")
            self.f("star_hole")
            s = f"\x00{len(self.hole_texts) - 1}\x01" + (", " + s if s else "")
        return s


def render(marked: str, holes: list[str]) -> tuple[str, str]:
    """-> (spec text of the expression, reference Python text)"""
    fan = HOLE_MARK.sub(lambda m: holes[int(m.group(1))], marked)
    ref = HOLE_MARK.sub(lambda m: sel_name(holes[int(m.group(1))]), marked)
    return fan, ref


def rename_placeholders(expr: str, searches: dict) -> str:
    def sub(m: re.Match) -> str:
        s = searches.get(m.group(0))
        if s is None:
            return "___unbound_placeholder___"
        try:
            return sel_name(s.format_as_spec())
        except Exception:  # noqa
            return "___unprintable_search___"
    return PLACEHOLDER.sub(sub, expr)


def parse_renamed(expr: str, searches: dict) -> ast.expr:
    return ast.parse(rename_placeholders(expr, searches), mode="eval").body


CMP_CLASS = {"==": ast.Eq, "!=": ast.NotEq, "<": ast.Lt, "<=": ast.LtE, ">": ast.Gt, ">=": ast.GtE}


def constraint_ast(c: Any) -> Optional[ast.expr]:
    """the Python expression a constraint object stands for (None: not a plain formula)"""
    n = type(c).__name__
    if n == "ExpressionConstraint":
        return parse_renamed(c.expression, c.searches)
    if n == "ComparisonConstraint":
        op = CMP_CLASS.get(c._operator.value)
        if op is None:
            return None
        searches = {k: getattr(v, "inner", v) for k, v in c.searches.items()}
        return ast.Compare(left=parse_renamed(c._left, searches), ops=[op()],
                           comparators=[parse_renamed(c._right, searches)])
    if n in ("ConjunctionConstraint", "DisjunctionConstraint"):
        vals = [constraint_ast(x) for x in c.constraints]
        if any(v is None for v in vals):
            return None
        return ast.BoolOp(op=ast.And() if n.startswith("Conj") else ast.Or(), values=vals)
    return None


def tv_embedded(site: str, marked: str, holes: list[str], parser: str, variant: int = 0) -> dict:
    """sites B–D: constraint | generator | repetition"""
    from harness.impl import pyfront as pf
    fan, ref = render(marked, holes)
    want = cpython_expr(ref)
    if want is None:
        return {"status": "notpython"}
    if site == "constraint":
        text = SKELETON + "where " + fan + "\n"
    elif site == "generator":
        text = SKELETON.replace("<c> ::= 'y'\n", "<c> ::= 'y' := " + fan + "\n")
    else:
        form = ["{%s}", "{%s,}", "{,%s}", "{1,%s}", "{%s, 9}"][variant % 5]
        text = SKELETON.replace("<c> ::= 'y'\n", "<c> ::= 'y'" + (form % fan) + "\n")
    try:
        with Alarm(20):
            spec = pf.front_end(text, parser)
    except TimeoutError:
        return {"status": "timeout", "text": text}
    except RecursionError:
        return {"status": "crashed", "exc": "RecursionError", "text": text}
    except Exception as e:  # noqa
        st, n = _exc(e)
        return {"status": st, "exc": n, "msg": str(e)[:160], "text": text}
    try:
        if site == "constraint":
            cons = [c for c in spec.constraints if type(c).__name__ != "RepetitionBoundsConstraint"]
            if len(cons) != 1:
                return {"status": "reclassified", "text": text}
            got = constraint_ast(cons[0])
            if got is None:
                return {"status": "reclassified", "text": text}
        elif site == "generator":
            from fandango.language.symbols import NonTerminal
            gen = spec.grammar.generators.get(NonTerminal("<c>"))
            if gen is None:
                return {"status": "altered", "sig": "generator-dropped", "want": ref[:80], "got": "no generator", "text": text}
            got = parse_renamed(gen.call, gen.nonterminals)
        else:
            from fandango.language.grammar.nodes.repetition import Repetition
            from fandango.language.symbols import NonTerminal
            node = spec.grammar.rules[NonTerminal("<c>")]
            reps = [n for n in _walk_nodes(node) if type(n) is Repetition]
            if len(reps) != 1:
                return {"status": "reclassified", "text": text}
            rep = reps[0]
            bc = [c for c in spec.constraints if type(c).__name__ == "RepetitionBoundsConstraint"]
            slot = {0: "both", 1: "min", 2: "max", 3: "max", 4: "min"}[variant % 5]
            if bc:
                data = bc[0].expr_data_max if slot == "max" else bc[0].expr_data_min
                got = parse_renamed(data[0], data[2])
                if slot == "both" and data[0] != bc[0].expr_data_max[0]:
                    return {"status": "altered", "sig": "repetition-min-max-differ", "want": ref[:80],
                            "got": f"{bc[0].expr_data_min[0]} / {bc[0].expr_data_max[0]}", "text": text}
            else:
                v = rep.internal_max if slot == "max" else rep.min
                if slot == "both" and rep.min != rep.internal_max:
                    return {"status": "altered", "sig": "repetition-min-max-differ", "want": ref[:80],
                            "got": f"{rep.min}/{rep.internal_max}", "text": text}
                got = ast.Constant(value=v)
                if isinstance(want, ast.Constant) and isinstance(want.value, int) and not isinstance(want.value, bool):
                    pass
                else:
                    return {"status": "altered", "sig": "repetition-bound-folded", "want": ref[:80], "got": repr(v), "text": text}
    except SyntaxError:
        # Fandango ACCEPTED the spec but the expression string it built is not Python: eval() raises SyntaxError at
        # first use — inside a constraint that is swallowed as a failed combination.  Not a rejection: an alteration,
        # attributed to the defect that is known to produce such strings where its construct is present.
        w = norm(want)
        if any(isinstance(x, ast.Lambda) for x in ast.walk(w)):
            cls = "lambda-not-rebuilt"
        elif site == "constraint" and "if" in linearise(w, [], []):
            cls = "formula-comparison-conditional-operand-garbled"
        else:
            cls = "expression-string-is-not-python"
        d = (cls, ref[:80], "an expression string CPython cannot parse (SyntaxError at first evaluation)")
        return {"status": "altered", "sig": cls, "want": d[1], "got": d[2], "diffs": [d], "text": text}
    ds = dedup(constraint_diffs(norm(want), norm(got)) if site == "constraint" else all_diffs(norm(want), norm(got)))
    if not ds:
        return {"status": "ok", "text": text}
    return {"status": "altered", "sig": ds[0][0], "want": ds[0][1], "got": ds[0][2], "diffs": ds, "text": text}


def _walk_nodes(node: Any) -> list:
    out = [node]
    for attr in ("node",):
        if hasattr(node, attr):
            out += _walk_nodes(getattr(node, attr))
    try:
        kids = node.children()
    except Exception:  # noqa
        kids = []
    for k in kids:
        if not any(k is o for o in out):
            out += _walk_nodes(k)
    return out


# ================================================================================================
# shrinking
# ================================================================================================

def _tokens(text: str) -> Optional[list[tuple[int, str]]]:
    try:
        return [(t.type, t.string) for t in tokenize.generate_tokens(io.StringIO(text).readline)]
    except Exception:  # noqa
        return None


def _untok(toks: list[tuple[int, str]]) -> Optional[str]:
    try:
        return tokenize.untokenize(toks)
    except Exception:  # noqa
        return None


class _Shrink(ast.NodeTransformer):
    """one deletion / replacement at position `k` of a pre-order numbering"""

    def __init__(self, k: int):
        self.k = k
        self.i = 0
        self.done = False

    def _hit(self) -> bool:
        self.i += 1
        return not self.done and self.i - 1 == self.k

    def generic_visit(self, node: ast.AST) -> ast.AST:
        for field, old in ast.iter_fields(node):
            if isinstance(old, list):
                new = []
                for item in old:
                    if isinstance(item, ast.stmt) or isinstance(item, (ast.expr, ast.keyword, ast.arg, ast.comprehension,
                                                                       ast.ExceptHandler, ast.withitem, ast.alias)):
                        if self._hit():
                            self.done = True
                            continue                      # delete this list element
                    if isinstance(item, ast.AST):
                        item = self.visit(item)
                    new.append(item)
                if field in ("body",) and not new and isinstance(node, (ast.Module,)) is False:
                    new = [ast.Pass()]
                old[:] = new
            elif isinstance(old, ast.expr):
                if self._hit():
                    self.done = True
                    # replace by a sub-expression of the same node if there is one, else by a name
                    subs = [c for c in ast.iter_child_nodes(old) if isinstance(c, ast.expr)]
                    setattr(node, field, subs[0] if subs else ast.Name(id="x", ctx=getattr(old, "ctx", ast.Load())))
                else:
                    setattr(node, field, self.visit(old))
            elif isinstance(old, ast.AST):
                setattr(node, field, self.visit(old))
        return node


def shrink(text: str, still_fails: Callable[[str], bool], budget_s: float = 6.0, mode: str = "exec") -> str:
    """smaller text that CPython accepts and that still fails with the same signature"""
    t0 = time.time()
    best = text
    # (1) AST subtree deletion / replacement, if the failure survives a round trip through unparse
    try:
        rt = ast.unparse(ast.parse(best, mode=mode)) + ("\n" if mode == "exec" else "")
        if still_fails(rt):
            best = rt
            progress = True
            while progress and time.time() - t0 < budget_s:
                progress = False
                k = 0
                while time.time() - t0 < budget_s:
                    tree = ast.parse(best, mode=mode)
                    tr = _Shrink(k)
                    tr.visit(tree)
                    if not tr.done:
                        break
                    try:
                        cand = ast.unparse(ast.fix_missing_locations(tree)) + ("\n" if mode == "exec" else "")
                        ast.parse(cand, mode=mode)
                    except Exception:  # noqa
                        k += 1
                        continue
                    if len(cand) < len(best) and still_fails(cand):
                        best = cand
                        progress = True
                    else:
                        k += 1
    except Exception:  # noqa
        pass
    # (2) token-level delta debugging
    toks = _tokens(best)
    if toks:
        n = 2
        while len(toks) >= 2 and time.time() - t0 < budget_s:
            chunk = max(1, len(toks) // n)
            removed = False
            for i in range(0, len(toks), chunk):
                cand_t = toks[:i] + toks[i + chunk:]
                cand = _untok(cand_t)
                if cand is None or len(cand) >= len(best):
                    continue
                try:
                    ast.parse(cand if mode == "exec" else cand.strip(), mode=mode)
                except Exception:  # noqa
                    continue
                if still_fails(cand):
                    toks, best, removed = cand_t, cand, True
                    n = max(n - 1, 2)
                    break
                if time.time() - t0 > budget_s:
                    break
            if not removed:
                if chunk == 1:
                    break
                n = min(len(toks), n * 2)
    return best


# ================================================================================================
# corpus harvest
# ================================================================================================

SYNTHETIC = {"NEWLINE", "INDENT", "DEDENT", "EOF"}


def real_span(ctx) -> Optional[tuple[int, int]]:
    from harness.impl import pyfront as pf
    from antlr4.tree.Tree import TerminalNodeImpl
    lo, hi = None, None
    stack = [ctx]
    while stack:
        n = stack.pop()
        if isinstance(n, TerminalNodeImpl):
            if pf.tok_name(n.symbol.type) in SYNTHETIC:
                continue
            s, e = n.symbol.start, n.symbol.stop
            if s is None or e is None or s < 0 or e < s:
                continue
            lo = s if lo is None else min(lo, s)
            hi = e if hi is None else max(hi, e)
        else:
            stack.extend(n.children or [])
    return None if lo is None else (lo, hi)


def python_text_of(ctx, text: str) -> Optional[tuple[str, dict[str, str]]]:
    """source text of an expression-like ctx with every selector replaced by a name
    -> (python text, name -> selector text)"""
    from fandango.language.parser.FandangoParser import FandangoParser as P
    span = real_span(ctx)
    if span is None:
        return None
    sels: list[tuple[int, int]] = []

    def walk(n, inside: bool):
        from antlr4.tree.Tree import TerminalNodeImpl
        if isinstance(n, TerminalNodeImpl):
            return
        is_sel = isinstance(n, (P.Selector_lengthContext, P.Star_selectionContext, P.Dot_selectionContext))
        if is_sel and not inside:
            sp = real_span(n)
            if sp:
                sels.append(sp)
            return
        for c in n.children or []:
            walk(c, inside or is_sel)
    walk(ctx, False)
    out, names, pos = "", {}, span[0]
    for s, e in sorted(sels):
        sel = text[s:e + 1]
        nm = sel_name(sel)
        names[nm] = sel
        out += text[pos:s] + nm
        pos = e + 1
    out += text[pos:span[1] + 1]
    return out, names


def harvest_files() -> list[str]:
    files = sorted(str(p) for p in REPO.rglob("*.fan") if ".git" not in p.parts)
    return files


def corpus_file(run: Run, path: str, text: str, parser: str, stats: dict, fail: Callable) -> None:
    """every top-level Python statement and every plain-formula constraint of one spec text"""
    from harness.impl import pyfront as pf
    from fandango.language.parse.convert import ConstraintProcessor, PythonProcessor
    from fandango.language.parse.splitter import FandangoSplitter
    from fandango.language.grammar.grammar import Grammar
    from fandango.language.parser.FandangoParser import FandangoParser as P
    try:
        tree = pf.parse_tree(text, parser, path)
    except Exception as e:  # noqa
        stats["files_rejected:" + type(e).__name__] = stats.get("files_rejected:" + type(e).__name__, 0) + 1
        return
    stats["files"] = stats.get("files", 0) + 1
    # only this file's own statements (includes are harvested as files of their own)
    for st in pf.all_ctx(tree, P.PythonContext):
        span = real_span(st)
        if span is None:
            continue
        # extend to whole lines so that comments / continuation lines come along
        lo = text.rfind("\n", 0, span[0]) + 1
        if text[lo:span[0]].strip():
            lo = span[0]
        frag = text[lo:span[1] + 1]
        hi_end = text.find("\n", span[1])
        frag = text[lo:(hi_end if hi_end >= 0 else len(text))] + "\n"
        want = cpython_module(_dedent(frag))
        stats["py_fragments"] = stats.get("py_fragments", 0) + 1
        if want is None:
            stats["py_fragments_not_python"] = stats.get("py_fragments_not_python", 0) + 1
            continue
        try:
            node = PythonProcessor().visit(st)
            mod = ast.Module(body=[node] if not isinstance(node, list) else node, type_ignores=[])
            ast.fix_missing_locations(mod)
            got = ast.parse(ast.unparse(mod))
        except Exception as e:  # noqa
            k, n = _exc(e)
            stats[f"py_{k}:{n}"] = stats.get(f"py_{k}:{n}", 0) + 1
            continue
        ds = dedup(module_diffs(want, got))
        run.case(["corpus-code", path, span[0]], True, None)
        for d in ds:
            fail("code", d, {"kind": "code", "text": _dedent(frag), "parser": parser, "origin": f"{path}@{span[0]}"})
        if not ds:
            stats["py_ok"] = stats.get("py_ok", 0) + 1
    cp = ConstraintProcessor(Grammar.dummy())
    for cctx in pf.all_ctx(tree, P.ConstraintContext):
        fctxs = [f for f in pf.all_ctx(cctx, P.QuantifierContext) if f.formula_disjunction()]
        for q in fctxs:
            fd = q.formula_disjunction()
            pt = python_text_of(fd, text)
            stats["formulas"] = stats.get("formulas", 0) + 1
            if pt is None:
                continue
            want = cpython_expr(_join_lines(pt[0]))
            if want is None:
                stats["formulas_not_python"] = stats.get("formulas_not_python", 0) + 1
                continue
            try:
                got = constraint_ast(cp.visitFormula_disjunction(fd))
            except Exception as e:  # noqa
                k, n = _exc(e)
                stats[f"formula_{k}:{n}"] = stats.get(f"formula_{k}:{n}", 0) + 1
                continue
            if got is None:
                stats["formulas_not_plain"] = stats.get("formulas_not_plain", 0) + 1
                continue
            ds = dedup(constraint_diffs(norm(want), norm(got)))
            run.case(["corpus-formula", path, real_span(fd)], True, None)
            for d in ds:
                sp = real_span(fd)
                fail("constraint", d, {"kind": "formula", "text": text[sp[0]:sp[1] + 1], "parser": parser,
                                       "origin": f"{path}@{sp[0]}"})
            if not ds:
                stats["formulas_ok"] = stats.get("formulas_ok", 0) + 1


def _dedent(frag: str) -> str:
    import textwrap
    return textwrap.dedent(frag)


def _join_lines(s: str) -> str:
    return "(" + s + ")" if "\n" in s else s


# ================================================================================================
# the Lean tie: core expressions
# ================================================================================================

class LogEnv(dict):
    """locals mapping for eval(): records the names that are read"""

    def __init__(self, values: dict):
        super().__init__(values)
        self.log: list[str] = []

    def __getitem__(self, k):
        v = dict.__getitem__(self, k)
        self.log.append(k)
        return v


def _pack(*a, **k):
    return (tuple(a), tuple((n, v) for n, v in k.items()))


FUNCS = {"f": ("pack", _pack), "g": ("len", len), "h": ("abs", abs), "len": ("len", len)}


def val_json(v: Any, depth: int = 0) -> Any:
    if depth > 6:
        raise ValueError("deep")
    if v is None:
        return ["none"]
    if v is Ellipsis:
        return ["ellipsis"]
    if isinstance(v, bool):
        return ["bool", v]
    if isinstance(v, int):
        return ["int", str(v)]
    if isinstance(v, float):
        return ["float"]
    if isinstance(v, str):
        return ["str", [ord(c) for c in v]]
    if isinstance(v, tuple):
        return ["tuple", [val_json(x, depth + 1) for x in v]]
    if isinstance(v, list):
        return ["list", [val_json(x, depth + 1) for x in v]]
    if isinstance(v, slice):
        return ["slice", val_json(v.start, depth + 1), val_json(v.stop, depth + 1), val_json(v.step, depth + 1)]
    for nm, (tag, fn) in FUNCS.items():
        if v is fn:
            return ["fn", tag]
    raise ValueError("outside the value domain: " + type(v).__name__)


ERR = {"ZeroDivisionError": "zeroDiv", "TypeError": "typeErr", "NameError": "nameErr", "ValueError": "valueErr",
       "IndexError": "indexErr", "AttributeError": "attrErr"}


def cpython_eval(code, env: dict) -> Optional[dict]:
    loc = LogEnv({**env, **{k: fn for k, (_, fn) in FUNCS.items()}})
    try:
        with Alarm(2):
            v = eval(code, {"__builtins__": {}}, loc)
    except TimeoutError:
        return None
    except NameError as e:
        return {"err": "nameErr", "name": getattr(e, "name", None) or str(e).split("'")[1]}
    except (OverflowError, MemoryError, RecursionError):
        return None
    except Exception as e:  # noqa
        k = ERR.get(type(e).__name__)
        return {"err": k} if k else None
    try:
        return {"ok": val_json(v), "log": loc.log}
    except ValueError:
        return None


def env_json(env: dict) -> dict:
    out = {k: val_json(v) for k, v in env.items()}
    out.update({k: ["fn", tag] for k, (tag, _) in FUNCS.items()})
    return out


def core_batch(run: Run, items: list[dict], corr: list, counters: dict) -> None:
    """items: {'text', 'g' (generic tree), 'real' (rebuilt ast json), 'cpy' (CPython ast json), 'envs', 'code'}"""
    reqs = []
    for it in items:
        ej = [env_json(e) for e in it["envs"]]
        reqs.append({"op": "run", "pt": it["g"], "envs": ej})
        reqs.append({"op": "evalast", "ast": it["cpy"], "envs": ej})
    ans = driver_ask("drv_pyexpr", reqs, timeout=900)
    for i, it in enumerate(items):
        a, b = ans[2 * i], ans[2 * i + 1]
        text = it["text"]
        if "outside" in a:
            counters["outside:" + a["outside"][:30]] = counters.get("outside:" + a["outside"][:30], 0) + 1
            continue
        counters["in_fragment"] = counters.get("in_fragment", 0) + 1
        nontriv = len(text) > 8
        run.case(["core", text], nontriv, {"text": text, "rebuilt": ast.unparse(it["real_node"])[:120]} if it.get("real_node") else None)
        # (a) model visitor vs real visitor
        if a["ast"] != it["real"]:
            corr.append({"kind": "visit", "text": text, "model": a["ast"], "impl": it["real"]})
        if not a.get("cf", True):
            counters["guarded_out(trailing-comma subscript)"] = counters.get("guarded_out(trailing-comma subscript)", 0) + 1
        # theorem instance: evalAst(visit pt) == evalPT pt whenever the guard holds
        if a.get("cf", True) and a["pt"] != a["ast_runs"]:
            corr.append({"kind": "theorem-instance", "text": text, "pt": a["pt"], "ast": a["ast_runs"]})
        if "outside" in b:
            counters["cpy_ast_outside"] = counters.get("cpy_ast_outside", 0) + 1
        for j, env in enumerate(it["envs"]):
            ref = cpython_eval(it["code"], env)
            m = a["pt"][j]
            if ref is None:
                counters["eval_skipped(cpython outside domain)"] = counters.get("eval_skipped(cpython outside domain)", 0) + 1
                continue
            if "unsupported" in m:
                counters["eval_skipped(model unsupported)"] = counters.get("eval_skipped(model unsupported)", 0) + 1
            else:
                counters["evals_compared"] = counters.get("evals_compared", 0) + 1
                key = "eval:" + ("ok" if "ok" in ref else ref["err"])
                counters[key] = counters.get(key, 0) + 1
                if m != ref:
                    corr.append({"kind": "evalPT-vs-cpython", "text": text, "env": {k: repr(v) for k, v in env.items()},
                                 "model": m, "cpython": ref})
            if "outside" not in b:
                m2 = b["runs"][j]
                if "unsupported" not in m2 and m2 != ref:
                    corr.append({"kind": "evalAst-vs-cpython", "text": text, "env": {k: repr(v) for k, v in env.items()},
                                 "model": m2, "cpython": ref})


def core_item(text: str, rng, n_env: int = 3, parser: str = "cpp") -> Optional[dict]:
    from harness.impl import pyfront as pf
    from fandango.language.parser.FandangoParser import FandangoParser as P
    want = cpython_expr(text)
    if want is None:
        return None
    try:
        with warnings.catch_warnings():
            warnings.simplefilter("ignore")
            code = compile(ast.Expression(body=want), "<core>", "eval")
        # the generator site: `production.expression()` is an ExpressionContext, and a production is ~10x
        # cheaper to parse than a top-level Python statement (no statement-level ambiguity)
        tree = pf.parse_tree("<x> ::= 'a' := " + text + "\n", parser)
    except Exception:  # noqa
        return {"rejected": True}
    prod = pf.first_ctx(tree, P.ProductionContext)
    e = prod.expression() if prod is not None else None
    if e is None:
        return {"rejected": True}
    try:
        real = pf.rebuilt_expression(e)[0]
    except Exception as ex:  # noqa
        return {"rejected": True, "exc": type(ex).__name__}
    return {"text": text, "g": pf.generic(e), "real": pf.ast_json(real), "real_node": real if isinstance(real, ast.AST) else None,
            "cpy": pf.ast_json(want), "envs": [pygen.core_env(rng) for _ in range(n_env)], "code": code}


EMBEDDED_PROBES = [
    ("constraint", "a >= z <= y"), ("constraint", "a == b in c"), ("constraint", "not a >= x"), ("constraint", "not not a >= x"),
    ("constraint", "not a < b < c"), ("constraint", "a and b if c else d"), ("constraint", "a if b else c or d"),
    ("constraint", "a if c else d >= 3"), ("constraint", "x < y if c else z"), ("constraint", "(a if c else d) >= 3"),
    ("constraint", "q and (a == b in c) or r"), ("constraint", "f(a < b < c)"), ("constraint", "not a in b"),
    ("constraint", "len(<a>) >= 1 <= 2"), ("constraint", "str(<a>) == 'x' if <b> else False"),
    ("constraint", "f(lambda: 0)"), ("generator", "lambda: <a>"), ("repetition", "a[b,]"), ("constraint", "[*a, b]"),
    ("generator", "f'{<a>} b'"), ("generator", "f'{{}}'"), ("constraint", "f'{a=}' == x"), ("generator", "a >= z <= y"),
    ("generator", "not a >= x"), ("generator", "a and b if c else d"), ("repetition", "1_0"), ("generator", "x + 1_0"),
]

CORE_CORPUS = [
    "a if b else c", "a if b else c if p else s", "a or b or c", "a and b and c or p and not q", "not not a",
    "1 < 2 < 3", "3 > 2 > 1", "a < b <= c != 7", "a in t not in v", "n is None is not False", "a <> b",
    "2 ** 3 ** 2", "-2 ** 2", "2 ** -1", "a ** -b", "(a ** b) ** c", "-a ** -b ** -c", "~a + -b - +c",
    "a - b - c", "a - (b - c)", "a / b / c", "a // b % c * 2 @ 3", "a << b >> c", "a | b ^ c & a", "a + b * c - (a + b) * c",
    "f(1, *t, k=2, **n)", "f(k=b, *t)", "f(*s, a, *t)", "f()", "f(a,)", "g(t)", "h(-a)", "f(j=1)(2)", "u(1/0)", "f(u, 1/0)",
    "t[0]", "t[-1]", "t[a:b]", "t[::2]", "t[::-1]", "t[a:b:c]", "t[1:2, ::3]", "s[1:]", "t[b,]", "t[0,]", "t[:,]", "l[a]",
    "a.real", "a.imag + p.numerator", "a.zz", "(1).real", "t[0].real",
    "(a, b)", "()", "[a, b, c]", "[]", "[a,]", "(a, b,)", "((a))", "(a if b else c, )[0] if p else None",
    "'ab' 'cd'" , "'a' + \"b\" * 3", "r'\\n' + '\\n'", "u'x' < 'y'", "...", "None or 0 or '' or ()", "1 and 'x' and [] and 2",
    "0x1F + 0o17 + 0b101", "a < b == c >= 1 is not None", "not a == b", "not a in t", "a if not b else not c",
    "await a", "a ** await b", "f(*u)", "f(**u)", "1 / 0 or u", "u or 1 / 0", "0 and u", "1 or u", "a < u < 1/0", "10 < a < u",
]


# ================================================================================================
# main
# ================================================================================================

def witness_replay() -> dict:
    """the Lean witness `C08_trailing_comma_subscript_witness` on the implementation:
    text `a[b,]` with a=(10,20), b=0"""
    r = tv_code("x = a[b,]\n", "python")
    out = {"tv": r}
    try:
        from harness.impl import pyfront as pf
        code_text = pf.cached_spec("x = a[b,]\n").code_text
        env: dict = {"a": (10, 20), "b": 0}
        try:
            exec(code_text, {}, env)
            out["fandango_runs"] = repr(env.get("x"))
        except Exception as e:  # noqa
            out["fandango_runs"] = type(e).__name__
        env2: dict = {"a": (10, 20), "b": 0}
        try:
            exec("x = a[b,]\n", {}, env2)
            out["cpython_runs"] = repr(env2.get("x"))
        except Exception as e:  # noqa
            out["cpython_runs"] = type(e).__name__
    except Exception as e:  # noqa
        out["error"] = type(e).__name__
    return out


def load_known(run: Run) -> None:
    """findings proposed by this builder but not yet decided by the lead are treated exactly like
    `known_findings.json` entries; `fixed` entries suppress nothing"""
    if PROPOSED.exists():
        for k in json.loads(PROPOSED.read_text()):
            if k.get("property") == PID and k.get("status") == "open" and \
                    not any(x.get("signature") == k.get("signature") for x in run.known):
                run.known.append(k)


class Failures:
    """first example per signature is shrunk and reported; the rest is counted"""

    def __init__(self, run: Run):
        self.run = run
        self.by_sig: dict[str, dict] = {}
        self.count: dict[str, int] = {}

    def add(self, site: str, d: tuple[str, str, str], replay: dict, shrinker: Optional[Callable[[str], str]] = None) -> None:
        sig = f"C08/{site}:{d[0]}"
        self.count[sig] = self.count.get(sig, 0) + 1
        if sig in self.by_sig:
            return
        if shrinker is not None and not any(k.get("signature") == sig for k in self.run.known):
            try:
                small = shrinker(d[0])
                if small:
                    replay = dict(replay)
                    replay["original"] = replay.get("text")
                    replay["text"] = small
            except Exception:  # noqa
                pass
        self.by_sig[sig] = {"d": d, "replay": replay}

    def report(self) -> None:
        for sig, e in sorted(self.by_sig.items()):
            d, rp = e["d"], e["replay"]
            what = (f"[{rp.get('kind')} site] Fandango accepts {rp.get('text', '')[:200]!r} but what it will run differs "
                    f"from CPython's reading: want {d[1]}, got {d[2]} [{self.count[sig]} case(s) with this signature]")
            self.run.report(sig, what, rp)


def sigs_of_code(text: str, parser: str) -> list[str]:
    r = tv_code(text, parser)
    return [d[0] for d in r.get("diffs", [])] if r["status"] == "altered" else []


def sigs_of_embedded(site: str, fan_expr: str, parser: str, variant: int) -> list[str]:
    """re-derive markers from a plain spec expression: selectors become holes again"""
    marked, holes = mark_selectors(fan_expr)
    r = tv_embedded(site, marked, holes, parser, variant)
    return [d[0] for d in r.get("diffs", [])] if r["status"] == "altered" else []


SELECTOR = re.compile(r"\*?<\w+>(?:\s*\.\.?\s*<\w+>|\[\d+\])*")


def mark_selectors(fan_expr: str) -> tuple[str, list[str]]:
    holes: list[str] = []

    def sub(m: re.Match) -> str:
        holes.append(m.group(0))
        return f"\x00{len(holes) - 1}\x01"
    return SELECTOR.sub(sub, fan_expr), holes


def replay(path: str) -> int:
    use_repo()
    rp = json.load(open(path))
    kind = rp.get("kind")
    parser = rp.get("parser", "python")
    bad = False
    if kind == "code":
        r = tv_code(rp["text"], parser)
        print("text:", repr(rp["text"]))
        print("result:", json.dumps(r, indent=1, default=str))
        bad = r["status"] == "altered"
    elif kind in ("constraint", "generator", "repetition"):
        marked, holes = mark_selectors(rp["text"])
        r = tv_embedded(kind, marked, holes, parser, rp.get("variant", 0))
        print("expression:", repr(rp["text"]))
        print("result:", json.dumps(r, indent=1, default=str))
        bad = r["status"] == "altered"
    elif kind == "formula":
        marked, holes = mark_selectors(rp["text"])
        r = tv_embedded("constraint", marked, holes, parser, 0)
        print("formula:", repr(rp["text"]))
        print("result:", json.dumps(r, indent=1, default=str))
        bad = r["status"] == "altered"
    elif kind == "core":
        import random
        it = core_item(rp["text"], random.Random(0))
        corr: list = []
        if it and "g" in it:
            class _R:  # minimal stand-in
                def case(self, *a, **k): pass
            core_batch(_R(), [it], corr, {})  # type: ignore
        print(json.dumps(corr, indent=1, default=str)[:3000])
        bad = bool(corr)
    else:
        print("replay file names broken obligations / correspondence only:", json.dumps(rp, indent=1)[:2000])
        return 1
    print("replay:", "property violated" if bad else "no violation on the current tree")
    return 1 if bad else 0


def main(tier: str) -> int:
    run = Run(PID, tier, "translation_validation")
    load_known(run)
    use_repo()
    from harness.impl import pyfront as pf  # noqa: F401
    gen = translate_pyexpr.regenerate()
    lean = lean_check("Props.C08", ["drv_pyexpr"])
    for r in gen["refusals"]:
        lean.broken.append({"module": "Generated.PyExpr", "reason": "translator refused: " + r})
    quick = tier == "quick"
    fails = Failures(run)
    stats: dict[str, int] = {}
    counters: dict[str, int] = {}
    corr: list = []

    # ---------------------------------------------------------------- (2) Lean tie
    rng = run.rng("core")
    n_core = 500 if quick else 4000
    batch: list = []
    texts = list(CORE_CORPUS) + [pygen.core_expr(rng, rng.choice([2, 3, 3, 4])) for _ in range(n_core)]
    seen = set()
    if lean.ok or not lean.broken or True:
        drv_ok = (lean.build_log is not None) and not any(b.get("reason") == "lake build failed" for b in lean.broken)
    for t in texts:
        if t in seen:
            continue
        seen.add(t)
        it = core_item(t, rng, parser="python" if len(seen) % 40 == 0 else "cpp")
        if it is None:
            counters["core_not_python"] = counters.get("core_not_python", 0) + 1
            continue
        if it.get("rejected"):
            counters["core_rejected_by_fandango"] = counters.get("core_rejected_by_fandango", 0) + 1
            continue
        batch.append(it)
        if len(batch) >= 400:
            if drv_ok:
                core_batch(run, batch, corr, counters)
            batch = []
    if batch and drv_ok:
        core_batch(run, batch, corr, counters)
    run.coverage["traces_validated_against_impl"] = counters.get("in_fragment", 0)
    run.coverage["core_counters"] = dict(sorted(counters.items()))

    # ---------------------------------------------------------------- (3a) the Lean witness on the implementation
    wit = witness_replay()
    run.coverage["witness_replay(a[b,])"] = wit
    if wit["tv"]["status"] == "altered":
        fails.add("code", (wit["tv"]["sig"], wit["tv"]["want"], wit["tv"]["got"]),
                  {"kind": "code", "text": "x = a[b,]\n", "parser": "python",
                   "lean_witness": "C08_trailing_comma_subscript_witness", "runs": wit})

    # ---------------------------------------------------------------- (3b) corpus
    files = harvest_files()
    t_corpus = time.time()
    from fandango.language.stdlib import stdlib
    sources = [("<stdlib>", stdlib)]
    for p in files:
        try:
            txt = open(p, encoding="utf-8").read()
        except Exception:  # noqa
            continue
        if len(txt) > (20_000 if quick else 100_000):
            stats["files_skipped_large"] = stats.get("files_skipped_large", 0) + 1
            continue
        sources.append((p, txt))
    for p, txt in sources:
        def fail(site, d, rp):
            fails.add(site, d, rp)
        corpus_file(run, p, txt, "cpp" if quick else "python", stats, fail)
        if time.time() - t_corpus > (40 if quick else 330):     # wall-clock budget: fewer cases under load, never an alarm
            stats["corpus_cut_short_at"] = sources.index((p, txt))
            break
    run.coverage["corpus"] = dict(sorted(stats.items()))

    # ---------------------------------------------------------------- (3b') one probe per admitted construct
    pstat: dict[str, int] = {}
    probe_status: dict[str, str] = {}
    for k, src in enumerate(pyprobes.PROBES):
        src = src + "\n"
        for nested in (False, True):
            text = ("if 1:\n" + "".join("    " + ln + "\n" for ln in src.splitlines())) if nested else src
            parser = "python" if (k % 12 == 0 and nested) else "cpp"
            r = tv_code(text, parser)
            st = r["status"] + (":" + r["exc"] if "exc" in r else "") + (":" + r["sig"] if "sig" in r else "")
            pstat[r["status"]] = pstat.get(r["status"], 0) + 1
            probe_status[("block: " if nested else "top: ") + src.strip()[:60]] = st
            if r["status"] != "notpython":
                run.case(["probe", text], True, None)
            for d in r.get("diffs", []):
                fails.add("code", d, {"kind": "code", "text": text, "parser": parser})
    run.coverage["probes_by_status"] = dict(sorted(pstat.items()))
    run.coverage["probes"] = probe_status

    # ---------------------------------------------------------------- (3c) generated programs, site A
    rng = run.rng("programs")
    n_prog = 360 if quick else 4000
    status: dict[str, int] = {}
    feats: dict[str, int] = {}
    feats_ok: dict[str, int] = {}
    t_gen = time.time()
    for i in range(n_prog):
        pr = pygen.Prog(rng, max_depth=rng.choice([1, 1, 2, 2, 3]))
        text = pr.program(rng.choice([1, 1, 1, 2]))
        if i % 10 >= 3:
            # inside a block the statements are `stmt`s (simple_stmts / compound_stmt); at top level they are
            # `python` statements of the spec, which are ~10x more expensive to parse
            text = "if 1:\n" + "".join("    " + ln + "\n" for ln in text.splitlines())
        parser = "python" if i % 25 == 0 else "cpp"
        r = tv_code(text, parser)
        st = r["status"] + (":" + r["exc"] if "exc" in r else "")
        status[st] = status.get(st, 0) + 1
        if r["status"] == "notpython":
            continue
        run.case(["prog", text], len(text) > 12, {"site": "code", "text": text[:200], "status": st} if i < 3 else None)
        for k in pr.feat:
            feats[k] = feats.get(k, 0) + 1
            if r["status"] == "ok":
                feats_ok[k] = feats_ok.get(k, 0) + 1
        for d in r.get("diffs", []):
            fails.add("code", d, {"kind": "code", "text": text, "parser": parser},
                      shrinker=lambda s, text=text, parser=parser: shrink(text, lambda t: s in sigs_of_code(t, parser),
                                                                          3.0 if quick else 10.0))
        if time.time() - t_gen > (45 if quick else 400):
            status["cut_short_at"] = i
            break
    run.coverage["programs_by_status"] = dict(sorted(status.items()))
    run.coverage["features_generated"] = dict(sorted(feats.items()))
    run.coverage["features_in_accepted_and_equal_programs"] = dict(sorted(feats_ok.items()))

    # ---------------------------------------------------------------- (3d) sites B–D
    rng = run.rng("embedded")
    n_emb = 330 if quick else 4000
    estatus: dict[str, int] = {}
    # fixed probes first: one relative of every finding of the build round at the sites it was found at
    for site, expr in EMBEDDED_PROBES:
        for parser in ("cpp", "python"):
            r = tv_embedded(site, *mark_selectors(expr), parser, 0)
            st = site + ":" + r["status"] + (":" + r["exc"] if "exc" in r else "")
            estatus["probe:" + st] = estatus.get("probe:" + st, 0) + 1
            if r["status"] != "notpython":
                run.case([site, expr, 0, parser], True, None)
            for d in r.get("diffs", []):
                fails.add(site, d, {"kind": site, "text": expr, "parser": parser, "variant": 0, "spec": r.get("text")})
    t_emb = time.time()
    for i in range(n_emb):
        site = ("constraint", "generator", "repetition")[i % 3]
        hp = HoleProg(rng, max_depth=rng.choice([1, 1, 2, 2, 3]))
        if site == "repetition" and rng.random() < 0.5:
            marked = rng.choice([str(rng.randint(1, 9)), "0x3", "2 + 1", "len('ab')", "\x000\x01"])
            hp.hole_texts = ["<a>"]
        else:
            marked = hp.expr()
        variant = rng.randrange(5)
        parser = "python" if i % 25 == 0 else "cpp"
        r = tv_embedded(site, marked, hp.hole_texts, parser, variant)
        st = site + ":" + r["status"] + (":" + r["exc"] if "exc" in r else "")
        estatus[st] = estatus.get(st, 0) + 1
        if r["status"] == "notpython":
            continue
        fan, _ = render(marked, hp.hole_texts)
        run.case([site, fan, variant], len(fan) > 6, {"site": site, "expr": fan[:160], "status": st} if i < 6 else None)
        for d in r.get("diffs", []):
            fails.add(site, d,
                      {"kind": site, "text": fan, "parser": parser, "variant": variant, "spec": r.get("text")},
                      shrinker=lambda s, fan=fan, site=site, parser=parser, variant=variant:
                      shrink(fan, lambda t: s in sigs_of_embedded(site, t.strip(), parser, variant), 3.0 if quick else 10.0,
                             mode="eval") if "<" not in fan else None)
        if time.time() - t_emb > (32 if quick else 330):
            estatus["cut_short_at"] = i
            break
    run.coverage["embedded_by_status"] = dict(sorted(estatus.items()))

    # ---------------------------------------------------------------- verdict
    fails.report()
    run.coverage["programs"] = sum(v for k, v in status.items() if not k.startswith(("notpython", "cut"))) + \
        sum(v for k, v in estatus.items() if "notpython" not in k and not k.startswith("cut")) + \
        stats.get("py_fragments", 0) + stats.get("formulas", 0)
    run.coverage["disagreements_checked"] = sum(fails.count.values())
    run.coverage["disagreement_signatures"] = dict(sorted(fails.count.items()))
    run.coverage["correspondence_disagreements"] = len(corr)
    run.coverage["correspondence_samples"] = corr[:5]
    if (not lean.ok or corr) and not run.violations:
        what = []
        if not lean.ok:
            what.append("proof obligations of Props/C08.lean no longer check: " + json.dumps(lean.broken)[:700])
        if corr:
            what.append(f"Lean model / implementation / CPython correspondence broken on {len(corr)} cases, e.g. "
                        + json.dumps(corr[0], default=str)[:500])
        rp: dict = {"broken_obligations": lean.broken, "correspondence": corr[:20]}
        if corr:
            rp.update({"kind": "core", "text": corr[0]["text"]})
        run.report("C08/unproved", "; ".join(what), rp, no_input=True)
    return run.finish(
        lean,
        rule="(Lean tie) expressions generated by walking the levels of FandangoParser.g4, depth<=4, with 3 "
             "environments each; (TV) harvested: every top-level Python statement and every quantifier-free formula of "
             "every .fan file under /repo + stdlib; generated: programs over the admitted subset at the 4 embedding "
             "sites; non-trivial = longer than a bare atom; distinct by text",
        explanation="translation validation against CPython's parser for all of the embedded Python; machine-checked "
                    "proof (Props/C08.lean) only for the expression core, see level_note",
        trusted_base=TRUSTED)
