"""C09 — a tree's value is the in-order concatenation of its leaves.

1. obligations: Props/C09.lean (regenerated constants, lake build, axiom audit)
2. correspondence: real DerivationTree/TreeValue vs the Lean model (drv_value) on generated leaf
   sequences x nestings x observer histories
3. property observation on the real code, independent of the model: bit view = concatenation of the
   leaves' bits, bytes = bits in groups of eight, str of a binary tree = latin-1 of its bytes, same
   leaves => same views whatever the nesting, observers do not change the tree or later results
"""
from __future__ import annotations

import itertools
import json
from typing import Any, Optional

from harness import translate
from harness.common import Run, driver_ask, lean_check, use_repo

PID = "C09"
OBS = ["str", "bytes", "bits", "int", "type"]

TRUSTED = [
    "Lean 4.33.0 kernel; axioms ⊆ {propext, Classical.choice, Quot.sound} (audited per run)",
    "hand-written model lean/Model/Value.lean + Model/Tree.lean of tree_value.py / tree.py value(); "
    "tied by this run's correspondence (generator-bounded)",
    "translator harness/translate.py (flush encodings, shape of DerivationTree.value) -> Generated/Constants.lean",
    "CPython str.encode/bytes.decode for utf-8 and latin-1 (modelled by hand in Model/Value.lean, compared per run)",
    "int(): modelled for ASCII text only; other inputs are skipped in the comparison (counted)",
]


# ------------------------------------------------------------------------------------------------
# generators
# ------------------------------------------------------------------------------------------------

TEXT_POOL = ["a", "0", "7", "-1", " 42 ", "t", "é", "ÿ", "€", "😀", "", "ab", "x\n", "1_0", "\ud800", "ß", "\x00", "\x7f", "\x80",
             "\x1c", "\x1f5", "+3", "\t6\r", "0x1", "1__0", "_1", "1_"]
BYTE_POOL = [b"a", b"\x00", b"\xff", b"\x80", b"", b"12", b"\xc3\xa9", b"A", b" 5", b"\xe9", b"\x1e", b"3", b"-", b"\x0b4"]


def gen_leaves(rng) -> list[Any]:
    """a leaf sequence: str | bytes | int(0/1).  Bit runs are biased to complete bytes so that most
    sequences are convertible; a separate share is deliberately misaligned."""
    n = rng.choice([0, 1, 1, 2, 2, 3, 3, 4, 5, 6, 8])
    out: list[Any] = []
    style = rng.random()
    for _ in range(n):
        r = rng.random()
        if style < 0.25:          # text only
            out.append(rng.choice(TEXT_POOL))
        elif r < 0.35:
            out.append(rng.choice(TEXT_POOL))
        elif r < 0.6:
            out.append(rng.choice(BYTE_POOL))
        else:
            if rng.random() < 0.8:
                k = rng.choice([8, 8, 8, 16])
            else:
                k = rng.randint(1, 12)
            out.extend(rng.randint(0, 1) for _ in range(k))
    return out


def gen_nesting(rng, leaves: list[Any], depth: int = 0) -> list:
    """a random nesting of the same leaf sequence: nested python lists; [] = empty nonterminal"""
    if depth > 3 or (len(leaves) <= 1 and rng.random() < 0.6):
        return list(leaves)
    out: list = []
    i = 0
    while i < len(leaves):
        r = rng.random()
        if r < 0.5:
            out.append(leaves[i])
            i += 1
        elif r < 0.9:
            j = rng.randint(i + 1, len(leaves))
            out.append(gen_nesting(rng, leaves[i:j], depth + 1))
            i = j
        else:
            out.append([])          # an empty nonterminal in between
    if rng.random() < 0.1:
        out.append([])
    return out


def flat_of(nest: list) -> list:
    out = []
    for x in nest:
        if isinstance(x, list):
            out.extend(flat_of(x))
        else:
            out.append(x)
    return out


# ------------------------------------------------------------------------------------------------
# implementation side
# ------------------------------------------------------------------------------------------------

def build_real(nest: list, name: str = "<n>"):
    from fandango.language.tree import DerivationTree
    from fandango.language.symbols import NonTerminal, Terminal
    kids = []
    for x in nest:
        if isinstance(x, list):
            kids.append(build_real(x, "<m>"))
        else:
            kids.append(DerivationTree(Terminal(x)))
    return DerivationTree(NonTerminal(name), kids)


def snapshot(tree) -> Any:
    """deep structural snapshot incl. the shared terminals' TreeValue internals (mutation detector)"""
    sym = tree.symbol
    v = sym._value
    return (type(sym).__name__, repr(v._value), tuple(v._trailing_bits), tree.sender, tree.recipient,
            tuple(snapshot(c) for c in tree._children), id(tree._children))


def err_class(e: Exception) -> dict:
    n = type(e).__name__
    m = {"FandangoConversionError": "conv", "FandangoValueError": "value", "ValueError": "pyValue"}
    return {"err": m.get(n, "other:" + n)}


def observe(tree, o: str) -> dict:
    try:
        if o == "str":
            return {"ok": [ord(c) for c in str(tree)]}
        if o == "bytes":
            return {"ok": list(bytes(tree))}
        if o == "bits":
            return {"ok": tree.to_bits()}
        if o == "int":
            return {"ok": str(int(tree))}
        if o == "type":
            return {"ok": tree.value().type_.value}
    except Exception as e:  # noqa
        return err_class(e)
    raise AssertionError(o)


def enc_nest(nest: list, name: str = "<n>") -> list:
    kids = []
    for x in nest:
        if isinstance(x, list):
            kids.append(enc_nest(x, "<m>"))
        elif isinstance(x, str):
            kids.append(["t", [ord(c) for c in x]])
        elif isinstance(x, bytes):
            kids.append(["b", list(x)])
        else:
            kids.append(["i", int(x)])
    return ["n", name, None, None, kids]


def show(nest: list) -> Any:
    return [show(x) if isinstance(x, list) else (x if isinstance(x, (str, int)) else "b:" + x.hex()) for x in nest]


def unshow(x: Any) -> Any:
    if isinstance(x, list):
        return [unshow(y) for y in x]
    if isinstance(x, str) and x.startswith("b:"):
        return bytes.fromhex(x[2:])
    return x


# ------------------------------------------------------------------------------------------------
# the property, observed on the real code (independent of the model)
# ------------------------------------------------------------------------------------------------

def leaf_bits(x: Any) -> Optional[str]:
    if isinstance(x, int):
        return str(x)
    if isinstance(x, bytes):
        return "".join(f"{b:08b}" for b in x)
    try:
        return "".join(f"{b:08b}" for b in x.encode("utf-8"))
    except UnicodeEncodeError:
        return None


def aligned(leaves: list) -> bool:
    """positions where bytes are needed are byte-aligned"""
    pending = 0
    for x in leaves:
        if isinstance(x, int):
            pending += 1
        else:
            if pending % 8:
                return False
            pending = 0
    return True


def property_violations(nest: list, res: dict[str, dict]) -> list[str]:
    """res: observer -> canonical result of a *fresh* tree per observer"""
    leaves = flat_of(nest)
    out = []
    lb = [leaf_bits(x) for x in leaves]
    encodable = all(b is not None for b in lb)
    contains_binary = any(not isinstance(x, str) for x in leaves)
    if encodable and aligned(leaves):
        want = "".join(lb)
        if res["bits"].get("ok") != want:
            out.append(f"bits view {res['bits']} is not the concatenation of the leaves' bits {want!r}")
        if len(want) % 8 == 0:
            wb = [int(want[i:i + 8], 2) for i in range(0, len(want), 8)]
            if contains_binary and res["bytes"].get("ok") != wb:
                out.append(f"bytes view {res['bytes']} is not the leaves' bits in groups of eight {wb}")
            if not contains_binary and res["bytes"].get("ok") != wb:
                out.append(f"bytes view {res['bytes']} is not the utf-8 encoding of the text {wb}")
            if contains_binary and res["str"].get("ok") != wb:
                out.append(f"str view {res['str']} is not the latin-1 decoding of the bytes {wb}")
    if not contains_binary and leaves:
        want_s = [ord(c) for x in leaves for c in x]
        if res["str"].get("ok") != want_s:
            out.append(f"str view {res['str']} of a text-only tree is not the concatenated text")
    if "ok" in res["bytes"] and "ok" in res["bits"]:
        got = "".join(f"{b:08b}" for b in res["bytes"]["ok"])
        if got != res["bits"]["ok"]:
            out.append("bytes are not the bits in groups of eight")
    if not aligned(leaves) and "ok" in res["bytes"]:
        out.append("bytes produced although a byte is needed at a position that is not byte-aligned")
    return out


# ------------------------------------------------------------------------------------------------

def node_at(tree, path: list[int]):
    for i in path:
        tree = tree.children[i]
    return tree


def inner_paths(nest: list, prefix: tuple = ()) -> list[list[int]]:
    """paths of all inner (nonterminal) nodes, the root first"""
    out = [list(prefix)]
    for i, x in enumerate(nest):
        if isinstance(x, list):
            out.extend(inner_paths(x, prefix + (i,)))
    return out


def run_case(run: Run, nest: list, history: list, pending: list) -> None:
    """evaluate one (nesting, observer history) on the real code; queue the model request.
    history entries are observer names (applied to the root) or [path, observer] (applied to the inner
    node at that path of the SAME tree object): asking a subtree, then the enclosing tree, then the
    subtree again must give what fresh trees give."""
    tree = build_real(nest)
    before = snapshot(tree)
    hist = [(h if isinstance(h, list) else [[], h]) for h in history]
    hist_res = [observe(node_at(tree, p), o) for p, o in hist]          # same object, in this order
    after = snapshot(tree)
    fresh = {o: observe(build_real(nest), o) for o in OBS}  # one fresh tree per observer
    fresh_at = [observe(node_at(build_real(nest), p), o) for p, o in hist]
    pending.append({"nest": nest, "history": hist, "hist_res": hist_res, "fresh": fresh, "fresh_at": fresh_at,
                    "mutated": before != after})


def check_cases(run: Run, pending: list, corr_failures: list) -> None:
    reqs = [{"op": "obs", "tree": enc_nest(c["nest"]), "obs": OBS} for c in pending]
    answers = driver_ask("drv_value", reqs)
    by_leaves: dict[str, tuple] = {}
    for c, a in zip(pending, answers):
        nest, fresh = c["nest"], c["fresh"]
        leaves = flat_of(nest)
        model = dict(zip(OBS, a["res"]))
        kinds = {("t" if isinstance(x, str) else "b" if isinstance(x, bytes) else "i") for x in leaves}
        nontrivial = len(leaves) >= 2 and len(kinds) >= 2
        run.case(show(nest), nontrivial, {"leaves": show(nest), "history": c["history"],
                                          "impl": {k: v for k, v in fresh.items()}})
        run.count("leafkinds:" + "".join(sorted(kinds)))
        run.count("aligned" if aligned(leaves) else "misaligned")
        for o in OBS:
            run.count(f"{o}:{'ok' if 'ok' in fresh[o] else fresh[o]['err']}")
        # (2) correspondence
        for o in OBS:
            if "unknown" in model[o]:
                run.count("int_not_modelled")
                continue
            if model[o] != fresh[o]:
                corr_failures.append({"nest": show(nest), "observer": o, "impl": fresh[o], "model": model[o]})
        # (3a) property relations on the real outputs
        for msg in property_violations(nest, fresh):
            run.report("C09/view-mismatch", msg, {"kind": "views", "nest": show(nest)})
        # (3b) history independence and purity
        for (pth, o), r, fr in zip(c["history"], c["hist_res"], c["fresh_at"]):
            if r != fr:
                run.report("C09/history-dependence",
                           f"{o}() of the node at {pth} after {c['history']} gives {r}, a fresh tree gives {fr}",
                           {"kind": "history", "nest": show(nest), "history": c["history"]})
        if c["mutated"]:
            run.report("C09/observer-mutates-tree", "an observer changed the tree or a terminal's shared value",
                       {"kind": "history", "nest": show(nest), "history": c["history"]})
        # (3c) nesting independence: same leaves => same views
        key = json.dumps(show(leaves))
        if key in by_leaves:
            other_nest, other = by_leaves[key]
            if other != fresh and len(leaves) > 0:
                # an inner node with no leaf below vs. one with: both sides are inner nodes here
                run.report("C09/nesting-dependence",
                           f"same leaves, different views: {show(other_nest)} -> {other} but {show(nest)} -> {fresh}",
                           {"kind": "nesting", "nest": show(nest), "other": show(other_nest)})
        else:
            by_leaves[key] = (nest, fresh)


def replay(path: str) -> int:
    use_repo()
    rp = json.load(open(path))
    nest = unshow(rp.get("nest", []))
    fresh = {o: observe(build_real(nest), o) for o in OBS}
    print("views:", fresh)
    bad = property_violations(nest, fresh)
    if rp.get("kind") == "nesting":
        other = unshow(rp["other"])
        fo = {o: observe(build_real(other), o) for o in OBS}
        if fo != fresh:
            bad.append(f"nesting dependence: {fo} vs {fresh}")
    if rp.get("kind") == "history":
        t = build_real(nest)
        b = snapshot(t)
        hist = [(h if isinstance(h, list) else [[], h]) for h in rp["history"]]
        hr = [observe(node_at(t, p), o) for p, o in hist]
        if b != snapshot(t):
            bad.append("tree mutated")
        for (p, o), r in zip(hist, hr):
            if r != observe(node_at(build_real(nest), p), o):
                bad.append(f"history dependence at {o} of node {p}")
    for b in bad:
        print("FAILS:", b)
    print("replay:", "property violated" if bad else "no violation on the current tree")
    return 1 if bad else 0


def main(tier: str) -> int:
    run = Run(PID, tier, "proof")
    use_repo()
    gen = translate.regenerate()
    lean = lean_check("Props.C09", ["drv_value"])
    for r in gen["refusals"]:
        lean.broken.append({"module": "Generated.Constants", "reason": "translator refused: " + r})
    rng = run.rng("cases")
    n_cases = 2500 if tier == "quick" else 40000
    corr_failures: list = []
    pending: list = []

    def flush():
        if pending:
            check_cases(run, pending, corr_failures)
            pending.clear()

    # corpus: minimised past disagreements and the cases the design documents
    corpus = [
        ["é", 0, 1, 0, 0, 0, 0, 0, 1],
        ["é", 0, 1, 0, 0, 0, 0, 0, 1, "z"],
        ["€", 0, 1, 0, 0, 0, 0, 0, 1],
        [0, 1, 0, [0, 0, 0, 0, 1, "t"]],
        [0, 1, 0, 0, 0, 0, 0, 1, "t"],
        [[0, 1, 0, 0], [0, 0, 0, 1], b"\xff"],
        [b"\xff", "é"], ["é", b"\xff"], [[], "a", [[]], b"b"], [1, 0, 1], ["12"], [b"12"], [" 7 "],
        [0, 0, 1, 1, 0, 0, 0, 1], ["\ud800", b"a"], ["\ud800", "a"],
        [0, 0, 0, 1, 1, 1, 1, 0, " 42 ", b""], ["\x1c7"], ["\x1f7\x1f"], [b"\x1d8"], ["7\x0b"], [b"\x0c9 "],
    ]
    for nest in corpus:
        for hist in (["str", "bytes", "bits", "int"], ["bytes", "str"], ["int", "bits", "str", "bytes", "str"]):
            run_case(run, nest, hist, pending)
    flush()
    for i in range(n_cases):
        leaves = gen_leaves(rng)
        nests = [list(leaves)] + [gen_nesting(rng, leaves) for _ in range(2)]
        for nest in nests:
            paths = inner_paths(nest)
            hist = [[rng.choice(paths) if rng.random() < 0.5 else [], rng.choice(OBS)]
                    for _ in range(rng.randint(1, 7))]
            run_case(run, nest, hist, pending)
        if len(pending) >= 3000:
            flush()
    flush()
    # exhaustive in every tier: all sequences of <= 3 units over text (ASCII, 2-byte, 3-byte UTF-8), empty
    # text / bytes, a byte >= 0x80, one bit, a whole byte of bits — flat, and with the tail in a subtree that is
    # asked first, then the whole tree, then the subtree again
    units = [["a"], ["é"], ["€"], [""], [b""], [b"\xff"], [1], [0, 1, 0, 0, 0, 0, 0, 1]]
    for n in range(0, 4):
        for combo in itertools.product(units, repeat=n):
            seq = [x for u in combo for x in u]
            run_case(run, seq, ["str", "bytes", "bits", "int", "type"], pending)
            if n >= 2:
                head, tail = list(combo[0]), [x for u in combo[1:] for x in u]
                nest = [tail, *head] if n == 2 else [*head, tail]
                sub = [0] if n == 2 else [len(head)]
                run_case(run, nest, [[sub, "int"], [sub, "bits"], [[], "str"], [[], "bytes"], [sub, "int"],
                                     [sub, "type"], [[], "bits"], [sub, "bits"]], pending)
    flush()
    run.coverage["exhaustive_units"] = "all sequences of <= 3 units over 8 leaf units, flat and with a subtree history"
    if tier == "thorough":
        # exhaustive: every sequence of <= 4 leaves over a small alphabet, flat and two fixed nestings
        alpha = ["a", "é", b"\xff", 0, 1]
        for n in range(0, 5):
            for seq in itertools.product(alpha, repeat=n):
                seq = list(seq)
                for nest in (seq, [seq[:1], seq[1:]] if n else [[]], [seq[:n // 2], [seq[n // 2:]]]):
                    run_case(run, nest, ["str", "bytes", "bits"], pending)
        flush()
        run.coverage["exhaustive_small"] = "all leaf sequences of length <= 4 over {'a','é',b'\\xff',0,1} x 3 nestings"

    # ---- verdict on broken obligations / correspondence
    run.coverage["traces_validated_against_impl"] = run.evaluations
    run.coverage["correspondence_disagreements"] = len(corr_failures)
    run.coverage["disagreement_samples"] = corr_failures[:5]
    run.coverage["generated_constants"] = gen["constants"]
    if (not lean.ok or corr_failures) and not run.violations and not run.known_hits:
        what = []
        if not lean.ok:
            what.append("proof obligations of Props/C09.lean no longer check: " + json.dumps(lean.broken)[:600])
        if corr_failures:
            what.append(f"model/implementation correspondence broken on {len(corr_failures)} cases, e.g. "
                        + json.dumps(corr_failures[0])[:400])
        run.report("C09/unproved", "; ".join(what),
                   {"broken_obligations": lean.broken, "correspondence": corr_failures[:20]}, no_input=True)
    return run.finish(
        lean,
        rule="leaf sequences (text incl. non-ASCII / >U+00FF / lone surrogate, bytes incl. >=0x80, bits in runs biased "
             "to whole bytes, empty leaves) x 3 nestings x random observer histories on one object; a case is "
             "non-trivial when it has >=2 leaves of >=2 kinds; distinct by (nesting)",
        trusted_base=TRUSTED)
