"""C10 — tree bookkeeping stays consistent under any edits; edits never alias.

1. obligations: Props/C10.lean (lake build, axiom audit) + the arena driver drv_arena
2. correspondence: random op histories (<= 40 ops) over a pool of live handles, applied to real
   DerivationTree objects and replayed by the Lean arena model; canonical result + passive state of every
   handle compared after every op (disciplined AND wild histories)
3. property observation on the real code, independent of the model, after every op of a disciplined
   history: size() == recount, hash_cache/hash() == hash of a fresh rebuild, == agrees with structural
   equality, every listed child's parent is the lister; deep identity snapshots around accessors /
   copies / replace (aliasing); selector searches (ItemSearch, RuleSearch, AttributeSearch, …) under
   snapshot
4. search runs: real Fandango(...).fuzz(...) with bounded generations, every emitted solution snapshotted
   in solution_callback and compared after the run; crossover / mutation operators wrapped (and called
   directly) with snapshots of their inputs and of the population
"""
from __future__ import annotations

import json
import signal
import logging
import random
from pathlib import Path
from typing import Any, Optional

from harness.common import VERIF, Run, driver_ask, lean_check, use_repo
from harness.gen import arena_hist as GH
from harness.impl import arena_real as AR

PID = "C10"
CORPUS = VERIF / "corpus" / "C10"

TRUSTED = [
    "Lean 4.33.0 kernel; axioms ⊆ {propext, Classical.choice, Quot.sound} (audited per run)",
    "hand-written arena model lean/Model/Arena.lean + ArenaOps.lean + ArenaStep.lean of language/tree.py "
    "(generator-free: no sources / generators; origin_repetitions not modelled); tied by this run's "
    "op-history correspondence (generator-bounded)",
    "CPython hash(): modelled as an abstract combiner Hc; C10_eq_iff assumes Hc injective (no 64-bit collision)",
    "the ownership discipline Op.okS (children handed to a node are detached roots or own children; views are "
    "not edited / copied / attached) is mirrored by harness/impl/arena_real.disciplined; Inv preservation is a "
    "theorem for EVERY operation under it (C10_inv_step, C10_inv_reachable, incl. split_end / prefix / upward "
    "deepcopy); evaluating the verified checker invB (C10_invB_sound) on the model state after every op of every "
    "disciplined history is a per-run cross-check that the mirror of the discipline is right",
    "evolution/{crossover,mutation}.py, algorithm.py are not modelled: observed by snapshots only",
]

FRAME_STRICT = {"getItem", "getSlice", "size", "parent", "getPath", "flatten", "findAll", "findDirect",
                "choicesPath", "value", "deepcopy"}
COPYING = {"deepcopy", "replace"}


# ------------------------------------------------------------------------------------------------
# (3) the property on real objects
# ------------------------------------------------------------------------------------------------

def owned_nodes(roots: list) -> list:
    return [n for n in AR.reachable(roots) if not AR.is_view(n)]


def fresh_hashes(root) -> dict[int, int]:
    """hash of every node below `root` recomputed on a fresh rebuild (id(node) -> hash)"""
    out: dict[int, int] = {}
    twin = AR.rebuild(root)
    hash(twin)

    def go(a, b, d=0):
        out[id(a)] = hash(b)
        if d < 200:
            for x, y in zip(a._children, b._children):
                go(x, y, d + 1)
    go(root, twin)
    return out


def bookkeeping_violations(roots: list) -> list[tuple[str, str]]:
    """size / hash cache / parent links of every non-view node reachable from `roots`"""
    out: list[tuple[str, str]] = []
    nodes = owned_nodes(roots)
    listed = {id(c) for n in nodes for c in n._children}
    fresh: dict[int, int] = {}
    for n in nodes:
        if id(n) not in listed:
            fresh.update(fresh_hashes(n))
    for n in nodes:
        want = AR.recount(n)
        if n.size() != want:
            out.append(("C10/stale-size", f"size() = {n.size()} but the node has {want} nodes: {AR.tree_json(n)}"))
        if n.hash_cache is not None and id(n) in fresh and n.hash_cache != fresh[id(n)]:
            out.append(("C10/stale-hash", f"cached hash differs from the hash of an identical fresh tree: {AR.tree_json(n)}"))
        for c in n._children:
            if c._parent is not n:
                out.append(("C10/parent-link", f"child {AR.sym_json(c.symbol)} of {AR.sym_json(n.symbol)} has another parent"))
    return out


def eq_signature(a, b) -> str:
    ja, jb = json.dumps(AR.tree_json(a)), json.dumps(AR.tree_json(b))
    if ja.replace('"b"', '"t"') == jb.replace('"b"', '"t"') and ja != jb:
        return "C10/str-bytes-twin"
    return "C10/eq-vs-structure"


def search_bundle(rng, tree) -> None:
    """selector searches and value conversions: all read-only by the property"""
    from fandango.language.search import (RuleSearch, ItemSearch, AttributeSearch, DescendantAttributeSearch,
                                          LengthSearch, StarSearch)
    from fandango.language.symbols import NonTerminal
    nts = [NonTerminal(n) for n in GH.NTS]
    a, b = rng.choice(nts), rng.choice(nts)
    lo, hi = rng.choice([None, 0, 1, -1]), rng.choice([None, 1, 2, -1])
    searches = [ItemSearch(RuleSearch(a), [slice(lo, hi)]), ItemSearch(RuleSearch(a), [rng.randint(-2, 2)]),
                AttributeSearch(RuleSearch(a), RuleSearch(b)), DescendantAttributeSearch(RuleSearch(a), RuleSearch(b)),
                ItemSearch(AttributeSearch(RuleSearch(a), RuleSearch(b)), [slice(lo, hi)]),
                LengthSearch(RuleSearch(a)), StarSearch(RuleSearch(a))]
    keep = []
    for s in searches:
        for f in (s.find, s.find_direct):
            try:
                for c in f(tree):
                    keep.append(c.evaluate())
            except Exception:  # noqa  IndexError etc.: raising is fine, mutating is not
                pass
    for f in (lambda: tree.value(), lambda: str(tree), lambda: bytes(tree), lambda: tree.to_bits(),
              lambda: tree.flatten(), lambda: tree.find_all_nodes(a), lambda: tree.get_non_terminal_symbols(),
              lambda: tree.descendants(), lambda: tree.get_root(), lambda: tree[0:1], lambda: tree[[0]],
              lambda: tree.to_tree(), lambda: tree.get_last_by_path([a])):
        try:
            keep.append(f())
        except Exception:  # noqa
            pass


class Observer:
    """runs one history on the real code, observing the property after every op"""

    def __init__(self, rng, wild: bool, observe: bool = True):
        self.arena = AR.RealArena()
        self.rng = rng
        self.wild = wild
        self.dirty = False        # an undisciplined op has happened: bookkeeping no longer promised
        self.observe = observe
        self.failures: list[tuple[str, str]] = []
        self.views_seen: set[int] = set()

    def step(self, op: dict, ok: bool) -> dict:
        arena, k = self.arena, op["op"]
        if not ok:
            self.dirty = True
        snap = None
        if self.observe and (k in FRAME_STRICT or k in COPYING or (k in ("splitEnd", "prefix") and op["copy"])):
            snap = AR.Snapshot(list(arena.hs))
        n_before = len(arena.hs)
        res = arena.apply(op)
        out = {"res": res, "state": arena.state()}
        if not self.observe:
            return out
        new = arena.hs[n_before:]
        # ---- aliasing frames
        if snap is not None:
            loose = k == "replace"          # replace hashes old nodes (!=) and drops caches above: both fine
            d = snap.diff(allow_dropped_hash=loose, ignore_size=self.dirty)
            if loose:
                d = [x for x in d if "hash_cache" not in x]
            if d:
                sig = "C10/accessor-mutates" if k in FRAME_STRICT and k != "deepcopy" else "C10/copy-mutates-input"
                if k == "getSlice" and all("parent" in x for x in d):
                    sig = "C10/slice-reparents"
                self.failures.append((sig, f"{k} changed pre-existing nodes: {d[:3]}"))
            if new and (k in COPYING or k in ("splitEnd", "prefix")):
                old = snap.ids()
                shared = [n for n in new[0].flatten() if id(n) in old]
                if shared and not (k == "deepcopy" and not op["cc"]):
                    self.failures.append(("C10/copy-aliases", f"{k} returned a tree sharing {len(shared)} node(s) with its input"))
                lists = {s[4] for s in snap.state.values()}
                if any(id(n._children) in lists for n in new[0].flatten() if id(n) not in old):
                    self.failures.append(("C10/copy-aliases", f"{k} returned a node sharing a child *list* with an input node"))
        # ---- a new view is consistent when created
        if k == "getSlice" and new and not self.dirty:
            v = new[0]
            if v.size() != AR.recount(v) or v.parent is not None:
                self.failures.append(("C10/stale-size", f"fresh SliceTree has size {v.size()}, recount {AR.recount(v)}"))
        # ---- results of hash / eq against structure
        if not self.dirty and "raises" not in (res or {}):
            H = arena.hs
            if k == "hash" and not AR.is_view(H[op["i"]]):
                if hash(H[op["i"]]) != hash(AR.rebuild(H[op["i"]])):
                    self.failures.append(("C10/stale-hash", f"hash() differs from the hash of a fresh identical tree: {AR.tree_json(H[op['i']])}"))
            if k == "eq" and not (AR.is_view(H[op["i"]]) or AR.is_view(H[op["j"]])):
                want = AR.key_of(H[op["i"]]) == AR.key_of(H[op["j"]])
                if res["bool"] != want:
                    self.failures.append((eq_signature(H[op["i"]], H[op["j"]]),
                                          f"== says {res['bool']}, structure says {want}: {AR.tree_json(H[op['i']])} vs {AR.tree_json(H[op['j']])}"))
            if k == "classes":
                keys = [None if AR.is_view(o) else AR.key_of(o) for o in H]
                cls = res["classes"]
                for x in range(len(H)):
                    for y in range(x):
                        if keys[x] is not None and keys[y] is not None and (cls[x] == cls[y]) != (keys[x] == keys[y]):
                            self.failures.append((eq_signature(H[x], H[y]), f"== of handles {y},{x} is {cls[x] == cls[y]}, "
                                                  f"structure says {keys[x] == keys[y]}: {AR.tree_json(H[x])} vs {AR.tree_json(H[y])}"))
                            break
        # ---- bookkeeping invariant on everything reachable
        if not self.dirty:
            self.failures.extend(bookkeeping_violations(list(arena.hs)))
        # ---- searches are read-only
        if arena.hs and self.rng.random() < 0.12:
            s2 = AR.Snapshot(list(arena.hs))
            search_bundle(self.rng, arena.hs[self.rng.randrange(len(arena.hs))])
            d = s2.diff(allow_dropped_hash=False, ignore_size=False)
            if d:
                sig = "C10/slice-reparents" if all("parent" in x for x in d) else "C10/accessor-mutates"
                self.failures.append((sig, f"selector searches / value conversion changed the tree: {d[:3]}"))
        return out


OP_TIMEOUT_S = 30


class OpHangs(BaseException):
    pass


def _op_alarm(signum, frame):  # noqa: ANN001
    raise OpHangs()


def run_history(rng, length: int, wild: bool, ops: Optional[list] = None, observe: bool = True) -> dict:
    """generate (or re-run) a history on the real code; first property failure stops it"""
    obs = Observer(rng, wild, observe)
    done, outs, oks = [], [], []
    n = len(ops) if ops is not None else length
    for s in range(n):
        if ops is not None:
            op = ops[s]
            try:
                if not obs.arena.handles_valid(op):
                    raise KeyError(op["op"])
                ok = AR.disciplined(obs.arena, op) and GH.safe(obs.arena, op)
            except Exception:  # noqa   a handle the shortened history no longer has
                return {"ops": done, "outs": outs, "oks": oks, "wild": wild, "failures": [], "invalid": True}
        elif s == n - 1:
            op, ok = {"op": "classes"}, True
        else:
            op, ok = GH.next_op(rng, obs.arena, wild)
        try:
            # every public tree operation returns: a walk up a parent chain that never ends (an operation that trusts
            # stale links) would hang the whole check — a step budget in wall-clock form, generous on purpose
            signal.signal(signal.SIGALRM, _op_alarm)
            signal.alarm(OP_TIMEOUT_S)
            try:
                out = obs.step(op, ok)
            finally:
                signal.alarm(0)
        except OpHangs:
            done.append(op)
            obs.failures.append(("C10/operation-does-not-return",
                                 f"{op.get('op')} did not return within {OP_TIMEOUT_S}s (a loop over parent / child "
                                 f"links that never ends?)"))
            return {"ops": done, "outs": outs, "oks": oks + [ok], "wild": wild, "failures": obs.failures, "invalid": False}
        except (KeyError, IndexError, TypeError):
            return {"ops": done, "outs": outs, "oks": oks, "wild": wild, "failures": [], "invalid": True}
        done.append(op)
        outs.append(out)
        oks.append(ok)
        if obs.failures:
            break
    return {"ops": done, "outs": outs, "oks": oks, "wild": wild, "failures": obs.failures, "invalid": False}


def shrink(ops: list, sig: str, wild: bool) -> list:
    """drop ops that are not needed for the same failure signature (handles are positional, so only
    ops that hand out no node are candidates)"""
    def fails(cand: list) -> bool:
        h = run_history(random.Random(0), 0, wild, ops=cand)
        return (not h["invalid"]) and any(s == sig for s, _ in h["failures"])
    cur = list(ops)
    produces = {"mk", "deepcopy", "getItem", "getSlice", "splitEnd", "prefix", "replace", "parent"}
    changed = True
    rounds = 0
    while changed and rounds < 4:
        changed = False
        rounds += 1
        for i in range(len(cur) - 2, -1, -1):
            if cur[i]["op"] in produces:
                continue
            cand = cur[:i] + cur[i + 1:]
            if fails(cand):
                cur = cand
                changed = True
    return cur


# ------------------------------------------------------------------------------------------------
# (2) correspondence with the model
# ------------------------------------------------------------------------------------------------

def compare(hist: dict, answer: dict) -> Optional[dict]:
    for k, (op, o, m) in enumerate(zip(hist["ops"], hist["outs"], answer["steps"])):
        m = {"res": m["res"], "state": m["state"]}
        if o != m:
            what = "result" if o["res"] != m["res"] else "state"
            detail: Any = {"impl": o["res"], "model": m["res"]}
            if what == "state":
                for h, (x, y) in enumerate(zip(o["state"], m["state"])):
                    if x != y:
                        detail = {"handle": h, "impl": x, "model": y}
                        break
            return {"step": k, "op": op, "what": what, "detail": detail, "ops": hist["ops"][:k + 1], "wild": hist["wild"]}
    return None


# ------------------------------------------------------------------------------------------------
# (4) search runs
# ------------------------------------------------------------------------------------------------

DIG = '"0"|"1"|"2"|"3"|"4"|"5"|"6"|"7"|"8"|"9"'
SPECS = {
    "mod": f'<start> ::= <a> "-" <b>\n<a> ::= <digit>+\n<b> ::= <digit>+\n<digit> ::= {DIG}\n'
           'where int(<a>) % 7 == 3\nwhere int(<b>) % 5 == 1\nwhere len(str(<a>)) > 2\n',
    "items": '<start> ::= <item>{2,5}\n<item> ::= <k> "=" <v> ";"\n<k> ::= "x"|"y"|"z"\n<v> ::= <d> <d>\n'
             '<d> ::= "0"|"1"|"2"|"3"\nwhere str(<start>).count("z") >= 2\n'
             'where forall <v> in <start>..<v>: int(<v>) > 11\n',
    "len": f'<start> ::= <len> ":" <body>\n<len> ::= <d>+\n<d> ::= {DIG}\n<body> ::= <c>*\n<c> ::= "a"|"b"\n'
           'where int(<len>) == len(str(<body>))\nwhere str(<body>).count("a") == 3\n',
    "slice": '<start> ::= <r>{3,6}\n<r> ::= <k> <k> <k>\n<k> ::= "p"|"q"|"r"\n'
             'where str(<start>.<r>[0:2]) != str(<start>.<r>[1:3])\nwhere str(<start>).count("q") == 4\n',
    "rep": f'<start> ::= <len> ":" <item>{{int(<len>)}} "."\n<len> ::= <d>\n<d> ::= "1"|"2"|"3"|"4"|"5"\n'
           '<item> ::= <k> <k>?\n<k> ::= "x"|"y"\nwhere str(<start>).count("y") >= 2\n',
    # a parameterised generator with its converse converter: nodes carry `sources` (the recorded arguments), which
    # the search operators must copy, never share between input and result (seeded change C10-4)
    "gen": 'def twice(s):\n    return s + s\ndef firsthalf(s):\n    return s[:max(1, len(s) // 2)]\n'
           '<start> ::= <tag> ":" <payload> ";" <tag>\n<payload> ::= <digit>+ := twice(str(<half>))\n'
           f'<half> ::= <digit>{{1,3}} := firsthalf(str(<payload>))\n<tag> ::= <digit> <digit>\n<digit> ::= {DIG}\n'
           'where int(<tag>) % 7 == 3\nwhere int(<payload>) % 2 == 0\n',
    "bits": '<start> ::= <hdr> <pl>\n<hdr> ::= <bit>{8}\n<bit> ::= 0 | 1\n<pl> ::= <byte>{1,4}\n<byte> ::= b"\\x00" | b"\\x7f" | b"A"\n'
            'where bytes(<hdr>)[0] % 3 == len(bytes(<pl>)) % 3\nwhere bytes(<hdr>)[0] > 40\n',
}


def drive(gen):
    try:
        while True:
            next(gen)
    except StopIteration as e:
        return e.value


def tree_frozen(t) -> tuple:
    return (json.dumps(AR.tree_json(t)), AR.Snapshot([t]))


def frozen_diff(t, fz: tuple) -> list[str]:
    """changes of a held tree since it was frozen (filled hash caches are not a change; wrong ones are)"""
    j, snap = fz
    d = [x for x in snap.diff(allow_dropped_hash=True) if "hash_cache set" not in x]
    if json.dumps(AR.tree_json(t)) != j:
        d.append("structure changed")
    d += [m for _, m in bookkeeping_violations([t])]
    return d


def search_run(run: Run, name: str, seed: int, pop: int, gens: int, want: int) -> None:
    from fandango import Fandango
    from fandango.evolution import crossover as CX, mutation as MU
    spec = SPECS[name]
    held: list = []
    op_failures: list[str] = []
    counts = {"crossover": 0, "mutation": 0}
    orig_cx = CX.SimpleSubtreeCrossover.crossover
    orig_mu = MU.SimpleMutation.mutate
    fan_box: list = []

    def population() -> list:
        f = fan_box[0].fandango if fan_box else None
        return list(getattr(f, "population", []) or []) if f is not None else []

    def cx(self, grammar, p1, p2):
        members = [p1, p2] + population() + [t for t, _ in held]
        fz = [(m, tree_frozen(m)) for m in members]
        res = orig_cx(self, grammar, p1, p2)
        counts["crossover"] += 1
        for m, z in fz:
            d = frozen_diff(m, z)
            if d:
                op_failures.append(f"crossover changed an input / population member / emitted solution: {d[:2]}")
        if res is not None:
            old = {id(n) for m in members for n in m.flatten()}
            for c in res:
                if any(id(n) in old for n in c.flatten()):
                    op_failures.append("crossover returned a tree sharing nodes with its inputs")
                op_failures.extend(m for _, m in bookkeeping_violations([c]))
        return res

    def mu(self, individual, grammar, evaluate_func, *a, **kw):
        members = [individual] + population() + [t for t, _ in held]
        fz = [(m, tree_frozen(m)) for m in members]
        res = yield from orig_mu(self, individual, grammar, evaluate_func, *a, **kw)
        counts["mutation"] += 1
        for m, z in fz:
            d = frozen_diff(m, z)
            if d:
                op_failures.append(f"mutation changed its input / a population member / an emitted solution: {d[:2]}")
        if res is not individual:
            old = {id(n) for m in members for n in m.flatten()}
            if any(id(n) in old for n in res.flatten()):
                op_failures.append("mutation returned a tree sharing nodes with its input")
        op_failures.extend(m for _, m in bookkeeping_violations([res]))
        return res

    from fandango.evolution import population as PM
    orig_fix = PM.PopulationManager.fix_individual
    counts["repair"] = 0

    def fix(self, individual, suggestion=None):
        members = [individual] + population() + [t for t, _ in held]
        fz = [(m, tree_frozen(m)) for m in members]
        res, n = orig_fix(self, individual, suggestion)
        if n:
            counts["repair"] += 1
        for m, z in fz:
            d = frozen_diff(m, z)
            if d:
                op_failures.append(f"repair (fix_individual, {n} replacement(s)) changed its input / a population "
                                   f"member / an emitted solution: {d[:2]}")
        if res is not individual:
            old = {id(x) for m in members for x in m.flatten()}
            if any(id(x) in old for x in res.flatten()):
                op_failures.append("repair returned a tree sharing nodes with its input")
            op_failures.extend(m for _, m in bookkeeping_violations([res]))
        return res, n

    PM.PopulationManager.fix_individual = fix
    CX.SimpleSubtreeCrossover.crossover = cx
    MU.SimpleMutation.mutate = mu
    try:
        random.seed(seed)
        fan = Fandango(spec, use_cache=False, use_stdlib=False, logging_level=logging.CRITICAL)
        fan_box.append(fan)

        def cb(sol, i):
            held.append((sol, tree_frozen(sol)))
        sols = fan.fuzz(solution_callback=cb, desired_solutions=want, max_generations=gens, population_size=pop)
        # operators called directly on the final population
        grammar = fan.grammar
        popl = population() + list(sols)
        ev = fan.fandango.evaluator.evaluate_individual if fan.fandango is not None else None
        for _ in range(6):
            if len(popl) >= 2:
                a, b = random.sample(popl, 2)
                CX.SimpleSubtreeCrossover().crossover(grammar, a, b)
            if popl and ev is not None:
                try:
                    drive(MU.SimpleMutation().mutate(random.choice(popl), grammar, ev))
                except Exception as e:  # noqa   production code swallows operator exceptions too
                    run.count("search:mutation-raised:" + type(e).__name__)
    finally:
        CX.SimpleSubtreeCrossover.crossover = orig_cx
        MU.SimpleMutation.mutate = orig_mu
        PM.PopulationManager.fix_individual = orig_fix
    rp = {"kind": "search", "spec": name, "seed": seed, "pop": pop, "gens": gens, "want": want}
    for i, (sol, fz) in enumerate(held):
        d = frozen_diff(sol, fz)
        if d:
            run.report("C10/solution-changed", f"solution #{i} of spec '{name}' changed after it was emitted: {d[:3]}", rp)
    for m in op_failures[:1]:
        run.report("C10/operator-mutates-population", f"spec '{name}': {m}", rp)
    run.count("search:runs")
    run.count("search:solutions-held", len(held))
    run.count("search:crossovers-observed", counts["crossover"])
    run.count("search:mutations-observed", counts["mutation"])
    run.count("search:repairs-observed(with replacements)", counts["repair"])
    run.case({"search": name, "seed": seed}, counts["crossover"] + counts["mutation"] > 0,
             {"search": name, "solutions": len(held), **counts})


# ------------------------------------------------------------------------------------------------
# documented limits of the API (the Lean counterexamples), replayed on the real code
# ------------------------------------------------------------------------------------------------

LIMITS = {
    # C10_shared_child_goes_stale: a node handed to a second parent; an edit below it reaches only the last parent
    "shared-child": [{"op": "mk", "sym": ["t", [97]], "sender": None, "recipient": None, "kids": [], "ro": False},
                     {"op": "mk", "sym": ["n", "<a>"], "sender": None, "recipient": None, "kids": [0], "ro": False},
                     {"op": "mk", "sym": ["n", "<b>"], "sender": None, "recipient": None, "kids": [0], "ro": False},
                     {"op": "mk", "sym": ["t", [98]], "sender": None, "recipient": None, "kids": [], "ro": False},
                     {"op": "addChild", "p": 0, "c": 3}],
    # C10_view_goes_stale: a SliceTree held across an edit below it
    "stale-view": [{"op": "mk", "sym": ["n", "<c>"], "sender": None, "recipient": None, "kids": [], "ro": False},
                   {"op": "mk", "sym": ["n", "<a>"], "sender": None, "recipient": None, "kids": [0], "ro": False},
                   {"op": "getSlice", "i": 1, "a": 0, "b": None},
                   {"op": "mk", "sym": ["t", [98]], "sender": None, "recipient": None, "kids": [], "ro": False},
                   {"op": "addChild", "p": 0, "c": 3}],
}
LIMIT_STALE_HANDLE = {"shared-child": 1, "stale-view": 2}


def replay_limits(run: Run, corr_failures: list) -> None:
    for name, ops in LIMITS.items():
        arena = AR.RealArena()
        outs = []
        for op in ops:
            outs.append({"res": arena.apply(op), "state": arena.state()})
        ans = driver_ask("drv_arena", [{"ops": ops}])[0]
        c = compare({"ops": ops, "outs": outs, "wild": True}, ans)
        if c:
            corr_failures.append(c)
        h = arena.hs[LIMIT_STALE_HANDLE[name]]
        stale = h.size() != AR.recount(h)
        run.count(f"limit:{name}:{'stale-as-modelled' if stale else 'not-stale'}")


# ------------------------------------------------------------------------------------------------

def report_history(run: Run, hist: dict) -> None:
    sig, msg = hist["failures"][0]
    ops = hist["ops"]
    try:
        ops = shrink(ops, sig, hist["wild"])
    except Exception:  # noqa
        pass
    run.report(sig, f"after {len(ops)} ops ({ops[-1]['op']}): {msg}", {"kind": "history", "ops": ops, "wild": hist["wild"]})


def replay(path: str) -> int:
    use_repo()
    rp = json.load(open(path))
    kind = rp.get("kind")
    if kind == "history":
        h = run_history(random.Random(0), 0, rp.get("wild", False), ops=rp["ops"])
        for s, m in h["failures"]:
            print("FAILS:", s, m)
        ans = driver_ask("drv_arena", [{"ops": h["ops"]}])[0]
        c = compare(h, ans)
        if c:
            print("model/implementation differ at step", c["step"], json.dumps(c["detail"])[:600])
        bad = bool(h["failures"])
        print("replay:", "property violated" if bad else "no violation on the current tree")
        return 1 if bad else 0
    if kind == "search":
        run = Run(PID, "replay", "proof")
        search_run(run, rp["spec"], rp["seed"], rp["pop"], rp["gens"], rp["want"])
        print("replay:", "property violated" if run.violations else "no violation on the current tree")
        return 1 if run.violations else 0
    print("replay: this file names broken obligations / correspondence cases, not a failing input")
    print(json.dumps({k: rp.get(k) for k in ("what", "broken_obligations", "correspondence")}, indent=1)[:3000])
    return 1 if rp.get("no_failing_input_found") else 0


def main(tier: str) -> int:
    run = Run(PID, tier, "proof")
    use_repo()
    lean = lean_check("Props.C10", ["drv_arena"])
    rng = run.rng("histories")
    n_hist = 1500 if tier == "quick" else 20000
    corr_failures: list = []
    inv_failures: list = []
    batch: list[dict] = []

    def flush() -> None:
        if not batch:
            return
        answers = driver_ask("drv_arena", [{"ops": h["ops"]} for h in batch])
        for h, a in zip(batch, answers):
            c = compare(h, a)
            if c:
                corr_failures.append(c)
            dirty = False
            for k, (ok, m) in enumerate(zip(h["oks"], a["steps"])):
                dirty = dirty or not ok
                if dirty:
                    run.count("wild-state:invB-" + ("true" if m["inv"] else "false"))
                else:
                    run.count("disciplined-state:invB-" + ("true" if m["inv"] else "false"))
                    if not m["inv"]:
                        inv_failures.append({"step": k, "ops": h["ops"][:k + 1]})
                        break
        batch.clear()

    def account(h: dict) -> None:
        kinds = sorted({o["op"] for o in h["ops"]})
        run.case(h["ops"], len(h["ops"]) >= 8 and len(kinds) >= 5,
                 {"wild": h["wild"], "ops": [o["op"] for o in h["ops"]][:40]})
        run.count("history:wild" if h["wild"] else "history:disciplined")
        run.count("ops", len(h["ops"]))
        for o, out, ok in zip(h["ops"], h["outs"], h["oks"]):
            r = out["res"]
            tag = o["op"] + (":" + r["raises"].split(":")[0] if isinstance(r, dict) and "raises" in r else "")
            run.count("op:" + tag)
            if not ok:
                run.count("undisciplined-ops")
        if h["failures"]:
            report_history(run, h)
        batch.append(h)

    # corpus first
    if CORPUS.is_dir():
        for f in sorted(CORPUS.glob("*.json")):
            c = json.loads(f.read_text())
            h = run_history(random.Random(0), 0, c.get("wild", False), ops=c["ops"])
            if not h["invalid"]:
                run.count("corpus")
                account(h)
    for i in range(n_hist):
        wild = rng.random() < 0.3
        account(run_history(rng, rng.randint(6, 40), wild))
        if len(batch) >= 400:
            flush()
    flush()
    replay_limits(run, corr_failures)

    # search runs
    srng = run.rng("search")
    plans = [("mod", 10, 8, 14), ("items", 10, 8, 14), ("len", 8, 6, 10), ("slice", 10, 8, 12), ("bits", 8, 6, 10),
             ("rep", 10, 8, 12), ("gen", 10, 8, 10)]
    reps = 1 if tier == "quick" else 6
    for _ in range(reps):
        for name, pop, gens, want in plans:
            search_run(run, name, srng.randrange(1 << 30), pop, gens, want)

    run.coverage["traces_validated_against_impl"] = run.counters.get("ops", 0)
    run.coverage["correspondence_disagreements"] = len(corr_failures)
    run.coverage["disagreement_samples"] = corr_failures[:3]
    run.coverage["model_states_failing_verified_checker"] = len(inv_failures)
    if (not lean.ok or corr_failures or inv_failures) and not run.violations and not run.known_hits:
        what = []
        if not lean.ok:
            what.append("proof obligations of Props/C10.lean no longer check: " + json.dumps(lean.broken)[:600])
        if corr_failures:
            c = corr_failures[0]
            what.append(f"model/implementation correspondence broken on {len(corr_failures)} histories, e.g. step "
                        f"{c['step']} ({c['op']['op']}): " + json.dumps(c["detail"])[:400])
        if inv_failures:
            what.append(f"the verified checker invB rejects the model state after {len(inv_failures)} disciplined histories "
                        f"(the operations without an Inv-preservation theorem rest on this check), e.g. "
                        + json.dumps(inv_failures[0])[:400])
        run.report("C10/unproved", "; ".join(what),
                   {"broken_obligations": lean.broken, "correspondence": corr_failures[:10],
                    "invB_failures": inv_failures[:10]}, no_input=True)
    return run.finish(
        lean,
        rule="op histories of 6..40 ops over <=48 live handles (30% wild: shared children, edited / copied / attached "
             "views), 24 op kinds incl. error branches; every op compared with the Lean arena (result + size, shape, "
             "parent handles, cache flag, aliasing classes of every handle); disciplined histories additionally checked "
             "against recount / fresh-rebuild hash / structural equality / parent links / identity snapshots; a history "
             "is non-trivial with >=8 ops of >=5 kinds; distinct by op list.  Search runs: 5 specs, bounded generations.",
        trusted_base=TRUSTED)
