"""C11 — cached evaluations equal fresh evaluations.

1. obligations: Props/C11.lean (memo layers refine fresh evaluation after any history, under the stated
   hypotheses on the key; the key misses the origin tags repetition-bounds fitness reads) + axiom audit
2./3. the property on the real code (there is no separate executable model to correspond with: the Lean
   model is generic in the key function; what ties it to /repo is this observation of *every* call):
   `Evaluator.evaluate_individual` and every `Constraint.fitness` are wrapped; at each call the same tree
   (same scope / local variables) is also evaluated by BRAND-NEW constraint objects (the spec re-parsed by
   a new `Fandango`) with empty caches and a new `Evaluator`; compared: fitness (exact ratio), success,
   solved/total, failing parts (paths + causing constraint).  Histories:
     (a) real bounded evolution runs (`Fandango.fuzz`) on generated specs, incl. computed repetitions;
     (b) generated adversarial histories on one `Evaluator`: re-evaluation, deep copies, in-place edits
         below a node whose hash was cached, structurally equal trees with different origin tags
         (obtained from the real parser: two derivations of the same children list), str/bytes twins.
"""
from __future__ import annotations

import copy
import json
import logging
import random
import signal
import time
from typing import Any, Optional

from harness import translate_memo
from harness.common import VERIF, MachineryError, Run, lean_check, use_repo
from harness.gen import cons as G
from harness.impl import cons as I
from harness.props import c02 as C02

PID = "C11"
PROPOSED = VERIF / "proposed_findings" / "C11.json"

TRUSTED = [
    "Lean 4.33.0 kernel; axioms ⊆ {propext, Classical.choice, Quot.sound} (audited per run)",
    "lean/Model/Memo.lean: memo layers with an ABSTRACT key function; CPython's hash is not modelled — "
    "`KeyDetermines` (key covers what is read + no collision among the keys seen) is a hypothesis of the theorems",
    "the reading of constraints/*.py `self.cache`, base.py get_hash, evaluation.py `_fitness_cache` as such layers; "
    "validated by observing every call of real runs against brand-new objects (generator-bounded)",
    "in-place edits are outside the model (trees are values; C10 is the frame property); they are exercised by the "
    "adversarial histories of this check",
]


class Observer:
    """wraps Evaluator.evaluate_individual and every Constraint.fitness of ONE Fandango object"""

    def __init__(self, run: Run, spec_text: str, extra: list[str], origin: str):
        self.run, self.spec_text, self.extra, self.origin = run, spec_text, extra, origin
        self.in_fresh = False
        self.paths: dict[int, tuple] = {}      # id(original constraint) -> path in the constraint forest
        self.fresh_roots: Optional[list] = None
        self.mismatches: list[dict] = []
        self.calls = {"evaluate": 0, "fitness": 0, "cache_hits": 0}
        self.history: list[str] = []
        self.reparse_every = 20
        self.fresh_parses = 0
        self.regen: dict = {}              # how `replay` regenerates exactly this history

    # ---- constraint forest
    @staticmethod
    def kids(c) -> list:
        out = list(getattr(c, "constraints", []) or [])
        for a in ("statement", "antecedent", "consequent"):
            x = getattr(c, a, None)
            if x is not None:
                out.append(x)
        return out

    def register(self, roots: list) -> None:
        def go(c, path):
            self.paths[id(c)] = path
            for i, k in enumerate(self.kids(c)):
                go(k, path + (i,))
        for i, r in enumerate(roots):
            go(r, (i,))

    def new_fresh(self) -> list:
        """brand-new constraint objects: the spec text parsed by a new Fandango object"""
        from fandango import Fandango
        self.fresh_parses += 1
        f = Fandango(self.spec_text, use_stdlib=False, use_cache=False, logging_level=logging.CRITICAL)
        roots = list(f.constraints)
        if self.extra:
            roots += f._parse_extra_constraints(self.extra, "<start>")
        return roots

    def twin(self, path: tuple):
        c = self.fresh_roots[path[0]]
        for i in path[1:]:
            c = self.kids(c)[i]
        return c

    # ---- canonical results
    @staticmethod
    def own_path(node) -> str:
        """child-index path of a node inside the tree it belongs to"""
        idx = []
        n = node
        while n._parent is not None:
            par = n._parent
            i = next((k for k, c in enumerate(par._children) if c is n), None)
            if i is None:
                return "detached"
            idx.append(str(i))
            n = par
        return ".".join(reversed(idx))

    @staticmethod
    def failing_canon(failing, paths: dict[int, str]) -> list:
        """failing parts as (path, cause) pairs.  A cache hit returns the nodes of the structurally equal tree
        that was evaluated first: they are compared by their path in *their* tree."""
        out = []
        for ft in failing:
            p = paths.get(id(ft.tree))
            if p is None:
                p = Observer.own_path(ft.tree)
            try:
                cause = ft.cause.format_as_spec()
            except Exception:  # noqa: BLE001
                cause = type(ft.cause).__name__
            out.append([p, cause])
        return sorted(out)

    def fit_canon(self, f, paths) -> dict:
        d = I.fit_canon(f)
        d["failing"] = self.failing_canon(f.failing_trees, paths)
        return d

    def note(self, kind: str, detail: dict) -> None:
        if len(self.mismatches) < 50:
            self.mismatches.append(dict(detail, kind=kind, spec=self.spec_text, extra=self.extra,
                                        history=list(self.history[-12:]), regen=self.regen))


OBS: dict[str, Any] = {"cur": None, "patched": False}


def install_wrappers() -> None:
    """class-level patches; they act only while an Observer is current"""
    if OBS["patched"]:
        return
    OBS["patched"] = True
    from fandango.constraints.comparison import ComparisonConstraint
    from fandango.constraints.conjunction import ConjunctionConstraint
    from fandango.constraints.disjunct import DisjunctionConstraint
    from fandango.constraints.exists import ExistsConstraint
    from fandango.constraints.expression import ExpressionConstraint
    from fandango.constraints.forall import ForallConstraint
    from fandango.constraints.implication import ImplicationConstraint
    from fandango.constraints.repetition_bounds import RepetitionBoundsConstraint
    from fandango.evolution.evaluation import Evaluator

    def wrap_fitness(cls):
        orig = cls.fitness

        def fitness(self, tree, scope=None, local_variables=None):
            ob: Optional[Observer] = OBS["cur"]
            if ob is None or ob.in_fresh or id(self) not in ob.paths:
                return orig(self, tree, scope, local_variables)
            ob.calls["fitness"] += 1
            scope_c = dict(scope) if scope else scope
            locals_c = dict(local_variables) if local_variables else local_variables
            try:
                key = self.get_hash(tree, scope, local_variables)
                if key in self.cache:
                    ob.calls["cache_hits"] += 1
            except Exception:  # noqa: BLE001
                pass
            err = None
            try:
                res = orig(self, tree, scope, local_variables)
            except Exception as e:  # noqa: BLE001
                err, res = e, None
            if ob.fresh_roots is not None:
                compare_constraint(ob, self, tree, scope_c, locals_c, res, err)
            if err is not None:
                raise err
            return res
        cls.fitness = fitness

    for cls in (ExpressionConstraint, ComparisonConstraint, ConjunctionConstraint, DisjunctionConstraint,
                ImplicationConstraint, ForallConstraint, ExistsConstraint, RepetitionBoundsConstraint):
        wrap_fitness(cls)

    orig_eval = Evaluator.evaluate_individual

    def evaluate_individual(self, individual):
        ob: Optional[Observer] = OBS["cur"]
        if ob is None or ob.in_fresh or getattr(self, "_c11_observed", None) is not ob:
            return (yield from orig_eval(self, individual))
        ob.calls["evaluate"] += 1
        ob.history.append("evaluate " + str(individual)[:30])
        if ob.fresh_roots is None or ob.calls["evaluate"] % ob.reparse_every == 1:
            # brand-new objects: the spec re-parsed by a new Fandango object (every `reparse_every` calls;
            # in between the previous brand-new objects are reused with all their caches emptied)
            state = random.getstate()
            ob.in_fresh = True
            try:
                ob.fresh_roots = ob.new_fresh()
            finally:
                ob.in_fresh = False
                random.setstate(state)
        result = yield from orig_eval(self, individual)
        if ob.fresh_roots is not None:
            compare_evaluator(ob, self, individual, result)
        return result
    Evaluator.evaluate_individual = evaluate_individual


def compare_constraint(ob: Observer, c, tree, scope, local_variables, res, err) -> None:
    twin = ob.twin(ob.paths[id(c)])
    state = random.getstate()
    ob.in_fresh = True
    try:
        I.clear_caches(twin)
        try:
            fres, ferr = twin.fitness(tree, scope, local_variables), None
        except Exception as e:  # noqa: BLE001
            fres, ferr = None, e
    finally:
        ob.in_fresh = False
        random.setstate(state)
    paths = I.paths_of(tree.get_root())
    got = {"err": I.exc_kind(err)} if err is not None else {"ok": ob.fit_canon(res, paths)}
    want = {"err": I.exc_kind(ferr)} if ferr is not None else {"ok": ob.fit_canon(fres, paths)}
    ob.run.count("constraint-call:" + type(c).__name__.replace("Constraint", ""))
    if got != want:
        try:
            spec = c.format_as_spec()
        except Exception:  # noqa: BLE001
            spec = type(c).__name__
        ob.note("constraint", {"constraint": spec, "class": type(c).__name__, "tree": str(tree.get_root()),
                               "tree_json": safe_tree_json(tree.get_root()), "cached": got, "fresh": want,
                               "origin_tags": tags_of(tree.get_root())})


def compare_evaluator(ob: Observer, ev, individual, result) -> None:
    from fandango.evolution.evaluation import Evaluator
    state = random.getstate()
    ob.in_fresh = True
    try:
        for r in ob.fresh_roots:
            I.clear_caches(r)
        fresh_ev = Evaluator(ev._grammar, ob.fresh_roots, ev._expected_fitness, ev._diversity_k, ev._diversity_weight)
        gen = fresh_ev.evaluate_individual(individual)
        try:
            while True:
                next(gen)
        except StopIteration as stop:
            fresult = stop.value
    finally:
        ob.in_fresh = False
        random.setstate(state)
    paths = I.paths_of(individual.get_root())
    got = {"fitness": list(float(result[0]).as_integer_ratio()), "failing": ob.failing_canon(result[1], paths)}
    want = {"fitness": list(float(fresult[0]).as_integer_ratio()), "failing": ob.failing_canon(fresult[1], paths)}
    if got != want:
        ob.note("evaluator", {"tree": str(individual), "tree_json": safe_tree_json(individual), "cached": got,
                              "fresh": want, "origin_tags": tags_of(individual)})


def safe_tree_json(t) -> Any:
    try:
        return I.tree_json(t)
    except Exception:  # noqa: BLE001
        return None


def tags_of(t) -> list:
    out = []

    def go(n, p):
        if n.origin_repetitions:
            out.append([p, [list(x) for x in n.origin_repetitions]])
        for i, c in enumerate(n._children):
            go(c, f"{p}.{i}" if p else str(i))
    go(t, "")
    return out


# ------------------------------------------------------------------------------------------------
# histories
# ------------------------------------------------------------------------------------------------

class TextSpec:
    """a spec given as text (what `replay` has)"""

    def __init__(self, text: str, extra: list[str], origin: str):
        self._text, self._extra, self.origin = text, extra, origin

    def text(self) -> str:
        return self._text

    def extra_texts(self) -> list[str]:
        return self._extra


def observed_fuzz(run: Run, spec, seed: int, limit_s: int) -> Observer:
    from fandango import Fandango
    from fandango.evolution.evaluation import Evaluator
    text = spec.text()
    ob = Observer(run, text, spec.extra_texts(), spec.origin)
    ob.regen = {"mode": "evolution", "fuzz_seed": seed, "origin": spec.origin}
    fan = Fandango(text, use_stdlib=False, use_cache=False, logging_level=logging.CRITICAL)
    ob.register(list(fan.constraints))
    orig_init = Evaluator.__init__

    def init(self, grammar, constraints, *a, **k):
        orig_init(self, grammar, constraints, *a, **k)
        cur = OBS["cur"]
        if cur is not None and not cur.in_fresh:
            self._c11_observed = cur
            cur.register(list(constraints))        # extra constraints are parsed inside init_population
    Evaluator.__init__ = init
    OBS["cur"] = ob
    signal.signal(signal.SIGALRM, C02._alarm)
    signal.alarm(limit_s)
    try:
        fan.fuzz(desired_solutions=4, max_generations=6, population_size=8, random_seed=seed,
                 extra_constraints=spec.extra_texts() or None)
    except C02.Timeout:
        run.count("fuzz:time-limit")
    except Exception as e:  # noqa: BLE001
        run.count("fuzz:raised:" + type(e).__name__)
    finally:
        signal.alarm(0)
        OBS["cur"] = None
        Evaluator.__init__ = orig_init
    return ob


TWIN_SPECS = [
    # two derivations of the same children list that differ only in their origin tags
    ('<start> ::= <n> <item>{int(<n>)} <item>*\n<n> ::= "1" | "2" | "3"\n<item> ::= "x"\n',
     ["1xx", "2xx", "2xxx", "1x", "3xxx"]),
    ('<start> ::= <n> <item>{int(<n>)} <rest>\n<rest> ::= <item>*\n<n> ::= "1" | "2"\n<item> ::= "x" | "y"\n',
     ["1xy", "2xy", "1x", "2yx"]),
    ('<start> ::= <a> <a>\n<a> ::= <b> <b> | <b>\n<b> ::= "x" | "y" | "1"\nwhere int(<b>) == 1 or str(<a>) == "xy"\n'
     'where all(str(q) != "y" for q in *<a>.<b>)\n',
     ["xy1", "11", "1x1", "yy"]),
]


def adversarial_history(run: Run, rng, gtext: str, words: list[str], regen: Optional[dict] = None) -> Observer:
    """one Evaluator, a generated sequence of evaluate / copy / edit operations over trees obtained from the
    real parser (all derivations of each word, so structurally equal trees with different tags occur)"""
    from fandango import Fandango
    from fandango.evolution.evaluation import Evaluator
    ob = Observer(run, gtext, [], "adversarial")
    ob.regen = regen or {}
    fan = Fandango(gtext, use_stdlib=False, use_cache=False, logging_level=logging.CRITICAL)
    roots = list(fan.constraints)
    ob.register(roots)
    ev = Evaluator(fan.grammar, roots, 1.0, 5, 1.0)
    ev._c11_observed = ob
    pool = []
    for w in words:
        try:
            forest = list(fan.grammar.parse_forest(w))
        except Exception:  # noqa: BLE001
            forest = []
        for t in forest[:4]:
            pool.append(t)
    if not pool:
        return ob
    OBS["cur"] = ob
    try:
        for step in range(14):
            op = rng.choice(["eval", "eval", "copy", "replace", "replace", "edit", "retag"])
            t = rng.choice(pool)
            if op == "copy":
                t = copy.deepcopy(t)
                pool.append(t)
                ob.history.append("deepcopy")
            elif op == "replace":
                # the primitive of crossover / mutation / repair: a NEW tree with one subtree replaced by (a copy of)
                # a subtree of another individual — which brings that individual's origin tags along
                u = rng.choice(pool)
                cands = [(n, m) for n in t.flatten()[1:] for m in u.flatten()[1:]
                         if n.symbol == m.symbol and n.symbol.is_non_terminal and n is not m]
                if cands:
                    n, m = rng.choice(cands)
                    try:
                        t = t.replace(fan.grammar, n, m)
                        pool.append(t)
                        ob.history.append(f"replace {n.symbol.format_as_spec()} {str(n)!r} by {str(m)!r} of another tree")
                    except Exception as e:  # noqa: BLE001
                        run.count("adversarial:replace-raised:" + type(e).__name__)
            elif op == "edit":
                # in-place edit below a node whose hash is cached (on a private copy nothing else refers to)
                t = copy.deepcopy(t)
                hash(t)
                inner = [n for n in t.flatten() if len(n._children) >= 2]
                if inner:
                    n = rng.choice(inner)
                    n.set_children(list(reversed(n._children)))
                    ob.history.append("in-place: reverse children of " + str(n.symbol.format_as_spec()) + " after hashing")
                pool.append(t)
            elif op == "retag":
                others = [u for u in pool if u is not t and hash(u) == hash(t) and tags_of(u) != tags_of(t)]
                if others:
                    run.count("adversarial:tag-twins-available")
                    t = rng.choice(others)
                    ob.history.append("switch to a structurally equal tree with other origin tags")
            list(ev.evaluate_individual(t))
    finally:
        OBS["cur"] = None
    return ob


def load_known(run: Run) -> None:
    if PROPOSED.exists():
        for k in json.loads(PROPOSED.read_text()):
            if k.get("property") == PID and k.get("status") == "open" and \
                    not any(x.get("signature") == k.get("signature") for x in run.known):
                run.known.append(k)


def only_paths_differ(m: dict) -> bool:
    """same fitness / verdict / counters, same causes — the failing parts differ only in WHICH of several
    structurally equal subtrees they name"""
    c, f = m.get("cached", {}), m.get("fresh", {})
    if "ok" in c and "ok" in f:
        c, f = c["ok"], f["ok"]
    if not isinstance(c, dict) or not isinstance(f, dict) or "failing" not in c or "failing" not in f:
        return False
    rest_c = {k: v for k, v in c.items() if k != "failing"}
    rest_f = {k: v for k, v in f.items() if k != "failing"}
    return rest_c == rest_f and sorted(x[1] for x in c["failing"]) == sorted(x[1] for x in f["failing"])


def classify(m: dict) -> str:
    if only_paths_differ(m) and "RepetitionBounds" not in json.dumps(m.get("fresh", "")):
        return "C11/equal-subtrees-share-failing-parts"
    if m.get("class") == "RepetitionBoundsConstraint" or "RepetitionBounds" in json.dumps(m.get("cached", "")) + \
            json.dumps(m.get("fresh", "")):
        return "C11/origin-tags-not-in-key"
    if m.get("class") == "ImplicationConstraint":
        return "C11/implication-cached-copy"
    return "C11/cached-differs"


REPORTED: set = set()


def report_mismatches(run: Run, ob: Observer) -> None:
    for m in ob.mismatches:
        sig = classify(m)
        run.count(f"mismatch:{ob.origin.split(':')[0]}:{m['kind']}:{classify(m).split('/')[1]}")
        if sig in REPORTED:
            continue                     # one report per class and run; every further one is only counted
        REPORTED.add(sig)
        if m["kind"] == "evaluator" and any(x["kind"] == "constraint" and classify(x) != "C11/cached-differs"
                                            for x in ob.mismatches):
            sig = next(classify(x) for x in ob.mismatches
                       if x["kind"] == "constraint" and classify(x) != "C11/cached-differs")
        run.report(sig,
                   f"{m['kind']} result for {m['tree']!r} differs from a fresh evaluation "
                   f"({m.get('constraint', 'evaluate_individual')}): cached {json.dumps(m['cached'])[:200]} vs fresh "
                   f"{json.dumps(m['fresh'])[:200]} after history {m['history'][-4:]} ({ob.origin})",
                   {"kind": "history", "mismatch": m})


def implication_probe(run: Run) -> None:
    """ImplicationConstraint caches a copy of a DistanceAware fitness; the copy recomputes solved/total from the
    values and loses the implication's own point.  (Only reachable through the Python API: `->` in .fan text
    crashes the converter.)"""
    prog = ["impl", ["expr", ["tt"], []], ["cmp", ["i", "==", ["int", ["ph", 0]], ["lit", 1]], [["rule", "<x>"]]]]
    tj = ["n", "<start>", None, None, [["n", "<x>", None, None, [["t", [ord("1")], None, None]]],
                                        ["n", "<x>", None, None, [["t", [ord("a")], None, None]]]]]
    c = I.build_cons(prog)
    t = I.build_tree(tj)
    first = I.fit_canon(c.fitness(t))
    second = I.fit_canon(c.fitness(t))            # served from the cache
    fresh = I.fit_canon(I.build_cons(prog).fitness(t))
    if second != fresh:
        run.count("probe:implication-cached-copy-differs")
        run.report("C11/implication-cached-copy",
                   f"ImplicationConstraint over a comparison: first call {first}, second (cached) call {second}, "
                   f"fresh objects {fresh}", {"kind": "probe", "probe": "implication", "program": prog, "tree": tj})
    else:
        run.count("probe:implication-ok")


def origin_tags_probe(run: Run) -> None:
    """a crossover product that is structurally equal to a valid tree but carries another derivation's origin
    tags is evaluated first; the valid tree then gets its cached (failing) result"""
    from fandango import Fandango
    from fandango.evolution.evaluation import Evaluator
    spec = TWIN_SPECS[0][0]

    def fitness(ev, t):
        g = ev.evaluate_individual(t)
        try:
            while True:
                next(g)
        except StopIteration as stop:
            return stop.value[0]
    f = Fandango(spec, use_stdlib=False, use_cache=False, logging_level=logging.CRITICAL)
    ev = Evaluator(f.grammar, list(f.constraints), 1.0, 5, 1.0)
    two, one = f.grammar.parse("2xx"), f.grammar.parse("1xx")
    twin = two.replace(f.grammar, two.children[0], one.children[0])
    a = fitness(ev, twin)
    b = fitness(ev, one)
    g = Fandango(spec, use_stdlib=False, use_cache=False, logging_level=logging.CRITICAL)
    fresh = fitness(Evaluator(g.grammar, list(g.constraints), 1.0, 5, 1.0), one)
    if b != fresh:
        run.count("probe:origin-tags-stale")
        run.report("C11/origin-tags-not-in-key",
                   f"'1xx' (one item from {{int(<n>)}}, one from *) is reported with fitness {b} after a structurally equal "
                   f"crossover product carrying the tags of '2xx' was evaluated (fitness {a}); brand-new objects give {fresh}",
                   {"kind": "probe", "probe": "origin-tags", "spec": spec})
    else:
        run.count("probe:origin-tags-ok")


def equal_subtrees_probe(run: Run) -> None:
    """'qq' under `all(all(str(<b>)=="y" for <b> in *<a>.<b>) for <a> in *<start>.<a>)`: the body's result for the
    second <a> is served from the cache entry of the (structurally equal) first one, with ITS failing tree"""
    spec = C02.corpus_specs()[1]
    g, cons = I.parse_spec(spec.text())
    t = g.parse("qq")
    f = cons[0].fitness(t)
    got = sorted(Observer.own_path(ft.tree) for ft in f.failing_trees)
    if got != ["0.0", "1.0"]:
        run.count("probe:equal-subtrees-share")
        run.report("C11/equal-subtrees-share-failing-parts",
                   f"'qq': the failing parts are at {got}, a fresh evaluation of each position gives ['0.0', '1.0']",
                   {"kind": "probe", "probe": "equal-subtrees", "spec": spec.text()})
    else:
        run.count("probe:equal-subtrees-ok")


def replay(path: str) -> int:
    use_repo()
    C02.quiet()
    rp = json.load(open(path))
    if rp.get("no_failing_input_found"):
        print("replay: broken proof obligations without a failing input:")
        print(json.dumps({k: rp[k] for k in rp if k in ("what", "broken_obligations")}, indent=1)[:3000])
        return 1
    run = Run(PID, "quick", "proof")
    if rp.get("kind") == "probe":
        if rp.get("probe") == "origin-tags":
            origin_tags_probe(run)
        elif rp.get("probe") == "equal-subtrees":
            equal_subtrees_probe(run)
        else:
            implication_probe(run)
        bad = bool(run.violations or run.known_hits)
        print("replay:", "property violated" if bad else "no violation on the current tree")
        return 1 if bad else 0
    m = rp["mismatch"]
    install_wrappers()
    print("spec:", m["spec"].replace("\n", " ; "))
    print("recorded:", m["kind"], "for", m["tree"], "cached", m["cached"], "fresh", m["fresh"], "history", m["history"])
    regen = m.get("regen") or {}
    obs = []
    if regen.get("mode") == "adversarial":
        from harness.common import rng_for
        i = regen["index"]
        gtext, words = TWIN_SPECS[i % len(TWIN_SPECS)]
        obs.append(adversarial_history(run, rng_for(PID, regen["seed"], f"adv{i}"), gtext, words))
    elif regen.get("mode") == "evolution":
        obs.append(observed_fuzz(run, TextSpec(m["spec"], m.get("extra") or [], regen.get("origin", "replay:replay")),
                                 regen["fuzz_seed"], 120))
    bad = False
    for ob in obs:
        same = [x for x in ob.mismatches if classify(x) == classify(m)] or ob.mismatches
        if same:
            x = same[0]
            print("FAILS now:", x["kind"], x["tree"], "cached", x["cached"], "fresh", x["fresh"], "history", x["history"][-5:])
            bad = True
    print("replay:", "property violated" if bad else "no violation on the current tree")
    return 1 if bad else 0


def main(tier: str) -> int:
    run = Run(PID, tier, "proof")
    use_repo()
    C02.quiet()
    load_known(run)
    REPORTED.clear()
    memo = translate_memo.regenerate()
    lean = lean_check("Props.C11", [])
    for r in memo["refusals"]:
        lean.broken.append({"module": "Generated.MemoKey", "reason": "translator refused: " + r})
    install_wrappers()
    rng = run.rng("cases")
    t0 = time.time()
    totals = {"evaluate": 0, "fitness": 0, "cache_hits": 0}
    implication_probe(run)
    origin_tags_probe(run)
    equal_subtrees_probe(run)
    # (b) adversarial histories
    n_adv = 30 if tier == "quick" else 300
    for i in range(n_adv):
        gtext, words = TWIN_SPECS[i % len(TWIN_SPECS)]
        # every history has its own random stream, so that `replay` can regenerate exactly this one
        ob = adversarial_history(run, run.rng(f"adv{i}"), gtext, words,
                                 {"mode": "adversarial", "index": i, "seed": run.seed})
        for k in totals:
            totals[k] += ob.calls[k]
        run.case({"adv": i, "h": ob.history}, nontrivial=ob.calls["cache_hits"] > 0,
                 sample={"spec": gtext, "history": ob.history[:8], "calls": ob.calls} if i < 3 else None)
        run.count("history:adversarial")
        report_mismatches(run, ob)
    # (a) real evolution runs: fixed case counts (the time cap is only a safety net)
    n_batches, cap = (5, 170) if tier == "quick" else (45, 1350)
    specs = C02.corpus_specs()
    for _ in range(n_batches):
        specs += C02.gen_specs(rng, 4, 3)
    for sp in specs:
        seed = rng.randint(0, 10 ** 6)
        if time.time() - t0 >= cap:
            run.count("spec:skipped-time-cap")
            continue
        try:
            ob = observed_fuzz(run, sp, seed, 25)
        except Exception as e:  # noqa: BLE001 — the front end refuses the spec
            run.count("spec:rejected:" + type(e).__name__)
            continue
        for k in totals:
            totals[k] += ob.calls[k]
        run.case({"spec": ob.spec_text, "extra": ob.extra, "n": ob.calls["evaluate"]},
                 nontrivial=ob.calls["cache_hits"] > 0,
                 sample={"spec": ob.spec_text, "calls": ob.calls})
        run.count("history:evolution:" + sp.origin.split(":")[1])
        report_mismatches(run, ob)
    run.coverage["calls_compared"] = totals
    run.coverage["traces_validated_against_impl"] = totals["evaluate"] + totals["fitness"]
    if totals["cache_hits"] == 0 or totals["evaluate"] == 0:
        raise MachineryError("no cache hit was observed: the check did not exercise the caches")
    if not lean.ok and not run.violations:
        run.report("C11/unproved", "proof obligations of Props/C11.lean no longer check: " + json.dumps(lean.broken)[:600],
                   {"broken_obligations": lean.broken}, no_input=True)
    return run.finish(
        lean,
        rule="every Evaluator.evaluate_individual / Constraint.fitness call of (a) bounded real evolution runs "
             "(population 8, <=6 generations) on generated specs (random grammars x constraint programs, computed "
             "repetitions) and (b) generated adversarial histories on one Evaluator (re-evaluation, deep copies, in-place "
             "child reversal, subtree replacement, tag twins from parse_forest) is compared with brand-new objects; "
             "a history is non-trivial when it had at least one cache hit",
        trusted_base=TRUSTED)
