"""C12 — parse results do not depend on earlier parse calls.

1. obligations: Props/C12.lean for the cache configuration that harness/translate_cache.py reads off
   /repo's current `Parser.parse_forest` (Generated/Cache.lean), lake build, axiom audit
2. correspondence: request histories on ONE real Grammar object vs the Lean state machine (drv_cache)
   over symbolic trees: every yield of every generator must be the tree the model predicts — also on
   the paths where the current source is known to misbehave (the model has the shared registers and
   the aliasing), so the model is tied to the code that exists
3. the property itself, independent of the model: every answer in a history (first tree, whole forest,
   slices of a lazily pulled forest, API parse) must be exactly what a FRESH Grammar object built from
   the same spec text answers (canonical trees incl. sender / recipient / read_only / sources and
   origin_repetitions modulo renaming of iteration ids; ordered, and as multisets)
4. a difference is shrunk (delta debugging over the op list) and reported with a signature derived from
   the minimal history
"""
from __future__ import annotations

import json
import os
import time
from pathlib import Path
from typing import Any, Optional

from harness import translate_cache
from harness.common import VERIF, MachineryError, Run, driver_ask, lean_check, use_repo
from harness.impl import cache_ops as co

PID = "C12"

TRUSTED = [
    "Lean 4.33.0 kernel; axioms ⊆ {propext, Classical.choice, Quot.sound} (audited per run)",
    "hand-written model lean/Model/ParseCache.lean (Parser._cache + parse_forest generators + the shared "
    "IterativeParser registers _parsing_mode/_incomplete) and Model/OriginTags.lean (_rec_to_derivation_tree); "
    "tied by this run's correspondence (generator-bounded)",
    "the fresh parser is an abstract parameter of the model (Oracle: complete / partialRaw / collapse / edits); "
    "its tables are taken per run from fresh Grammar objects",
    "translator harness/translate_cache.py (AST of Parser.parse_forest, Parser._parse_forest, "
    "IterativeParser._collapse) -> Generated/Cache.lean",
    "canonicaliser harness/impl/cache_ops.py (tree JSON, first-occurrence renaming of iteration ids, collapse and "
    "edits on JSON)",
    "not modelled: the registers _hookin_parent/_tmp_rules of computed repetitions (interleavings on such "
    "grammars are checked against fresh objects only), Grammar.max_position()",
]

# ------------------------------------------------------------------------------------------------
# specs
# ------------------------------------------------------------------------------------------------

def S(text: str) -> list:
    return ["s", text]


def B(b: bytes) -> list:
    return ["b", b.hex()]


SPECS: list[dict] = [
    {"name": "amb-ab", "spec": '<start> ::= <a> | <b>\n<a> ::= "x"\n<b> ::= "x"\n',
     "words": [S("x"), S("y"), S(""), S("xx")], "starts": ["<start>", "<a>", "<b>"], "api": True},
    {"name": "amb-opt", "spec": '<start> ::= <a> | <b>\n<a> ::= "x" "y"?\n<b> ::= "x"\n',
     "words": [S("x"), S("xy"), S("q"), S("")], "starts": ["<start>", "<a>", "<b>"], "api": True},
    {"name": "amb-ss", "spec": '<start> ::= <s>\n<s> ::= <s> <s> | "a"\n',
     "words": [S("a"), S("aa"), S("aaa"), S("aaaa"), S("b"), S("ab")], "starts": ["<start>", "<s>"], "api": True,
     "modes": [0]},      # INCOMPLETE mode does not terminate on this grammar (C06's subject)
    {"name": "unamb", "spec": '<start> ::= <k> "=" <v>\n<k> ::= "a" | "b"\n<v> ::= r"[0-9]+"\n',
     "words": [S("a=1"), S("b=22"), S("a="), S("c=1"), S("a=1x")], "starts": ["<start>", "<k>", "<v>"], "api": True},
    {"name": "rep", "spec": '<start> ::= <a>{1,3} <b>*\n<a> ::= "x"\n<b> ::= "y" | "yy"\n',
     "words": [S("x"), S("xx"), S("xxyy"), S("xyyy"), S("y"), S("xxxx")], "starts": ["<start>", "<b>"], "api": True},
    {"name": "rep-nested", "spec": '<start> ::= (<a> ","?)+\n<a> ::= "x"{1,2}\n',
     "words": [S("x"), S("xx"), S("x,x"), S("xxx"), S(",")], "starts": ["<start>", "<a>"], "api": True},
    {"name": "bytes", "spec": '<start> ::= <h> <p>+\n<h> ::= b"\\x01" | b"\\x02"\n<p> ::= b"\\xff" | b"\\xff\\xff" | b"a"\n',
     "words": [B(b"\x01\xff"), B(b"\x01\xff\xff"), B(b"\x02a\xff\xff"), B(b"\x03a"), B(b"\x01")],
     "starts": ["<start>", "<p>"], "api": True},
    {"name": "bits", "spec": '<start> ::= <f> | <bit>{3}\n<f> ::= <bit>{8}\n<bit> ::= 0 | 1\n',
     "words": [B(b"\x05"), B(b"\xa5"), B(b""), ["tw", [1, 0, 1]], ["tw", [0, 0, 0, 0, 0, 1, 0, 1]],
               ["tw", [1, 0, 1, 0, 0, 1, 0, 1]], ["tw", [B(b"\x05")]]],
     "starts": ["<start>", "<f>"], "api": False},
    {"name": "computed", "spec": '<start> ::= <len> <body>\n<len> ::= "1" | "2" | "3"\n<body> ::= <c>{int(<len>)}\n<c> ::= "c"\n',
     "words": [S("2cc"), S("3ccc"), S("2c"), S("1c"), S("cc"), S("ccc")], "starts": ["<start>", "<len>"],
     "hooks": {"start": "<body>", "words": [S("cc"), S("ccc"), S("c")], "hooks": [["len", 2], ["len", 3], ["len", 1]]},
     "api": True, "modelled": False},
    {"name": "eq-repair", "spec": '<start> ::= <x> "-" <y>\n<x> ::= r"[a-c]{1,3}"\n<y> ::= r"[a-c]{1,3}"\nwhere <x> == "abc"\n',
     "words": [S("abc-b"), S("ab-b"), S("abc-"), S("abc")], "starts": ["<start>", "<x>"], "api": True,
     "fuzz": True, "modelled": False},
    {"name": "generator", "spec": '<start> ::= <a> ":" <h>\n<a> ::= r"[a-c]{1,4}"\n<h> ::= <d>+ := str(len(str(<a>)))\n<d> ::= r"[0-9]"\n',
     "words": [S("abc:3"), S("a:1"), S("a:"), S("3")], "starts": ["<start>", "<h>"], "api": False,
     "fuzz": True, "modelled": False, "modes": [0]},   # INCOMPLETE mode does not terminate on <d>+ (C06)
]
SPEC_BY_NAME = {s["name"]: s for s in SPECS}


# ------------------------------------------------------------------------------------------------
# history generation
# ------------------------------------------------------------------------------------------------

def gen_history(rng, spec: dict, n_ops: int, n_probes: int) -> list:
    hist: list = []
    oid = 0
    opens: list[int] = []
    producers: list[tuple[int, bool]] = []     # (oid, include_controlflow) of ops that return trees
    used: list[tuple] = []                     # (w, start) already requested

    def pick_req() -> tuple:
        if used and rng.random() < 0.65:
            return rng.choice(used)
        r = (rng.choice(spec["words"]), rng.choice(spec["starts"]) if rng.random() < 0.35 else "<start>")
        used.append(r)
        return r

    def mode() -> int:
        return 1 if (rng.random() < 0.25 and 1 in spec.get("modes", [0, 1])) else 0

    for i in range(n_ops + n_probes):
        probing = i >= n_ops
        kinds = ["parse"] * 20 + ["forest"] * 22 + ["multiple"] * 4
        if not probing:
            kinds += ["open"] * 14
            if opens:
                kinds += ["next"] * 16 + ["exhaust"] * 6 + ["close"] * 4
            if producers:
                kinds += ["mutate"] * 12
            if spec.get("fuzz"):
                kinds += ["fuzz"] * 3
        if spec.get("api"):
            kinds += ["api"] * 6
        if spec.get("hooks"):
            kinds += ["pforest"] * 10
        k = rng.choice(kinds)
        if k == "parse":
            w, st = pick_req()
            hist.append([oid, "parse", w, st, mode()])
            producers.append((oid, False))
        elif k == "forest":
            w, st = pick_req()
            cf = rng.random() < 0.12
            hist.append([oid, "forest", w, st, mode(), cf])
            producers.append((oid, cf))
        elif k == "multiple":
            w, st = pick_req()
            hist.append([oid, "multiple", w, st, mode()])
            producers.append((oid, False))
        elif k == "open":
            w, st = pick_req()
            cf = rng.random() < 0.1
            hist.append([oid, "open", w, st, mode(), cf])
            opens.append(oid)
            producers.append((oid, cf))
        elif k == "next":
            hist.append([oid, "next", rng.choice(opens), rng.choice([1, 1, 1, 2, 3])])
        elif k == "exhaust":
            hist.append([oid, "exhaust", rng.choice(opens)])
        elif k == "close":
            hist.append([oid, "close", rng.choice(opens)])
        elif k == "mutate":
            src, _cf = rng.choice(producers)
            kind = "list" if rng.random() < 0.4 else "node"
            variant = rng.randrange(co.LIST_VARIANTS if kind == "list" else co.NODE_VARIANTS)
            fn = co.edit_code(kind, variant, rng.choice([0, 1, 1, 2, 2, 3, 4]))
            hist.append([oid, "mutate", src, rng.choice([0, 0, 0, 1, 2]), kind, fn])
        elif k == "api":
            w = rng.choice(spec["words"])
            if w[0] == "tw":
                w = spec["words"][0]
            hist.append([oid, "api", w, rng.random() < 0.2 and 1 in spec.get("modes", [0, 1])])
            producers.append((oid, False))
        elif k == "pforest":
            h = spec["hooks"]
            hist.append([oid, "pforest", rng.choice(h["words"]), h["start"], 0,
                         rng.choice(h["hooks"] + [None])])
            producers.append((oid, False))
        elif k == "fuzz":
            hist.append([oid, "fuzz", rng.randrange(1000)])
        oid += 1
    return hist


# ------------------------------------------------------------------------------------------------
# fresh answers (memoised per spec and request: a fresh object is deterministic)
# ------------------------------------------------------------------------------------------------

class Fresh:
    def __init__(self) -> None:
        self.answers: dict[str, Any] = {}
        self.raw_ids: dict[str, list] = {}
        self.raw: dict[str, Any] = {}
        self.timeouts = 0
        self.timed_out: list[str] = []

    def answer(self, spec: dict, req: list) -> Any:
        key = spec["name"] + "|" + json.dumps(req)
        if key not in self.answers:
            try:
                self.answers[key], self.raw_ids[key] = co.fresh_answer(spec["spec"], req)
            except co.OpTimeout:
                self.timeouts += 1
                self.timed_out.append(key)
                self.answers[key] = {"exc": "TIMEOUT"}
        return self.answers[key]

    def tables(self, spec: dict, req: list) -> tuple[Any, Any]:
        key = spec["name"] + "|" + json.dumps([req[0], req[1], req[4]])
        if key not in self.raw:
            try:
                self.raw[key] = co.fresh_raw_tables(spec["spec"], req,
                                                    with_partial=1 in spec.get("modes", [0, 1]))
            except co.OpTimeout:
                self.timeouts += 1
                self.timed_out.append("raw:" + key)
                self.raw[key] = ({"exc": "TIMEOUT"}, {"exc": "TIMEOUT"})
        return self.raw[key]


# ------------------------------------------------------------------------------------------------
# the property on the real code: every answer equals the fresh answer
# ------------------------------------------------------------------------------------------------

def expected_for(rec: dict, fresh: Any) -> tuple[Any, bool]:
    """(expected result, comparable)"""
    if isinstance(fresh, dict):
        if fresh.get("exc") == "TIMEOUT":
            return None, False
        return fresh, True
    kind = rec["kind"]
    if kind == "first":
        return fresh[:1], True
    if kind in ("all", "api"):
        return fresh, True
    if kind == "slice":
        off = rec["offset"]
        got = rec["result"]
        if isinstance(got, dict):
            return fresh, True
        if rec.get("done"):
            return fresh[off:], True
        return fresh[off:off + len(got)], True
    return None, False


def diff_kind(got: Any, want: Any) -> Optional[str]:
    if got == want:
        return None
    if isinstance(got, list) and isinstance(want, list):
        a = sorted(json.dumps(t) for t in got)
        b = sorted(json.dumps(t) for t in want)
        if a == b:
            return "order"
    return "trees"


def observe(spec: dict, history: list, fresh: Fresh) -> tuple[list[dict], list[dict], Optional[str]]:
    """run the history on one real object; returns (records, differences, machinery note)"""
    try:
        sess = co.Session(spec["spec"])
        recs = sess.run(history)
    except co.OpTimeout:
        return [], [], "timeout"
    diffs = []
    for rec in recs:
        if rec["kind"] == "none" or "result" not in rec:
            continue
        want, ok = expected_for(rec, fresh.answer(spec, rec["req"]))
        if not ok:
            continue
        d = diff_kind(rec["result"], want)
        if d is None and rec["kind"] in ("all", "api", "first") and isinstance(rec["result"], list) and rec["result"]:
            # same trees modulo renaming: do the ABSOLUTE iteration ids differ from the fresh object's?
            mine = sess.raw_ids.get(rec["oid"], [])
            theirs = fresh.raw_ids.get(spec["name"] + "|" + json.dumps(rec["req"]), [])
            if any(mine) or any(theirs):
                rec["ids_differ"] = mine != theirs[:len(mine)]
        if d:
            diffs.append({"oid": rec["oid"], "op": rec["op"], "req": rec["req"], "kind": d,
                          "got": rec["result"], "want": want})
    return recs, diffs, None


# ------------------------------------------------------------------------------------------------
# classification of a (minimal) failing history
# ------------------------------------------------------------------------------------------------

PARSE_OPS = {"parse", "forest", "multiple", "pforest", "api", "fuzz", "idreuse"}


def req_key(op: list, by_oid: dict) -> Optional[str]:
    """(word, start, mode[, hook]) of the request an op makes or continues"""
    name = op[1]
    if name in ("next", "exhaust", "close"):
        src = by_oid.get(op[2])
        return req_key(src, by_oid) if src is not None else None
    if name in ("parse", "forest", "multiple", "open"):
        return json.dumps([co.word_core(op[2])[0], op[3], op[4], None])
    if name == "pforest":
        return json.dumps([co.word_core(op[2])[0], op[3], op[4], op[5]])
    if name == "api":
        return json.dumps([co.word_core(op[2])[0], "<start>", 1 if op[3] else 0, None])
    return None


def features(history: list, fail_oid: Optional[int] = None) -> list[str]:
    """syntactic features of a (minimal) failing history, from which its signature is derived"""
    feats = set()
    by_oid = {op[0]: op for op in history}
    if fail_oid is not None and fail_oid in by_oid:
        fop = by_oid[fail_oid]
        if fop[1] in ("next", "exhaust"):
            fop = by_oid.get(fop[2], fop)
        if fop[1] in ("forest", "open") and fop[5]:
            feats.add("cf-request")
    first_pull: dict[int, int] = {}
    enumerated: dict[str, int] = {}       # request key -> index of the first op that may have cached it
    for i, op in enumerate(history):
        name = op[1]
        if name == "mutate":
            src = by_oid.get(op[2])
            src_idx = history.index(src) if src is not None else -1
            k = req_key(src, by_oid) if src is not None else None
            from_hit = k is not None and k in enumerated and enumerated[k] < src_idx
            if from_hit:
                feats.add("edit-of-hit-tree")          # hits are deep copies: never a known finding
            elif op[4] == "list":
                feats.add("lists")
            elif src is not None and src[1] in ("forest", "open") and src[5]:
                feats.add("cf-object")
            else:
                feats.add("node-edit")
        if name in ("parse", "forest", "multiple", "open", "pforest", "api"):
            w = op[2]
            if isinstance(w, list) and w[0] == "tw" and any(isinstance(x, int) for x in w[1]):
                feats.add("starter-bit")
        if name in ("forest", "multiple", "pforest", "api", "exhaust", "parse", "next"):
            k = req_key(op, by_oid)
            if k is not None:
                enumerated.setdefault(k, i)
        if name in ("next", "exhaust"):
            src = op[2]
            if src in first_pull:
                between = history[first_pull[src] + 1:i]
                if any(o[1] in PARSE_OPS or (o[1] in ("next", "exhaust") and o[2] != src) for o in between):
                    feats.add("resume")
            else:
                first_pull[src] = i
    return sorted(feats)


SIGNATURES = {
    ("resume",): "C12/generator-resumed-after-new-parse",
    ("lists",): "C12/returned-tree-lists-alias-cache",
    ("cf-object",): "C12/controlflow-tree-is-cache-object",
    ("starter-bit",): "C12/starter-bit-not-in-cache-key",
    ("cf-request",): "C12/controlflow-hit-yields-nothing",
    ("node-edit",): "C12/history-dependence[node-edit]",
}


def signature_of(history: list, fail_oid: Optional[int] = None, d: Optional[dict] = None) -> str:
    fs = features(history, fail_oid)
    if "cf-request" in fs:
        # narrow: the failing request asks for control-flow nodes and is answered with NO tree at all
        if d is not None and d.get("got") == [] and d.get("want"):
            return SIGNATURES[("cf-request",)]
        fs = [x for x in fs if x != "cf-request"]
    f = tuple(fs)
    if f in SIGNATURES:
        return SIGNATURES[f]
    if not f:
        return "C12/history-dependence"
    return "C12/history-dependence[" + "+".join(f) + "]"


# ------------------------------------------------------------------------------------------------
# shrinking (delta debugging over the op list; the failing op is kept)
# ------------------------------------------------------------------------------------------------

def shrink(spec: dict, history: list, fail_oid: int, fresh: Fresh, budget_s: float = 25.0) -> list:
    t0 = time.time()

    def fails(h: list) -> bool:
        _, diffs, note = observe(spec, h, fresh)
        return note is None and any(d["oid"] == fail_oid and d["kind"] == "trees" for d in diffs)

    # drop everything after the failing op first
    idx = next(i for i, op in enumerate(history) if op[0] == fail_oid)
    cur = history[:idx + 1]
    if not fails(cur):
        cur = history
    n = 2
    while len(cur) >= 2 and time.time() - t0 < budget_s:
        chunk = max(1, len(cur) // n)
        removed = False
        for start in range(0, len(cur), chunk):
            cand = [op for i, op in enumerate(cur) if not (start <= i < start + chunk) or op[0] == fail_oid]
            if len(cand) < len(cur) and fails(cand):
                cur = cand
                n = max(n - 1, 2)
                removed = True
                break
        if not removed:
            if chunk == 1:
                break
            n = min(len(cur), n * 2)
    # simplify: next k -> next 1, INCOMPLETE -> COMPLETE where the failure survives
    for i, op in enumerate(list(cur)):
        if time.time() - t0 > budget_s:
            break
        if op[1] == "next" and op[3] > 1:
            cand = [list(o) for o in cur]
            cand[i][3] = 1
            if fails(cand):
                cur = cand
    return cur


# ------------------------------------------------------------------------------------------------
# the model side
# ------------------------------------------------------------------------------------------------

class Translation:
    """real history -> model ops + the real yields each model pull must reproduce"""

    def __init__(self, spec: dict, fresh: Fresh):
        self.spec, self.fresh = spec, fresh
        self.words: dict[str, int] = {}
        self.starts: dict[str, int] = {}
        self.hooks: dict[str, int] = {}
        self.tree_ids: dict[str, int] = {}
        self.tree_json: list[list] = []
        self.complete: dict[str, list] = {}
        self.partial: dict[str, list] = {}
        self.skip: Optional[str] = None
        self.unkeyed = False

    def _id(self, table: dict, key: str, base: int = 0) -> int:
        if key not in table:
            table[key] = len(table) + base
        return table[key]

    def tid(self, tj: list) -> int:
        k = json.dumps(tj)
        if k not in self.tree_ids:
            self.tree_ids[k] = len(self.tree_json)
            self.tree_json.append(tj)
        return self.tree_ids[k]

    def req(self, r: list, key_sbit: bool) -> Optional[list]:
        w, start, mode, cf, hook = r
        wkey, sbit = co.word_core(w)
        core = [self._id(self.words, wkey), sbit, self._id(self.starts, start),
                0 if hook is None else self._id(self.hooks, json.dumps(hook), 1)]
        if sbit and not key_sbit:
            self.unkeyed = True
        ck = json.dumps(core)
        if ck not in self.complete:
            comp, part = self.fresh.tables(self.spec, r)
            if isinstance(comp, dict) or isinstance(part, dict):
                self.skip = "request raises or times out on a fresh object"
                return None
            self.complete[ck] = [self.tid(t) for t in comp]
            self.partial[ck] = [self.tid(t) for t in part]
        return core + [int(mode), int(bool(cf))]

    def eval_term(self, term: Any) -> list:
        def ev(t: Any) -> list:
            if isinstance(t, int):
                return self.tree_json[t]
            if t[0] == "v":
                return co.collapse_json(ev(t[1]))
            if t[0] == "e":
                return co.apply_edit_json(ev(t[2]), t[1])
            raise MachineryError(f"bad term {t}")
        return co.normalize_ids(ev(term))


def translate(spec: dict, history: list, recs: list[dict], fresh: Fresh, key_sbit: bool):
    """-> (Translation, model ops, expected yields per model op) or (Translation, None, None) when skipped"""
    tr = Translation(spec, fresh)
    by_oid = {r["oid"]: r for r in recs}
    ops: list = []
    expect: list = []
    gen_of: dict[int, int] = {}
    n_gens = 0
    out_index: dict[tuple[int, int], int] = {}
    n_outs = 0
    per_src_count: dict[int, int] = {}

    def add(op: list, exp: Any = None) -> None:
        ops.append(op)
        expect.append(exp)

    def pulls(g: int, src: int, results: list, stop: bool) -> None:
        nonlocal n_outs
        for t in results:
            add(["pull", g], t)
            k = per_src_count.get(src, 0)
            out_index[(src, k)] = n_outs
            per_src_count[src] = k + 1
            n_outs += 1
        if stop:
            add(["pull", g], None)

    for op in history:
        oid, name = op[0], op[1]
        rec = by_oid.get(oid)
        if rec is None:
            continue                      # the op was skipped (dangling reference)
        if name in ("fuzz", "idreuse") or isinstance(rec.get("result"), dict):
            tr.skip = "op outside the model (fuzz / raising request)"
            return tr, None, None
        if name in ("parse", "forest", "multiple", "pforest", "api", "open"):
            if name == "api":
                r = [op[2], "<start>", 1 if op[3] else 0, False, None]
            else:
                r = rec["req"] if name != "open" else [op[2], op[3], op[4], bool(op[5]), None]
            mr = tr.req(r, key_sbit)
            if mr is None:
                return tr, None, None
            g = n_gens
            n_gens += 1
            add(["start", mr])
            if name == "open":
                gen_of[oid] = g
            elif name == "parse":
                pulls(g, oid, rec["result"], stop=(len(rec["result"]) == 0))
                add(["drop", g])
            else:
                pulls(g, oid, rec["result"], stop=True)
        elif name in ("next", "exhaust"):
            pulls(gen_of[op[2]], op[2], rec["result"], stop=bool(rec.get("done")))
        elif name == "close":
            add(["drop", gen_of[op[2]]])
        elif name == "mutate":
            o = out_index.get((op[2], op[3]))
            if o is None:
                continue
            add(["mutate", o, op[4], op[5]])
    return tr, ops, expect


def model_request(tr: Translation, ops: list) -> dict:
    return {"op": "replay", "config": "generated",
            "complete": [[json.loads(k), v] for k, v in tr.complete.items()],
            "partial": [[json.loads(k), v] for k, v in tr.partial.items()],
            "history": ops, "probe": []}


# ------------------------------------------------------------------------------------------------
# targeted histories (the design's witnesses and the mutations the check must catch)
# ------------------------------------------------------------------------------------------------

def corpus_cases() -> list[tuple[str, list]]:
    x, q, xy = S("x"), S("q"), S("xy")
    st = "<start>"
    out: list[tuple[str, list]] = [
        # pre-fix policy: first tree, then the whole forest
        ("amb-ab", [[0, "parse", x, st, 0], [1, "forest", x, st, 0, False]]),
        ("amb-ss", [[0, "parse", S("aaa"), st, 0], [1, "forest", S("aaa"), st, 0, False], [2, "parse", S("aaa"), st, 0]]),
        ("amb-ab", [[0, "open", x, st, 0, False], [1, "next", 0, 1], [2, "close", 0], [3, "forest", x, st, 0, False]]),
        # interleaving on the shared IterativeParser
        ("amb-opt", [[0, "open", x, st, 0, False], [1, "next", 0, 1], [2, "forest", q, st, 1, False],
                     [3, "exhaust", 0], [4, "forest", x, st, 0, False]]),
        ("amb-opt", [[0, "open", x, st, 1, False], [1, "next", 0, 1], [2, "parse", q, st, 0],
                     [3, "exhaust", 0], [4, "forest", x, st, 1, False]]),
        ("amb-opt", [[0, "open", x, st, 0, False], [1, "next", 0, 1], [2, "open", xy, st, 1, False],
                     [3, "next", 2, 1], [4, "next", 0, 1], [5, "exhaust", 2], [6, "exhaust", 0],
                     [7, "forest", x, st, 0, False], [8, "forest", xy, st, 1, False]]),
        ("amb-ss", [[0, "open", S("aaa"), st, 0, False], [1, "next", 0, 1], [2, "open", S("aaaa"), st, 0, False],
                    [3, "next", 2, 2], [4, "next", 0, 1], [5, "exhaust", 2], [6, "exhaust", 0],
                    [7, "forest", S("aaa"), st, 0, False], [8, "forest", S("aaaa"), st, 0, False]]),
        # two INCOMPLETE forests of the same word, the second started while the first is in its incomplete phase
        ("amb-opt", [[0, "open", x, st, 1, False], [1, "next", 0, 3], [2, "forest", x, st, 1, False],
                     [3, "exhaust", 0], [4, "forest", x, st, 1, False]]),
        ("amb-opt", [[0, "open", xy, st, 1, False], [1, "next", 0, 1], [2, "open", x, st, 1, False], [3, "next", 2, 3],
                     [4, "next", 0, 1], [5, "exhaust", 2], [6, "exhaust", 0], [7, "forest", x, st, 1, False]]),
        # interleaving that only hits the cache is harmless
        ("amb-ab", [[0, "forest", S("y"), st, 1, False], [1, "open", x, st, 0, False], [2, "next", 1, 1],
                    [3, "forest", S("y"), st, 1, False], [4, "exhaust", 1], [5, "forest", x, st, 0, False]]),
        # aliasing between handed-out and cached trees
        ("rep", [[0, "forest", S("xx"), st, 0, False], [1, "mutate", 0, 0, "list", co.edit_code("list", 0, 1)],
                 [2, "forest", S("xx"), st, 0, False]]),
        ("rep", [[0, "forest", S("xx"), st, 0, False], [1, "mutate", 0, 0, "list", co.edit_code("list", 1, 2)],
                 [2, "forest", S("xx"), st, 0, False]]),
        ("amb-ab", [[0, "forest", x, st, 0, True], [1, "mutate", 0, 0, "node", co.edit_code("node", 0, 0)],
                    [2, "forest", x, st, 0, False]]),
        # returned trees are copies: node edits of hits and misses never show up later
        ("amb-ab", [[0, "forest", x, st, 0, False], [1, "forest", x, st, 0, False],
                    [2, "mutate", 1, 0, "node", co.edit_code("node", 0, 0)],
                    [3, "mutate", 1, 1, "node", co.edit_code("node", 2, 1)],
                    [4, "mutate", 1, 0, "list", co.edit_code("list", 0, 1)], [5, "forest", x, st, 0, False]]),
        ("rep", [[0, "forest", S("xxyy"), st, 0, False], [1, "forest", S("xxyy"), st, 0, False],
                 [2, "mutate", 1, 0, "list", co.edit_code("list", 1, 1)],
                 [3, "mutate", 1, 1, "node", co.edit_code("node", 4, 2)], [4, "forest", S("xxyy"), st, 0, False]]),
        # ... also when the hit was asked for with include_controlflow=True
        ("amb-ab", [[0, "forest", x, st, 0, False], [1, "forest", x, st, 0, True],
                    [2, "mutate", 1, 0, "node", co.edit_code("node", 0, 0)],
                    [3, "mutate", 1, 1, "list", co.edit_code("list", 0, 1)],
                    [4, "forest", x, st, 0, False], [5, "forest", x, st, 0, True]]),
        ("rep", [[0, "forest", S("xx"), st, 0, True], [1, "forest", S("xx"), st, 0, True],
                 [2, "mutate", 1, 0, "list", co.edit_code("list", 1, 2)],
                 [3, "mutate", 0, 0, "node", co.edit_code("node", 2, 1)], [4, "forest", S("xx"), st, 0, True]]),
        # the cache key: start symbol, mode
        ("amb-ab", [[0, "forest", x, "<a>", 0, False], [1, "forest", x, "<b>", 0, False], [2, "forest", x, st, 0, False]]),
        ("amb-opt", [[0, "forest", x, st, 0, False], [1, "forest", x, st, 1, False], [2, "forest", x, st, 0, False]]),
        ("amb-opt", [[0, "forest", x, st, 1, False], [1, "forest", x, st, 0, False], [2, "parse", xy, st, 0]]),
        # starter bit of a DerivationTree word
        ("bits", [[0, "forest", ["tw", [1, 0, 1]], st, 0, False], [1, "forest", ["tw", [0, 0, 0, 0, 0, 1, 0, 1]], st, 0, False]]),
        ("bits", [[0, "forest", ["tw", [0, 0, 0, 0, 0, 1, 0, 1]], st, 0, False], [1, "forest", ["tw", [1, 0, 1]], st, 0, False],
                  [2, "forest", B(b"\x05"), st, 0, False]]),
        # hook-in parents: same word and start, different parent
        ("computed", [[0, "pforest", S("cc"), "<body>", 0, ["len", 2]], [1, "pforest", S("cc"), "<body>", 0, ["len", 3]],
                      [2, "pforest", S("cc"), "<body>", 0, ["len", 2]], [3, "pforest", S("cc"), "<body>", 0, None]]),
        ("computed", [[0, "pforest", S("ccc"), "<body>", 0, ["len", 3]], [1, "pforest", S("ccc"), "<body>", 0, ["len", 2]],
                      [2, "forest", S("3ccc"), st, 0, False], [3, "api", S("2cc"), False], [4, "api", S("2cc"), False]]),
        # one hook-in parent object, edited in place between two requests
        ("computed", [[0, "idreuse", S("cc"), "<body>", ["len", 2], ["len", 3]],
                      [1, "idreuse", S("ccc"), "<body>", ["len", 3], ["len", 2]],
                      [2, "idreuse", S("c"), "<body>", ["len", 1], ["len", 3]]]),
        # API and fuzz-internal parses
        ("eq-repair", [[0, "fuzz", 1], [1, "api", S("abc-b"), False], [2, "forest", S("abc"), "<x>", 0, False],
                       [3, "fuzz", 2], [4, "forest", S("abc"), "<x>", 0, False], [5, "api", S("ab-b"), False]]),
        ("generator", [[0, "fuzz", 3], [1, "forest", S("3"), "<h>", 0, False], [2, "fuzz", 4],
                       [3, "forest", S("3"), "<h>", 0, False], [4, "parse", S("abc:3"), st, 0]]),
    ]
    cdir = VERIF / "corpus" / PID
    if cdir.is_dir():
        for p in sorted(cdir.glob("*.json")):
            try:
                rp = json.loads(p.read_text())
                out.append((rp["spec_name"], rp["history"]))
            except (OSError, ValueError, KeyError):
                continue
    return out


# ------------------------------------------------------------------------------------------------
# one case
# ------------------------------------------------------------------------------------------------

class Checker:
    def __init__(self, run: Run, cfg: dict[str, str]):
        self.run = run
        self.cfg = cfg
        self.key_sbit = cfg.get("keySbit") == "true"
        self.hit_yields_cf = cfg.get("hitYieldsCf") == "true"
        self.fresh = Fresh()
        self.pending: list[dict] = []
        self.corr_failures: list[dict] = []
        self.shrinks: dict[str, int] = {}
        self.reported: set[str] = set()
        self.timeouts: list[dict] = []
        self.order_notes: list[dict] = []

    def case(self, spec: dict, history: list, origin: str) -> None:
        run = self.run
        recs, diffs, note = observe(spec, history, self.fresh)
        if note:
            run.count("case:" + note)
            self.timeouts.append({"spec": spec["name"], "history": history})
            return
        n_ops = len(history)
        feats = features(history)
        answers = [r for r in recs if "result" in r]
        nontrivial = len(answers) >= 2 and any(isinstance(r["result"], list) and len(r["result"]) >= 1 for r in answers)
        run.case([spec["name"], history], nontrivial,
                 {"spec": spec["name"], "history": history[:6], "answers": len(answers)})
        run.count("origin:" + origin)
        run.count("spec:" + spec["name"])
        run.count(f"ops:{min(n_ops, 16)}")
        for op in history:
            run.count("op:" + op[1])
        for f in feats:
            run.count("feature:" + f)
        for r in answers:
            if "ids_differ" in r:
                run.count("iteration_ids:differ_from_fresh_but_trees_agree" if r["ids_differ"]
                          else "iteration_ids:same_as_fresh")
                if r["op"] == "api":
                    run.count("iteration_ids:api_verdicts_compared" + ("_with_shifted_ids" if r["ids_differ"] else ""))
            res = r["result"]
            run.count("answer:" + ("exc:" + res["exc"] if isinstance(res, dict) else
                                   "none" if len(res) == 0 else "one" if len(res) == 1 else "many"))
        tree_diffs = [d for d in diffs if d["kind"] == "trees"]
        for d in diffs:
            if d["kind"] == "order":
                run.count("order_only_difference")
                if len(self.order_notes) < 5:
                    self.order_notes.append({"spec": spec["name"], "history": history, "oid": d["oid"]})
        self.pending.append({"spec": spec, "history": history, "recs": recs, "diffs": tree_diffs})
        if tree_diffs:
            self.failing(spec, history, tree_diffs[0])

    def failing(self, spec: dict, history: list, d: dict) -> None:
        run = self.run
        pre = signature_of(history, d["oid"], d)
        run.count("differs_from_fresh")
        run.count("differs:" + pre)
        # shrink at most a few per pre-classification: known classes are hit many times
        if self.shrinks.get(pre, 0) >= (3 if pre.startswith("C12/history-dependence") else 1):
            return
        self.shrinks[pre] = self.shrinks.get(pre, 0) + 1
        small = shrink(spec, history, d["oid"], self.fresh)
        _, diffs2, _ = observe(spec, small, self.fresh)
        d2 = next((x for x in diffs2 if x["oid"] == d["oid"] and x["kind"] == "trees"), d)
        sig = signature_of(small, d2["oid"], d2)
        if sig in self.reported:
            return
        self.reported.add(sig)
        what = (f"[{spec['name']}] after {json.dumps([op[1:] for op in small if op[0] != d2['oid']])[:700]} the request "
                f"{json.dumps(next(op for op in small if op[0] == d2['oid'])[1:])} answers "
                f"{summ(d2['got'])} but a fresh grammar object answers {summ(d2['want'])}")
        run.report(sig, what, {"spec_name": spec["name"], "spec": spec["spec"], "history": small,
                               "failing_oid": d2["oid"], "got": d2["got"], "want": d2["want"],
                               "unshrunk_history": history})

    # ---- correspondence with the Lean state machine
    def flush(self) -> None:
        run = self.run
        batch, reqs = [], []
        for c in self.pending:
            spec = c["spec"]
            if not spec.get("modelled", True) or not self.cfg:
                run.count("model:not_modelled_spec")
                continue
            tr, ops, expect = translate(spec, c["history"], c["recs"], self.fresh, self.key_sbit)
            if tr is not None and not self.hit_yields_cf and any(
                    o[1] in ("forest", "open") and o[5] for o in c["history"]):
                tr.unkeyed = True
            if ops is None:
                run.count("model:skipped")
                continue
            batch.append((c, tr, ops, expect))
            reqs.append(model_request(tr, ops))
        self.pending.clear()
        if not reqs:
            return
        answers = driver_ask("drv_cache", reqs)
        for (c, tr, ops, expect), a in zip(batch, answers):
            run.count("model:cases")
            tainted = bool(a["tainted"]) or tr.unkeyed
            run.count("model:outside_envelope" if tainted else "model:inside_envelope")
            bad = None
            for i, (op, exp, got) in enumerate(zip(ops, expect, a["trace"])):
                if op[0] != "pull":
                    continue
                run.count("model:pulls")
                gj = None if got is None else tr.eval_term(got)
                if gj != exp:
                    bad = {"spec": c["spec"]["name"], "history": c["history"], "model_op_index": i, "model_op": op,
                           "impl": summ(exp), "model": summ(gj), "tainted": tainted}
                    break
            if bad:
                self.corr_failures.append(bad)
            if not tainted and c["diffs"]:
                run.count("inside_envelope_but_differs")
            if tainted and not c["diffs"]:
                run.count("outside_envelope_but_agrees_with_fresh")


def _is_tree(x: Any) -> bool:
    return isinstance(x, list) and len(x) == 7 and isinstance(x[0], list) and len(x[0]) == 2 \
        and isinstance(x[0][0], str)


def summ(x: Any) -> str:
    """short rendering of a result"""
    if x is None:
        return "StopIteration"
    if isinstance(x, dict):
        return json.dumps(x)
    if _is_tree(x):
        return json.dumps(brief(x))[:300]
    if isinstance(x, list):
        return f"{len(x)} tree(s) " + json.dumps([brief(t) for t in x])[:500]
    return json.dumps(x)[:300]


def brief(t: list) -> Any:
    sym = t[0][1]
    extra = []
    if t[1] or t[2]:
        extra.append([t[1], t[2]])
    if t[4]:
        extra.append(t[4])
    if t[5]:
        extra.append({"sources": len(t[5])})
    kids = [brief(c) for c in t[6]]
    return [sym] + extra + kids if (kids or extra) else sym


# ------------------------------------------------------------------------------------------------
# entry points
# ------------------------------------------------------------------------------------------------

def replay(path: str) -> int:
    use_repo()
    rp = json.load(open(path))
    if rp.get("no_failing_input_found"):
        print("replay: this file records broken proof obligations / correspondence, not a failing history")
        print(json.dumps({k: rp[k] for k in rp if k in ("broken_obligations", "correspondence", "what")}, indent=1)[:3000])
        return 1
    spec = dict(SPEC_BY_NAME.get(rp["spec_name"], {"name": rp["spec_name"]}))
    spec["spec"] = rp["spec"]
    fresh = Fresh()
    recs, diffs, note = observe(spec, rp["history"], fresh)
    if note:
        print("replay:", note)
        return 2
    for r in recs:
        if "result" in r:
            print(f"  op {r['oid']} {r['op']} {json.dumps(r.get('req'))}: {summ(r['result'])}")
    bad = [d for d in diffs if d["kind"] == "trees"]
    for d in bad:
        print(f"FAILS: op {d['oid']} answers {summ(d['got'])}; a fresh grammar object answers {summ(d['want'])}")
    print("replay:", "property violated" if bad else "no violation on the current tree")
    return 1 if bad else 0


def main(tier: str) -> int:
    run = Run(PID, tier, "proof")
    use_repo()
    gen = translate_cache.regenerate()
    lean = lean_check("Props.C12", ["drv_cache"])
    if gen["refusal"]:
        lean.broken.append({"module": "Generated.Cache", "reason": "translator refused: " + gen["refusal"]})
    cfg = gen["config"] if lean.ok or not gen["refusal"] else {}
    if not lean.ok:
        cfg = {}        # the driver may be stale or missing: no correspondence, property observation only
    chk = Checker(run, cfg)
    budget = 75.0 if tier == "quick" else 600.0
    n_cases = 1300 if tier == "quick" else 9000

    for name, hist in corpus_cases():
        if name in SPEC_BY_NAME:
            chk.case(SPEC_BY_NAME[name], hist, "corpus")
    chk.flush()

    rng = run.rng("histories")
    weights = [s for s in SPECS for _ in range(1 if s["name"] in ("eq-repair", "generator") else 3)]
    for i in range(n_cases):
        if run.budget_left(budget) < 0:
            run.count("stopped_on_budget")
            break
        spec = rng.choice(weights)
        n_ops = rng.choice([1, 2, 3, 3, 4, 4, 5, 6, 7, 8, 9]) if tier == "quick" else rng.randint(1, 12)
        n_probes = rng.choice([1, 2, 2, 3])
        hist = gen_history(rng, spec, n_ops, n_probes)
        chk.case(spec, hist, "random")
        if len(chk.pending) >= 150:
            chk.flush()
    chk.flush()

    if tier == "thorough":
        # exhaustive: every history of <= 3 ops over a small alphabet on two ambiguous grammars, then probes
        import itertools
        for sname, w1, w2 in (("amb-ab", S("x"), S("y")), ("amb-opt", S("x"), S("xy"))):
            spec = SPEC_BY_NAME[sname]
            alpha = [["parse", w1, "<start>", 0], ["forest", w1, "<start>", 0, False], ["forest", w1, "<start>", 1, False],
                     ["open", w1, "<start>", 0, False], ["open", w1, "<start>", 1, False], ["next", None, 1],
                     ["exhaust", None], ["close", None], ["parse", w2, "<start>", 1], ["forest", w1, "<a>", 0, False]]
            for n in range(1, 4):
                for seq in itertools.product(range(len(alpha)), repeat=n):
                    hist, last_open = [], None
                    for oid, ai in enumerate(seq):
                        a = alpha[ai]
                        if a[0] in ("next", "exhaust", "close"):
                            if last_open is None:
                                break
                            hist.append([oid, a[0], last_open] + a[2:])
                        else:
                            hist.append([oid] + a)
                            if a[0] == "open":
                                last_open = oid
                    else:
                        k = len(hist)
                        hist += [[k, "forest", w1, "<start>", 0, False], [k + 1, "forest", w1, "<start>", 1, False]]
                        chk.case(spec, hist, "exhaustive")
                if len(chk.pending) >= 150:
                    chk.flush()
            chk.flush()
        run.coverage["exhaustive_small"] = "all histories of <= 3 ops over a 10-op alphabet on amb-ab and amb-opt, each followed by two forest probes"

    # ---- deeper search: the obligations or the correspondence broke, but no failing history yet
    if (not lean.ok or chk.corr_failures) and not run.violations:
        t_deep = time.time()
        rng2 = run.rng("deeper")
        deep = 0
        while time.time() - t_deep < (60 if tier == "quick" else 240) and not run.violations:
            spec = rng2.choice(SPECS)
            chk.case(spec, gen_history(rng2, spec, rng2.randint(4, 12), 3), "deeper")
            deep += 1
            if len(chk.pending) >= 150:
                chk.flush()
        chk.flush()
        run.coverage["deeper_search_cases"] = deep

    # ---- verdict on broken obligations / correspondence
    run.coverage["traces_validated_against_impl"] = run.counters.get("model:cases", 0)
    run.coverage["correspondence_disagreements"] = len(chk.corr_failures)
    run.coverage["disagreement_samples"] = chk.corr_failures[:5]
    run.coverage["generated_config"] = gen["config"]
    run.coverage["translator_refusal"] = gen["refusal"]
    run.coverage["fresh_timeouts"] = chk.fresh.timeouts
    run.coverage["history_timeouts"] = chk.timeouts[:5]
    run.coverage["order_only_differences"] = chk.order_notes
    if chk.fresh.timeouts:
        raise MachineryError(f"{chk.fresh.timeouts} requests timed out on a fresh grammar object: "
                             + "; ".join(chk.fresh.timed_out[:5]))
    if (not lean.ok or chk.corr_failures) and not run.violations:
        what = []
        if not lean.ok:
            what.append("proof obligations of Props/C12.lean no longer check for the configuration read off the "
                        "source: " + json.dumps(lean.broken)[:600])
        if chk.corr_failures:
            what.append(f"model/implementation correspondence broken on {len(chk.corr_failures)} histories, e.g. "
                        + json.dumps(chk.corr_failures[0])[:600])
        run.report("C12/unproved", "; ".join(what),
                   {"broken_obligations": lean.broken, "correspondence": chk.corr_failures[:20]}, no_input=True)
    elif chk.corr_failures:
        # a correspondence break next to a concrete failing history: still recorded in the evidence
        run.coverage["note"] = "correspondence disagreements present together with concrete violations (see samples)"
    return run.finish(
        lean,
        rule="request histories (<= 12 ops + <= 3 probe requests) on ONE Grammar object over 11 specs (ambiguous, "
             "unambiguous, repetitions, bytes, bits, computed repetitions with hook-in parents, equality repair, "
             "generators): parse / parse_forest / parse_multiple / lazily pulled, abandoned and resumed forests / "
             "Parser.parse_forest with hook-in parents / Fandango.parse / fuzz / edits of returned trees; every "
             "answer is compared with a fresh object's; a case is non-trivial when >= 2 answers, one of them "
             "non-empty; distinct by (spec, history)",
        trusted_base=TRUSTED)
